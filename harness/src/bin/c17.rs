//! C17 correspondence: registries generated from a description (injected through
//! `OutputType::create_type_info`, like genschema.rs but with descriptions,
//! deprecations, defaults, enums, input objects, scalars, directive definitions
//! and directive invocations) plus one derive-built schema with awkward text.
//! For every schema and several export-option sets the REAL
//! `Schema::sdl_with_options` output is printed character by character, together
//! with the registry as dumped from the real `Registry` and with what the crate's
//! own `parse_schema` makes of the exported text.
use std::borrow::Cow;
use std::collections::HashMap;
use std::fmt::Write as _;
use std::sync::{Arc, Mutex, RwLock};

use agv_harness::*;
use async_graphql::indexmap::{IndexMap, IndexSet};
use async_graphql::parser::types as pt;
use async_graphql::parser::types::Field;
use async_graphql::registry::{
    __DirectiveLocation as Loc, Deprecation, MetaDirective, MetaDirectiveInvocation, MetaEnumValue, MetaField,
    MetaInputValue, MetaType, Registry,
};
use async_graphql::{
    ContainerType, Context, ContextSelectionSet, EmptyMutation, EmptySubscription, Name, ObjectType, OutputType,
    Positioned, Request, SDLExportOptions, Schema, ServerResult, Value,
};

// ------------------------------------------------------------ description --
type Inv = (String, Vec<(String, Value)>);

#[derive(Clone, Debug, Default)]
struct InputD {
    name: String,
    desc: Option<String>,
    ty: String,
    default: Option<Value>,
    depr: Option<Option<String>>,
    dirs: Vec<Inv>,
}

#[derive(Clone, Debug, Default)]
struct FieldD {
    name: String,
    desc: Option<String>,
    args: Vec<InputD>,
    ty: String,
    depr: Option<Option<String>>,
    dirs: Vec<Inv>,
}

#[derive(Clone, Debug, Default)]
struct EnumVD {
    name: String,
    desc: Option<String>,
    depr: Option<Option<String>>,
    dirs: Vec<Inv>,
}

#[derive(Clone, Debug)]
enum KindD {
    Scalar { url: Option<String> },
    Object { fields: Vec<FieldD>, implements: Vec<String> },
    Interface { fields: Vec<FieldD>, implements: Vec<String>, possible: Vec<String> },
    Union { possible: Vec<String> },
    Enum { values: Vec<EnumVD> },
    Input { fields: Vec<InputD>, oneof: bool },
}

#[derive(Clone, Debug)]
struct TypeD {
    name: String,
    desc: Option<String>,
    dirs: Vec<Inv>,
    kind: KindD,
}

#[derive(Clone, Debug)]
struct DirD {
    name: String,
    desc: Option<String>,
    locs: Vec<Loc>,
    args: Vec<InputD>,
    repeatable: bool,
}

#[derive(Clone, Debug, Default)]
struct SchemaD {
    types: Vec<TypeD>,
    directives: Vec<DirD>,
}

static CURRENT: RwLock<Option<Arc<SchemaD>>> = RwLock::new(None);
type Probe = Box<dyn FnOnce(&Registry) + Send>;
static PROBE: Mutex<Option<Probe>> = Mutex::new(None);

fn set_probe(f: impl FnOnce(&Registry) + Send + 'static) {
    *PROBE.lock().unwrap() = Some(Box::new(f));
}
fn run_probe(ctx: &Context<'_>) {
    if let Some(f) = PROBE.lock().unwrap().take() {
        f(&ctx.schema_env.registry);
    }
}

fn depr_of(d: &Option<Option<String>>) -> Deprecation {
    match d {
        None => Deprecation::NoDeprecated,
        Some(r) => Deprecation::Deprecated { reason: r.clone() },
    }
}
fn invs(d: &[Inv]) -> Vec<MetaDirectiveInvocation> {
    d.iter().map(|(n, a)| MetaDirectiveInvocation { name: n.clone(), args: a.iter().cloned().collect::<IndexMap<_, _>>() }).collect()
}
fn input_of(i: &InputD) -> MetaInputValue {
    let mut m = MetaInputValue::new(i.name.clone(), i.ty.clone());
    m.description = i.desc.clone();
    // what the derive macros do: the default is stored as the text Display prints
    m.default_value = i.default.as_ref().map(|v| v.to_string());
    m.deprecation = depr_of(&i.depr);
    m.directive_invocations = invs(&i.dirs);
    m
}
fn fields_of(fs: &[FieldD]) -> IndexMap<String, MetaField> {
    let mut m = IndexMap::new();
    for f in fs {
        let mut mf = MetaField::new(f.name.clone(), f.ty.clone());
        mf.description = f.desc.clone();
        mf.deprecation = depr_of(&f.depr);
        mf.directive_invocations = invs(&f.dirs);
        for a in &f.args {
            mf.args.insert(a.name.clone(), input_of(a));
        }
        m.insert(f.name.clone(), mf);
    }
    m
}

fn inject(registry: &mut Registry, d: &SchemaD) {
    <i32 as OutputType>::create_type_info(registry);
    <String as OutputType>::create_type_info(registry);
    <bool as OutputType>::create_type_info(registry);
    <f64 as OutputType>::create_type_info(registry);
    <async_graphql::ID as OutputType>::create_type_info(registry);
    for t in &d.types {
        let name = t.name.clone();
        let description = t.desc.clone();
        let directive_invocations = invs(&t.dirs);
        let mt = match &t.kind {
            KindD::Scalar { url } => MetaType::Scalar {
                name: name.clone(),
                description,
                is_valid: None,
                visible: None,
                inaccessible: false,
                tags: vec![],
                specified_by_url: url.clone(),
                directive_invocations,
                requires_scopes: vec![],
            },
            KindD::Object { fields, .. } => MetaType::Object {
                name: name.clone(),
                description,
                fields: fields_of(fields),
                cache_control: Default::default(),
                extends: false,
                shareable: false,
                resolvable: true,
                inaccessible: false,
                interface_object: false,
                tags: vec![],
                keys: None,
                visible: None,
                is_subscription: false,
                rust_typename: Some("GenObj"),
                directive_invocations,
                requires_scopes: vec![],
            },
            KindD::Interface { fields, possible, .. } => MetaType::Interface {
                name: name.clone(),
                description,
                fields: fields_of(fields),
                possible_types: possible.iter().cloned().collect::<IndexSet<_>>(),
                extends: false,
                inaccessible: false,
                tags: vec![],
                keys: None,
                visible: None,
                rust_typename: Some("GenObj"),
                directive_invocations,
                requires_scopes: vec![],
            },
            KindD::Union { possible } => MetaType::Union {
                name: name.clone(),
                description,
                possible_types: possible.iter().cloned().collect::<IndexSet<_>>(),
                visible: None,
                inaccessible: false,
                tags: vec![],
                rust_typename: Some("GenObj"),
                directive_invocations,
            },
            KindD::Enum { values } => MetaType::Enum {
                name: name.clone(),
                description,
                enum_values: values
                    .iter()
                    .map(|v| {
                        let mut m = MetaEnumValue::new(v.name.clone());
                        m.description = v.desc.clone();
                        m.deprecation = depr_of(&v.depr);
                        m.directive_invocations = invs(&v.dirs);
                        (v.name.clone(), m)
                    })
                    .collect(),
                visible: None,
                inaccessible: false,
                tags: vec![],
                rust_typename: Some("GenObj"),
                directive_invocations,
                requires_scopes: vec![],
            },
            KindD::Input { fields, oneof } => MetaType::InputObject {
                name: name.clone(),
                description,
                input_fields: fields.iter().map(|f| (f.name.clone(), input_of(f))).collect(),
                visible: None,
                inaccessible: false,
                tags: vec![],
                rust_typename: Some("GenObj"),
                oneof: *oneof,
                directive_invocations,
            },
        };
        registry.types.insert(name.clone(), mt);
        match &t.kind {
            KindD::Object { implements, .. } | KindD::Interface { implements, .. } => {
                for i in implements {
                    registry.add_implements(&name, i);
                }
            }
            _ => {}
        }
    }
    for dd in &d.directives {
        registry.add_directive(MetaDirective {
            name: dd.name.clone(),
            description: dd.desc.clone(),
            locations: dd.locs.clone(),
            args: dd.args.iter().map(|a| (a.name.clone(), input_of(a))).collect(),
            is_repeatable: dd.repeatable,
            visible: None,
            composable: None,
        });
    }
}

struct GenQuery;
impl OutputType for GenQuery {
    fn type_name() -> Cow<'static, str> {
        Cow::Borrowed("Query")
    }
    fn create_type_info(registry: &mut Registry) -> String {
        let d = CURRENT.read().unwrap().clone().expect("no current description");
        inject(registry, &d);
        "Query".into()
    }
    async fn resolve(&self, ctx: &ContextSelectionSet<'_>, _field: &Positioned<Field>) -> ServerResult<Value> {
        async_graphql::resolver_utils::resolve_container(ctx, self).await
    }
}
impl ContainerType for GenQuery {
    async fn resolve_field(&self, ctx: &Context<'_>) -> ServerResult<Option<Value>> {
        run_probe(ctx);
        Ok(Some(Value::Boolean(true)))
    }
}
impl ObjectType for GenQuery {}

// ------------------------------------------------------------ Gallina dump --
fn g_ostr(s: Option<&str>) -> String {
    g_opt(s, g_str)
}

fn g_cval(v: &Value) -> String {
    match v {
        Value::Null => "CNull".into(),
        Value::Number(n) => {
            if let Some(i) = n.as_i64() {
                format!("(CInt {})", g_z(i as i128))
            } else if let Some(u) = n.as_u64() {
                format!("(CInt {})", g_z(u as i128))
            } else {
                format!("(CFloat {})", g_str(&n.to_string()))
            }
        }
        Value::String(s) => format!("(CStr {})", g_str(s)),
        Value::Boolean(b) => format!("(CBool {})", g_bool(*b)),
        Value::Binary(_) => "CNull".into(),
        Value::Enum(n) => format!("(CEnum {})", g_str(n)),
        Value::List(l) => format!("(CList {})", g_list(l.iter(), g_cval)),
        Value::Object(m) => format!("(CObj {})", g_list(m.iter(), |(k, x)| format!("({}, {})", g_str(k), g_cval(x)))),
    }
}

fn g_depr(d: &Deprecation) -> String {
    match d {
        Deprecation::NoDeprecated => "NoDepr".into(),
        Deprecation::Deprecated { reason } => format!("(Depr {})", g_ostr(reason.as_deref())),
    }
}

fn g_invs(d: &[MetaDirectiveInvocation]) -> String {
    g_list(d.iter(), |i| {
        format!("(DInv {} {})", g_str(&i.name), g_list(i.args.iter(), |(k, v)| format!("({}, {})", g_str(k), g_cval(v))))
    })
}

/// The registry stores a default as text.  The value it was printed from comes
/// from the side table (generated / hand-written); a text without an entry is
/// read with the crate's value parser (only the built-in directives' defaults).
fn default_of(defaults: &HashMap<String, Value>, path: &str, text: &Option<String>, missing: &mut Vec<String>) -> String {
    match text {
        None => "None".into(),
        Some(t) => match defaults.get(path) {
            Some(v) => format!("(Some {})", g_cval(v)),
            None => {
                if !path.starts_with("@deprecated.") && !path.starts_with("__") {
                    missing.push(format!("{path} = {t}"));
                }
                match async_graphql::parser::parse_query(format!("{{ f(a: {t}) }}")) {
                    Ok(doc) => {
                        let mut out = None;
                        for (_, op) in doc.operations.iter() {
                            if let Some(pt::Selection::Field(f)) = op.node.selection_set.node.items.first().map(|s| &s.node) {
                                out = f.node.arguments.first().and_then(|(_, v)| v.node.clone().into_const());
                            }
                        }
                        match out {
                            Some(v) => format!("(Some {})", g_cval(&v)),
                            None => format!("(Some (CEnum {}))", g_str(t)),
                        }
                    }
                    Err(_) => format!("(Some (CEnum {}))", g_str(t)),
                }
            }
        },
    }
}

fn g_input(defaults: &HashMap<String, Value>, path: &str, i: &MetaInputValue, missing: &mut Vec<String>) -> String {
    format!(
        "(MInputV {} {} {} {} {} {})",
        g_str(&i.name),
        g_ostr(i.description.as_deref()),
        g_str(&i.ty),
        default_of(defaults, &format!("{path}.{}", i.name), &i.default_value, missing),
        g_depr(&i.deprecation),
        g_invs(&i.directive_invocations)
    )
}

fn g_fields(defaults: &HashMap<String, Value>, tname: &str, fs: &IndexMap<String, MetaField>, missing: &mut Vec<String>) -> String {
    g_list(fs.values(), |f| {
        format!(
            "(MField {} {} {} {} {} {})",
            g_str(&f.name),
            g_ostr(f.description.as_deref()),
            g_list(f.args.values(), |a| g_input(defaults, &format!("{tname}.{}", f.name), a, missing)),
            g_str(&f.ty),
            g_depr(&f.deprecation),
            g_invs(&f.directive_invocations)
        )
    })
}

fn dump_registry(r: &Registry, defaults: &HashMap<String, Value>, with_system: bool, missing: &mut Vec<String>) -> String {
    let types = g_list(r.types.values().filter(|t| with_system || !t.name().starts_with("__")), |t| match t {
        MetaType::Scalar { name, description, specified_by_url, directive_invocations, .. } => format!(
            "(MScalar {} {} {} {})",
            g_str(name),
            g_ostr(description.as_deref()),
            g_ostr(specified_by_url.as_deref()),
            g_invs(directive_invocations)
        ),
        MetaType::Object { name, description, fields, directive_invocations, .. } => format!(
            "(MObject {} {} {} {})",
            g_str(name),
            g_ostr(description.as_deref()),
            g_fields(defaults, name, fields, missing),
            g_invs(directive_invocations)
        ),
        MetaType::Interface { name, description, fields, directive_invocations, .. } => format!(
            "(MInterface {} {} {} {})",
            g_str(name),
            g_ostr(description.as_deref()),
            g_fields(defaults, name, fields, missing),
            g_invs(directive_invocations)
        ),
        MetaType::Union { name, description, possible_types, directive_invocations, .. } => format!(
            "(MUnion {} {} {} {})",
            g_str(name),
            g_ostr(description.as_deref()),
            g_list(possible_types.iter(), |p| g_str(p)),
            g_invs(directive_invocations)
        ),
        MetaType::Enum { name, description, enum_values, directive_invocations, .. } => format!(
            "(MEnum {} {} {} {})",
            g_str(name),
            g_ostr(description.as_deref()),
            g_list(enum_values.values(), |v| format!(
                "(MEnumV {} {} {} {})",
                g_str(&v.name),
                g_ostr(v.description.as_deref()),
                g_depr(&v.deprecation),
                g_invs(&v.directive_invocations)
            )),
            g_invs(directive_invocations)
        ),
        MetaType::InputObject { name, description, input_fields, oneof, directive_invocations, .. } => format!(
            "(MInputObj {} {} {} {} {})",
            g_str(name),
            g_ostr(description.as_deref()),
            g_list(input_fields.values(), |f| g_input(defaults, name, f, missing)),
            g_bool(*oneof),
            g_invs(directive_invocations)
        ),
    });
    let dirs = g_list(r.directives.values(), |d| {
        format!(
            "(MDirective {} {} {} {} {})",
            g_str(&d.name),
            g_ostr(d.description.as_deref()),
            g_list(d.locations.iter(), |l| g_str(&format!("{l:?}"))),
            g_list(d.args.values(), |a| g_input(defaults, &format!("@{}", d.name), a, missing)),
            g_bool(d.is_repeatable)
        )
    });
    // HashMap iteration order is irrelevant: the exporter looks a name up
    let mut imp: Vec<(&String, &IndexSet<String>)> = r.implements.iter().collect();
    imp.sort_by(|a, b| a.0.cmp(b.0));
    let imps = g_list(imp.iter(), |(k, v)| format!("({}, {})", g_str(k), g_list(v.iter(), |x| g_str(x))));
    format!(
        "{{| r_types := {}; r_dirs := {}; r_impl := {}; r_query := {}; r_mutation := {}; r_subscription := {} |}}",
        types,
        dirs,
        imps,
        g_str(&r.query_type),
        g_ostr(r.mutation_type.as_deref()),
        g_ostr(r.subscription_type.as_deref())
    )
}

// --------------------------------------------------- crate parser -> Gallina --
fn g_gty(t: &pt::Type) -> String {
    let base = match &t.base {
        pt::BaseType::Named(n) => format!("(GNamed {})", g_str(n)),
        pt::BaseType::List(inner) => format!("(GList {})", g_gty(inner)),
    };
    if t.nullable { base } else { format!("(GNonNull {base})") }
}

fn g_cdirs(ds: &[Positioned<pt::ConstDirective>]) -> String {
    g_list(ds.iter(), |d| {
        format!(
            "(DInv {} {})",
            g_str(&d.node.name.node),
            g_list(d.node.arguments.iter(), |(k, v)| format!("({}, {})", g_str(&k.node), g_cval(&v.node)))
        )
    })
}

fn g_desc(d: &Option<Positioned<String>>) -> String {
    g_ostr(d.as_ref().map(|x| x.node.as_str()))
}

fn g_rinput(i: &pt::InputValueDefinition) -> String {
    format!(
        "(RInput {} {} {} {} {})",
        g_desc(&i.description),
        g_str(&i.name.node),
        g_gty(&i.ty.node),
        g_opt(i.default_value.as_ref(), |v| g_cval(&v.node)),
        g_cdirs(&i.directives)
    )
}

fn g_rfields(fs: &[Positioned<pt::FieldDefinition>]) -> String {
    g_list(fs.iter(), |f| {
        let f = &f.node;
        format!(
            "(RField {} {} {} {} {})",
            g_desc(&f.description),
            g_str(&f.name.node),
            g_list(f.arguments.iter(), |a| g_rinput(&a.node)),
            g_gty(&f.ty.node),
            g_cdirs(&f.directives)
        )
    })
}

fn g_names(ns: &[Positioned<Name>]) -> String {
    g_list(ns.iter(), |n| g_str(&n.node))
}

fn loc_name(l: &pt::DirectiveLocation) -> &'static str {
    use pt::DirectiveLocation::*;
    match l {
        Query => "QUERY",
        Mutation => "MUTATION",
        Subscription => "SUBSCRIPTION",
        Field => "FIELD",
        FragmentDefinition => "FRAGMENT_DEFINITION",
        FragmentSpread => "FRAGMENT_SPREAD",
        InlineFragment => "INLINE_FRAGMENT",
        Schema => "SCHEMA",
        Scalar => "SCALAR",
        Object => "OBJECT",
        FieldDefinition => "FIELD_DEFINITION",
        ArgumentDefinition => "ARGUMENT_DEFINITION",
        Interface => "INTERFACE",
        Union => "UNION",
        Enum => "ENUM",
        EnumValue => "ENUM_VALUE",
        InputObject => "INPUT_OBJECT",
        InputFieldDefinition => "INPUT_FIELD_DEFINITION",
        VariableDefinition => "VARIABLE_DEFINITION",
    }
}

/// None: the document uses a construct outside the modelled subset (`extend`)
fn g_service(doc: &pt::ServiceDocument) -> Option<String> {
    let mut defs = vec![];
    for d in &doc.definitions {
        match d {
            pt::TypeSystemDefinition::Schema(s) => {
                let s = &s.node;
                if s.extend {
                    return None;
                }
                let mut ops = vec![];
                if let Some(q) = &s.query {
                    ops.push(format!("({}, {})", g_str("query"), g_str(&q.node)));
                }
                if let Some(q) = &s.mutation {
                    ops.push(format!("({}, {})", g_str("mutation"), g_str(&q.node)));
                }
                if let Some(q) = &s.subscription {
                    ops.push(format!("({}, {})", g_str("subscription"), g_str(&q.node)));
                }
                defs.push(format!("(RSchema {} [{}])", g_cdirs(&s.directives), ops.join("; ")));
            }
            pt::TypeSystemDefinition::Type(t) => {
                let t = &t.node;
                if t.extend {
                    return None;
                }
                let kind = match &t.kind {
                    pt::TypeKind::Scalar => "RScalar".to_string(),
                    pt::TypeKind::Object(o) => format!("(RObject {} {})", g_names(&o.implements), g_rfields(&o.fields)),
                    pt::TypeKind::Interface(o) => format!("(RInterface {} {})", g_names(&o.implements), g_rfields(&o.fields)),
                    pt::TypeKind::Union(u) => format!("(RUnion {})", g_names(&u.members)),
                    pt::TypeKind::Enum(e) => format!(
                        "(REnum {})",
                        g_list(e.values.iter(), |v| format!(
                            "(REnumV {} {} {})",
                            g_desc(&v.node.description),
                            g_str(&v.node.value.node),
                            g_cdirs(&v.node.directives)
                        ))
                    ),
                    pt::TypeKind::InputObject(i) => format!("(RInputObj {})", g_list(i.fields.iter(), |f| g_rinput(&f.node))),
                };
                defs.push(format!("(RType {} {} {} {})", g_desc(&t.description), g_str(&t.name.node), g_cdirs(&t.directives), kind));
            }
            pt::TypeSystemDefinition::Directive(d) => {
                let d = &d.node;
                defs.push(format!(
                    "(RDirective {} {} {} {} {})",
                    g_desc(&d.description),
                    g_str(&d.name.node),
                    g_list(d.arguments.iter(), |a| g_rinput(&a.node)),
                    g_bool(d.is_repeatable),
                    g_list(d.locations.iter(), |l| g_str(loc_name(&l.node)))
                ));
            }
        }
    }
    Some(format!("[{}]", defs.join("; ")))
}

// --------------------------------------------------------------- generator --
const NASTY: &[&str] = &[
    "\"", "\\", "\"\"\"", "\\\"\"\"", "\n", "\r", "\r\n", "\t", " ", "  ", "\u{8}", "\u{c}", "\u{1b}", "\u{1}", "\u{7f}", "\u{85}",
    "\u{e9}", "\u{4e2d}", "\u{1f600}", "#", ",", "{", "}", "@", "\\n", "\\u0041", "'", "`", "$",
];
const WORDS: &[&str] = &["use", "y", "the", "field", "old", "value", "of", "Returns", "a", "list", "id", "see", "x2", "No", "longer", "supported."];

fn pk<'a>(r: &mut Rng, v: &[&'a str]) -> &'a str {
    v[r.below(v.len())]
}

/// level 0: plain words; 1: punctuation and unicode; 2: anything
fn rand_text(r: &mut Rng, level: usize) -> String {
    let n = 1 + r.below(5);
    let mut s = String::new();
    for i in 0..n {
        let k = r.below(10);
        if level == 0 || k < 5 {
            if i > 0 {
                s.push(' ');
            }
            s.push_str(pk(r, WORDS));
        } else if level == 1 {
            s.push_str(pk(r, &["\u{e9}", "\u{4e2d}", "\u{1f600}", "#", ",", "{", "}", "@", "'", "`", "$", " ", "-", ".", "(", ")", ":", "!"]));
        } else {
            s.push_str(pk(r, NASTY));
        }
    }
    s
}

/// Descriptions: mostly text a block string carries verbatim.
fn rand_desc(r: &mut Rng, nasty: bool) -> Option<String> {
    if r.chance(4, 10) {
        return None;
    }
    let k = r.below(20);
    Some(if nasty && k < 4 {
        rand_text(r, 2)
    } else if k < 9 {
        // several lines, some indented, some empty
        let n = 2 + r.below(3);
        let mut s = rand_text(r, 1).trim().to_string();
        if s.is_empty() {
            s.push('d');
        }
        for _ in 1..n {
            s.push('\n');
            if r.chance(1, 4) {
                continue;
            }
            if r.chance(1, 3) {
                s.push_str(pk(r, &[" ", "  ", "\t"]));
            }
            s.push_str(&rand_text(r, 1));
        }
        let t = s.trim_end().to_string();
        if t.is_empty() { "d".into() } else { t }
    } else if k < 11 {
        String::new()
    } else {
        let lv = if r.chance(1, 2) { 0 } else { 1 };
        let t = rand_text(r, lv).trim().to_string();
        if t.is_empty() { "d".into() } else { t }
    })
}

/// boundary strings every string-valued slot must carry (all harmless today)
const BOUNDARY: &[&str] = &["", " ", "  ", "x", "\u{e9}", "\u{4e2d}\u{1f600}", "No longer supported", "null", "#", "a,b"];

fn rand_depr(r: &mut Rng, nasty: bool) -> Option<Option<String>> {
    match r.below(12) {
        0 => Some(None),
        10 => Some(Some(pk(r, BOUNDARY).to_string())),
        11 => Some(Some(pk(r, &["", " ", "a\\b", "l1\nl2", "t\tt", "\u{e9}\n"]).to_string())),
        1 | 2 => Some(Some(if nasty && r.chance(1, 3) {
            rand_text(r, 2)
        } else {
            // the characters escape_string knows about are fair game everywhere
            let mut t = rand_text(r, 1);
            if r.chance(1, 3) {
                t.push_str(pk(r, &["\\", "\n", "\t", "\r", "\u{8}", "\u{c}", "\\n"]));
                t.push_str(pk(r, WORDS));
            }
            t
        })),
        _ => None,
    }
}

fn rand_value(r: &mut Rng, depth: usize, nasty: bool) -> Value {
    let k = r.below(if depth == 0 { 7 } else { 9 });
    match k {
        0 => Value::Null,
        1 => Value::Boolean(r.chance(1, 2)),
        2 => Value::from(*r.pick(&[0i64, 1, -1, 42, -7, i64::MAX, i64::MIN, 1000000])),
        3 => Value::from(*r.pick(&[0.5f64, -1.25, 1e21, 3.0, 1.5e-7, 123456.789])),
        4 | 5 => Value::String(if nasty && r.chance(1, 3) {
            rand_text(r, 2)
        } else if r.chance(1, 4) {
            pk(r, BOUNDARY).to_string()
        } else {
            let mut t = rand_text(r, 1);
            if r.chance(1, 3) {
                t.push_str(pk(r, &["\"", "\\", "\n", "\t", "\r", "\\\""]));
            }
            t
        }),
        6 => Value::Enum(Name::new(pk(r, &["RED", "GREEN", "A", "b_1", "_x", "Nul", "tru", "fals"]))),
        7 => Value::List((0..r.below(3)).map(|_| rand_value(r, depth - 1, nasty)).collect()),
        _ => {
            let mut m = IndexMap::new();
            for i in 0..r.below(3) {
                m.insert(Name::new(format!("k{i}")), rand_value(r, depth - 1, nasty));
            }
            Value::Object(m)
        }
    }
}

fn rand_invs(r: &mut Rng, dirs: &[DirD], loc: Loc, nasty: bool) -> Vec<Inv> {
    let mut v = vec![];
    for d in dirs {
        if d.locs.contains(&loc) && r.chance(1, 6) {
            let mut args = vec![];
            for a in &d.args {
                if r.chance(3, 4) {
                    args.push((a.name.clone(), rand_value(r, 1, nasty)));
                }
            }
            v.push((d.name.clone(), args));
        }
    }
    v
}

fn wrap(r: &mut Rng, n: &str) -> String {
    match r.below(8) {
        0 => format!("{n}!"),
        1 => format!("[{n}]"),
        2 => format!("[{n}!]!"),
        3 => format!("[[{n}]!]"),
        _ => n.to_string(),
    }
}

fn rand_input(r: &mut Rng, name: String, in_types: &[String], dirs: &[DirD], loc: Loc, nasty: bool) -> InputD {
    let base = r.pick(in_types).clone();
    InputD {
        name,
        desc: rand_desc(r, nasty),
        ty: wrap(r, &base),
        default: if r.chance(1, 3) { Some(rand_value(r, 2, nasty)) } else { None },
        depr: if r.chance(1, 2) { rand_depr(r, nasty) } else { None },
        dirs: rand_invs(r, dirs, loc, nasty),
    }
}

fn rand_names(r: &mut Rng, prefix: &str, n: usize) -> Vec<String> {
    // names in an order that sorting changes
    let mut v: Vec<String> = (0..n).map(|i| format!("{}{}", prefix, ["b", "a", "Z", "c", "_d", "a2", "B"][i % 7])).collect();
    if r.chance(1, 2) {
        r.shuffle(&mut v);
    }
    v
}

fn rand_fields(r: &mut Rng, n: usize, out_types: &[String], in_types: &[String], dirs: &[DirD], nasty: bool) -> Vec<FieldD> {
    rand_names(r, "f", n)
        .into_iter()
        .map(|name| {
            let na = if r.chance(1, 2) { 0 } else { 1 + r.below(3) };
            let args = rand_names(r, "a", na).into_iter().map(|a| rand_input(r, a, in_types, dirs, Loc::ARGUMENT_DEFINITION, nasty)).collect();
            let base = r.pick(out_types).clone();
            FieldD { name, desc: rand_desc(r, nasty), args, ty: wrap(r, &base), depr: rand_depr(r, nasty), dirs: rand_invs(r, dirs, Loc::FIELD_DEFINITION, nasty) }
        })
        .collect()
}

fn gen_schema(r: &mut Rng, nasty: bool) -> SchemaD {
    // custom directive definitions
    let mut directives = vec![];
    for (i, name) in ["tag", "meta"].iter().enumerate() {
        if r.chance(2, 3) {
            let all = [Loc::OBJECT, Loc::INTERFACE, Loc::FIELD_DEFINITION, Loc::ARGUMENT_DEFINITION, Loc::ENUM, Loc::ENUM_VALUE, Loc::INPUT_OBJECT, Loc::INPUT_FIELD_DEFINITION, Loc::UNION, Loc::SCALAR];
            let mut locs: Vec<Loc> = all.iter().filter(|_| r.chance(1, 2)).cloned().collect();
            if locs.is_empty() || i == 0 {
                locs = vec![Loc::OBJECT, Loc::INTERFACE, Loc::FIELD_DEFINITION];
            }
            let na = r.below(3);
            let args = (0..na)
                .map(|k| InputD {
                    name: format!("p{k}"),
                    desc: None,
                    ty: { let b = pk(r, &["String", "Int", "Boolean"]); wrap(r, b) },
                    default: if r.chance(1, 3) { Some(rand_value(r, 1, nasty)) } else { None },
                    depr: None,
                    dirs: vec![],
                })
                .collect();
            directives.push(DirD { name: name.to_string(), desc: rand_desc(r, nasty), locs, args, repeatable: r.chance(1, 3) });
        }
    }
    let nobj = 1 + r.below(3);
    let nint = r.below(3);
    let objs: Vec<String> = (0..nobj).map(|i| format!("O{i}")).collect();
    let ints: Vec<String> = (0..nint).map(|i| format!("I{i}")).collect();
    let enums: Vec<String> = (0..r.below(3)).map(|i| format!("E{i}")).collect();
    let inputs: Vec<String> = (0..r.below(3)).map(|i| format!("In{i}")).collect();
    let scalars: Vec<String> = (0..r.below(3)).map(|i| format!("S{i}")).collect();
    let unions: Vec<String> = (0..r.below(2)).map(|i| format!("U{i}")).collect();
    let mut out_types: Vec<String> = vec!["Int".into(), "String".into(), "Boolean".into(), "Float".into(), "ID".into()];
    let mut in_types = out_types.clone();
    for v in [&objs, &ints, &unions] {
        out_types.extend(v.iter().cloned());
    }
    for v in [&enums, &scalars] {
        out_types.extend(v.iter().cloned());
        in_types.extend(v.iter().cloned());
    }
    in_types.extend(inputs.iter().cloned());
    let mut types = vec![];
    // interfaces; a later interface may implement an earlier one
    let mut iface_fields: Vec<Vec<FieldD>> = vec![];
    for (k, i) in ints.iter().enumerate() {
        let nf = 1 + r.below(2);
        let mut fields = rand_fields(r, nf, &out_types, &in_types, &directives, nasty);
        for f in fields.iter_mut() {
            f.name = format!("i{k}{}", f.name);
        }
        let mut implements = vec![];
        for j in 0..k {
            if r.chance(1, 2) {
                implements.push(ints[j].clone());
                fields.extend(iface_fields[j].iter().cloned());
            }
        }
        iface_fields.push(fields.clone());
        types.push(TypeD {
            name: i.clone(),
            desc: rand_desc(r, nasty),
            dirs: rand_invs(r, &directives, Loc::INTERFACE, nasty),
            kind: KindD::Interface { fields, implements, possible: vec![] },
        });
    }
    for o in objs.iter() {
        let nf = 1 + r.below(4);
        let mut fields = rand_fields(r, nf, &out_types, &in_types, &directives, nasty);
        let mut implements = vec![];
        for (k, i) in ints.iter().enumerate() {
            if r.chance(1, 2) {
                implements.push(i.clone());
                for f in &iface_fields[k] {
                    if !fields.iter().any(|g| g.name == f.name) {
                        fields.push(f.clone());
                    }
                }
                if let KindD::Interface { possible, .. } = &mut types[k].kind {
                    possible.push(o.clone());
                }
            }
        }
        if r.chance(1, 2) {
            implements.reverse();
        }
        types.push(TypeD { name: o.clone(), desc: rand_desc(r, nasty), dirs: rand_invs(r, &directives, Loc::OBJECT, nasty), kind: KindD::Object { fields, implements } });
    }
    for u in &unions {
        let mut possible: Vec<String> = objs.iter().filter(|_| r.chance(1, 2)).cloned().collect();
        if possible.is_empty() {
            possible.push(objs[0].clone());
        }
        types.push(TypeD { name: u.clone(), desc: rand_desc(r, nasty), dirs: rand_invs(r, &directives, Loc::UNION, nasty), kind: KindD::Union { possible } });
    }
    for e in &enums {
        let nv = 1 + r.below(4);
        let values = rand_names(r, "V", nv)
            .into_iter()
            .map(|name| EnumVD { name, desc: rand_desc(r, nasty), depr: rand_depr(r, nasty), dirs: rand_invs(r, &directives, Loc::ENUM_VALUE, nasty) })
            .collect();
        types.push(TypeD { name: e.clone(), desc: rand_desc(r, nasty), dirs: rand_invs(r, &directives, Loc::ENUM, nasty), kind: KindD::Enum { values } });
    }
    for s in &scalars {
        let url = if r.chance(1, 8) {
            Some(pk(r, &["", " ", "x"]).to_string())
        } else if r.chance(1, 2) {
            Some(format!("https://example.com/{}", rand_text(r, 0).replace(' ', "/")))
        } else {
            None
        };
        types.push(TypeD { name: s.clone(), desc: rand_desc(r, nasty), dirs: rand_invs(r, &directives, Loc::SCALAR, nasty), kind: KindD::Scalar { url } });
    }
    for i in &inputs {
        let nn = 1 + r.below(4);
        let fields = rand_names(r, "n", nn).into_iter().map(|n| rand_input(r, n, &in_types, &directives, Loc::INPUT_FIELD_DEFINITION, nasty)).collect();
        types.push(TypeD { name: i.clone(), desc: rand_desc(r, nasty), dirs: rand_invs(r, &directives, Loc::INPUT_OBJECT, nasty), kind: KindD::Input { fields, oneof: r.chance(1, 4) } });
    }
    // the root: one field per generated type keeps every type reachable
    let mut qfields = vec![FieldD { name: "probe".into(), ty: "Boolean!".into(), ..Default::default() }];
    for v in [&objs, &ints, &unions] {
        for t in v.iter() {
            qfields.push(FieldD { name: format!("get{t}"), ty: t.clone(), desc: rand_desc(r, nasty), ..Default::default() });
        }
    }
    let keep: Vec<InputD> = enums
        .iter()
        .chain(scalars.iter())
        .chain(inputs.iter())
        .map(|t| InputD { name: format!("x{t}"), ty: t.clone(), ..Default::default() })
        .collect();
    if !keep.is_empty() {
        qfields.push(FieldD { name: "keep".into(), ty: "Int".into(), args: keep, ..Default::default() });
    }
    let nq = r.below(3);
    qfields.extend(rand_fields(r, nq, &out_types, &in_types, &directives, nasty));
    types.push(TypeD { name: "Query".into(), desc: rand_desc(r, nasty), dirs: vec![], kind: KindD::Object { fields: qfields, implements: vec![] } });
    SchemaD { types, directives }
}

/// The witnesses of the known findings and the boundary cases, each alone in an
/// otherwise harmless schema.
fn corpus() -> Vec<(&'static str, SchemaD)> {
    let q = |extra: Vec<FieldD>| {
        let mut fields = vec![FieldD { name: "probe".into(), ty: "Boolean!".into(), ..Default::default() }];
        fields.extend(extra);
        TypeD { name: "Query".into(), desc: None, dirs: vec![], kind: KindD::Object { fields, implements: vec![] } }
    };
    let f = |n: &str, t: &str| FieldD { name: n.into(), ty: t.into(), ..Default::default() };
    let mut v = vec![];
    // 0 plain
    v.push(("plain", SchemaD { types: vec![q(vec![f("a", "Int")])], directives: vec![] }));
    // 1 deprecation reason with a double quote
    v.push((
        "reason-quote",
        SchemaD { types: vec![q(vec![FieldD { depr: Some(Some("use \"y\"".into())), ..f("old", "Int") }])], directives: vec![] },
    ));
    // 1b deprecation reason with an unlisted control character
    v.push((
        "reason-control",
        SchemaD { types: vec![q(vec![FieldD { depr: Some(Some("a\u{1}b".into())), ..f("old", "Int") }])], directives: vec![] },
    ));
    // reason made of everything escape_string lists: fine
    v.push((
        "reason-escapes",
        SchemaD { types: vec![q(vec![FieldD { depr: Some(Some("1\\\u{8}d\u{c}3\n4\r5\t6 \\n \u{e9}".into())), ..f("old", "Int") }])], directives: vec![] },
    ));
    // 2 string default with a control character
    v.push((
        "default-control",
        SchemaD {
            types: vec![q(vec![FieldD { args: vec![InputD { name: "s".into(), ty: "String".into(), default: Some(Value::String("a\u{1b}b".into())), ..Default::default() }], ..f("g", "Int") }])],
            directives: vec![],
        },
    ));
    // defaults of every shape, harmless
    {
        let mut m = IndexMap::new();
        m.insert(Name::new("k"), Value::List(vec![Value::from(1), Value::Null, Value::Enum(Name::new("RED"))]));
        m.insert(Name::new("s"), Value::String("q\"b\\s\nn\tt\u{e9}\u{1f600}".into()));
        v.push((
            "default-shapes",
            SchemaD {
                types: vec![q(vec![FieldD {
                    args: vec![
                        InputD { name: "o".into(), ty: "In".into(), default: Some(Value::Object(m)), ..Default::default() },
                        InputD { name: "f".into(), ty: "Float".into(), default: Some(Value::from(-1.5e-7)), depr: Some(None), ..Default::default() },
                        InputD { name: "i".into(), ty: "[Int!]".into(), default: Some(Value::List(vec![Value::from(i64::MIN), Value::from(7)])), ..Default::default() },
                    ],
                    ..f("g", "Int")
                }])],
                directives: vec![],
            },
        ));
    }
    // 3 interface that implements an interface and carries a directive
    let tag = DirD { name: "tag".into(), desc: None, locs: vec![Loc::OBJECT, Loc::INTERFACE], args: vec![InputD { name: "n".into(), ty: "String".into(), ..Default::default() }], repeatable: false };
    let inv: Inv = ("tag".into(), vec![("n".into(), Value::String("x".into()))]);
    let iface = |name: &str, implements: Vec<String>, dirs: Vec<Inv>, possible: Vec<String>| TypeD {
        name: name.into(),
        desc: None,
        dirs,
        kind: KindD::Interface { fields: vec![f("id", "Int")], implements, possible },
    };
    let obj = |dirs: Vec<Inv>| TypeD { name: "Obj".into(), desc: None, dirs, kind: KindD::Object { fields: vec![f("id", "Int")], implements: vec!["Parent".into(), "Grand".into()] } };
    v.push((
        "interface-directive-implements",
        SchemaD {
            types: vec![iface("Grand", vec![], vec![], vec!["Obj".into()]), iface("Parent", vec!["Grand".into()], vec![inv.clone()], vec!["Obj".into()]), obj(vec![]), q(vec![f("p", "Parent")])],
            directives: vec![tag.clone()],
        },
    ));
    // the same on an object type, and an interface with only one of the two: fine
    v.push((
        "object-directive-implements",
        SchemaD {
            types: vec![iface("Grand", vec![], vec![inv.clone()], vec!["Obj".into()]), iface("Parent", vec!["Grand".into()], vec![], vec!["Obj".into()]), obj(vec![inv.clone()]), q(vec![f("p", "Parent")])],
            directives: vec![tag.clone()],
        },
    ));
    // 4 descriptions a block string cannot carry
    for (name, d) in [
        ("desc-triple-quote", "say \"\"\"hi\"\"\""),
        ("desc-escaped-triple-quote", "a \\\"\"\" b"),
        ("desc-cr", "a\rb"),
        ("desc-crlf", "a\r\nb"),
        ("desc-leading-blank-line", "\nabc"),
        ("desc-trailing-blank-line", "abc\n"),
        ("desc-indented", "  abc\n   def"),
        ("desc-only-space", " "),
        ("desc-trailing-quote", "he said \"x\""),
        ("desc-trailing-backslash", "ends with \\"),
        ("desc-inner-indent", "a\n  b\n\n c"),
        ("desc-empty", ""),
    ] {
        v.push((
            name,
            SchemaD {
                types: vec![q(vec![FieldD { desc: Some(d.into()), args: vec![InputD { name: "s".into(), ty: "String".into(), desc: Some(d.into()), ..Default::default() }], ..f("g", "Int") }])],
                directives: vec![],
            },
        ));
    }
    // 6 a custom directive definition whose argument has a description
    v.push((
        "directive-arg-description",
        SchemaD {
            types: vec![q(vec![f("a", "Int")])],
            directives: vec![DirD {
                name: "tag".into(),
                desc: Some("marks things".into()),
                locs: vec![Loc::OBJECT, Loc::FIELD_DEFINITION],
                args: vec![InputD { name: "n".into(), ty: "String".into(), desc: Some("the tag".into()), default: Some(Value::String("d".into())), ..Default::default() }],
                repeatable: true,
            }],
        },
    ));
    // 7 specifiedBy url with a backslash
    v.push((
        "specified-by-backslash",
        SchemaD {
            types: vec![
                TypeD { name: "S0".into(), desc: None, dirs: vec![], kind: KindD::Scalar { url: Some("https://e.com/a\\b".into()) } },
                TypeD { name: "S1".into(), desc: Some("ok".into()), dirs: vec![], kind: KindD::Scalar { url: Some("https://e.com/\"q\"".into()) } },
                q(vec![f("a", "S0"), f("b", "S1")]),
            ],
            directives: vec![],
        },
    ));
    // boundary strings in every string-valued slot: empty / blank
    for (name, e, de) in [("empty-strings", "", ""), ("blank-strings", " ", "x")] {
        let es = || Some(e.to_string());
        let dv = || Some(Value::String(e.into()));
        let inv_e: Inv = ("tag".into(), vec![("n".into(), Value::String(e.into()))]);
        let tag_e = DirD {
            name: "tag".into(),
            desc: Some(de.to_string()),
            locs: vec![Loc::OBJECT, Loc::FIELD_DEFINITION, Loc::ARGUMENT_DEFINITION, Loc::ENUM_VALUE, Loc::INPUT_FIELD_DEFINITION],
            args: vec![InputD { name: "n".into(), ty: "String".into(), default: dv(), ..Default::default() }],
            repeatable: false,
        };
        v.push((
            name,
            SchemaD {
                types: vec![
                    TypeD {
                        name: "E".into(),
                        desc: Some(de.to_string()),
                        dirs: vec![],
                        kind: KindD::Enum {
                            values: vec![
                                EnumVD { name: "A".into(), desc: Some(de.to_string()), depr: Some(es()), dirs: vec![inv_e.clone()] },
                                EnumVD { name: "B".into(), desc: None, depr: Some(None), dirs: vec![] },
                                EnumVD { name: "C".into(), desc: None, depr: Some(Some("No longer supported".into())), dirs: vec![] },
                            ],
                        },
                    },
                    TypeD {
                        name: "In".into(),
                        desc: Some(de.to_string()),
                        dirs: vec![],
                        kind: KindD::Input {
                            fields: vec![
                                InputD { name: "s".into(), ty: "String".into(), desc: Some(de.to_string()), default: dv(), depr: Some(es()), dirs: vec![inv_e.clone()] },
                                InputD { name: "t".into(), ty: "String".into(), depr: Some(None), ..Default::default() },
                            ],
                            oneof: false,
                        },
                    },
                    TypeD { name: "S".into(), desc: Some(de.to_string()), dirs: vec![], kind: KindD::Scalar { url: es() } },
                    TypeD {
                        name: "Query".into(),
                        desc: Some(de.to_string()),
                        dirs: vec![inv_e.clone()],
                        kind: KindD::Object {
                            fields: vec![
                                FieldD { name: "probe".into(), ty: "Boolean!".into(), ..Default::default() },
                                FieldD { depr: Some(es()), desc: Some(de.to_string()), dirs: vec![inv_e.clone()], ..f("oldEmpty", "Int") },
                                FieldD { depr: Some(None), ..f("oldBare", "Int") },
                                FieldD { depr: Some(Some("No longer supported".into())), ..f("oldDefault", "Int") },
                                FieldD {
                                    args: vec![
                                        InputD { name: "a".into(), ty: "String".into(), desc: Some(de.to_string()), default: dv(), depr: Some(es()), dirs: vec![inv_e.clone()] },
                                        InputD { name: "b".into(), ty: "In".into(), depr: Some(None), ..Default::default() },
                                        InputD { name: "c".into(), ty: "E".into(), default: dv(), ..Default::default() },
                                    ],
                                    ..f("pick", "S")
                                },
                            ],
                            implements: vec![],
                        },
                    },
                ],
                directives: vec![tag_e],
            },
        ));
    }
    // the registry of a federation-enabled schema, exported WITHOUT .federation():
    // _Any, _Entity, _Service and the two root fields are ordinary named things
    v.push((
        "federation-types-plain-export",
        SchemaD {
            types: vec![
                TypeD { name: "_Any".into(), desc: Some("The `_Any` scalar is used to pass representations of entities from external services into the root `_entities` field for execution.".into()), dirs: vec![], kind: KindD::Scalar { url: None } },
                TypeD { name: "_Entity".into(), desc: None, dirs: vec![], kind: KindD::Union { possible: vec!["User".into()] } },
                TypeD { name: "_Service".into(), desc: None, dirs: vec![], kind: KindD::Object { fields: vec![f("sdl", "String")], implements: vec![] } },
                TypeD { name: "User".into(), desc: None, dirs: vec![], kind: KindD::Object { fields: vec![f("id", "ID!")], implements: vec![] } },
                q(vec![
                    f("me", "User"),
                    f("_service", "_Service!"),
                    FieldD { args: vec![InputD { name: "representations".into(), ty: "[_Any!]!".into(), ..Default::default() }], ..f("_entities", "[_Entity]!") },
                ]),
            ],
            directives: vec![],
        },
    ));
    // multi-line argument lists: description on the first / second / both
    v.push((
        "args-multiline",
        SchemaD {
            types: vec![q(vec![
                FieldD { args: vec![InputD { name: "a".into(), ty: "Int".into(), desc: Some("first".into()), ..Default::default() }, InputD { name: "b".into(), ty: "Int".into(), ..Default::default() }], ..f("g", "Int") },
                FieldD { args: vec![InputD { name: "a".into(), ty: "Int".into(), ..Default::default() }, InputD { name: "b".into(), ty: "Int".into(), desc: Some("second\nline".into()), default: Some(Value::from(3)), ..Default::default() }], ..f("h", "Int") },
            ])],
            directives: vec![],
        },
    ));
    v
}

// ------------------------------------------------- derive-built fixed schema
#[allow(non_snake_case)]
mod fixed {
    use async_graphql::*;

    #[TypeDirective(location = "Object", location = "Interface", location = "FieldDefinition")]
    pub fn tagged(label: String, weight: Option<i32>) {}

    /// A dog.
    ///
    /// Barks "loudly" \ often.
    #[derive(SimpleObject)]
    #[graphql(directive = tagged::apply("a \"dog\"".to_string(), Some(3)))]
    pub struct Dog {
        pub id: i32,
        /// how it sounds
        #[graphql(deprecation = "use \"sound\" instead")]
        pub bark: String,
        #[graphql(deprecation = "plain reason\twith tab \\ and\nnewline")]
        pub sound: String,
        #[graphql(deprecation)]
        pub legacy: Option<i32>,
    }

    #[derive(SimpleObject)]
    pub struct Cat {
        pub id: i32,
        #[graphql(directive = tagged::apply("field".to_string(), None))]
        pub meow: Vec<Option<String>>,
    }

    /// Anything with an id
    #[derive(Interface)]
    #[graphql(field(name = "id", ty = "&i32", desc = "the identifier"))]
    pub enum Animal {
        Dog(Dog),
        Cat(Cat),
    }

    #[derive(Interface)]
    #[graphql(field(name = "id", ty = "&i32"))]
    pub enum Node {
        Animal(Animal),
    }

    #[derive(Union)]
    pub enum DogOrCat {
        Dog(Dog),
        Cat(Cat),
    }

    /// Colours
    #[derive(Enum, Copy, Clone, Eq, PartialEq)]
    pub enum Color {
        /// like blood
        Red,
        #[graphql(deprecation = "too \"green\"")]
        Green,
        #[graphql(name = "BLUE_ISH", deprecation)]
        Blue,
    }

    /// Search options
    #[derive(InputObject)]
    pub struct Filter {
        /// free text
        #[graphql(default = "a\u{1b}b")]
        pub text: String,
        #[graphql(default = 5)]
        pub limit: i32,
        #[graphql(default_with = "vec![1, 2]")]
        pub ids: Vec<i32>,
        #[graphql(default_with = "Color::Green")]
        pub color: Color,
        pub nested: Option<Vec<Option<bool>>>,
    }

    #[derive(OneofObject)]
    pub enum Pick {
        ById(i32),
        ByName(String),
    }

    pub struct Query;

    /// The root.
    #[Object]
    impl Query {
        async fn probe(&self, ctx: &Context<'_>) -> bool {
            super::run_probe(ctx);
            true
        }
        /// Finds animals
        ///   indented "detail"
        async fn find(
            &self,
            #[graphql(desc = "how many", default = 10)] limit: i32,
            #[graphql(default = "say \"hi\"\n")] greeting: String,
            filter: Option<Filter>,
            #[graphql(default_with = "Color::Red")] color: Color,
            pick: Option<Pick>,
        ) -> Vec<Animal> {
            let _ = (limit, greeting, filter, color, pick);
            vec![]
        }
        async fn node(&self) -> Option<Node> {
            None
        }
        async fn either(&self) -> Option<DogOrCat> {
            None
        }
        #[graphql(deprecation = "gone")]
        async fn ratio(&self, #[graphql(default = 0.5)] scale: f64) -> f64 {
            scale
        }
    }

    pub fn defaults() -> std::collections::HashMap<String, Value> {
        let mut m = std::collections::HashMap::new();
        m.insert("Filter.text".to_string(), Value::String("a\u{1b}b".into()));
        m.insert("Filter.limit".to_string(), Value::from(5));
        m.insert("Filter.ids".to_string(), Value::List(vec![Value::from(1), Value::from(2)]));
        m.insert("Filter.color".to_string(), Value::Enum(Name::new("GREEN")));
        m.insert("Query.find.limit".to_string(), Value::from(10));
        m.insert("Query.find.greeting".to_string(), Value::String("say \"hi\"\n".into()));
        m.insert("Query.find.color".to_string(), Value::Enum(Name::new("RED")));
        m.insert("Query.ratio.scale".to_string(), Value::from(0.5f64));
        m
    }
}

// a second derive-built schema whose text stays inside what the exporter carries
#[allow(non_snake_case)]
mod clean {
    use async_graphql::*;

    #[TypeDirective(location = "Object", location = "FieldDefinition", location = "ArgumentDefinition")]
    pub fn note(text: String, rank: Option<i32>) {}

    /// A "quoted" word, a back\\slash and a # sign.
    ///
    /// Second paragraph: é 中 😀
    #[derive(SimpleObject)]
    #[graphql(directive = note::apply("say \"hi\" \\ there\n".to_string(), Some(-3)))]
    pub struct Book {
        pub id: ID,
        /// the title
        #[graphql(deprecation = "use\ttitle2 \\ or\nnothing")]
        pub title: String,
        #[graphql(deprecation, directive = note::apply("f".to_string(), None))]
        pub pages: Option<i32>,
        pub tags: Vec<Vec<Option<String>>>,
    }

    #[derive(SimpleObject)]
    pub struct Film {
        pub id: ID,
        pub minutes: f64,
    }

    /// Things with an id
    #[derive(Interface)]
    #[graphql(field(name = "id", ty = "&ID", desc = "unique"))]
    pub enum Item {
        Book(Book),
        Film(Film),
    }

    #[derive(Interface)]
    #[graphql(field(name = "id", ty = "&ID"))]
    pub enum Thing {
        Item(Item),
    }

    #[derive(Union)]
    pub enum Media {
        Book(Book),
        Film(Film),
    }

    #[derive(Enum, Copy, Clone, Eq, PartialEq)]
    pub enum Size {
        /// tiny
        Small,
        #[graphql(deprecation = "too big\r\n")]
        Large,
        #[graphql(deprecation)]
        Huge,
        #[graphql(deprecation = "")]
        Tiny,
    }

    /// Paging
    #[derive(InputObject)]
    pub struct Page {
        /// where to start
        #[graphql(default = 0)]
        pub offset: i32,
        #[graphql(default = "a \"b\" \\ c\n\té😀")]
        pub label: String,
        #[graphql(default_with = "vec![Size::Small, Size::Large]")]
        pub sizes: Vec<Size>,
        #[graphql(default = 2.5)]
        pub ratio: f64,
        #[graphql(default = true)]
        pub flag: bool,
        pub more: Option<Vec<i32>>,
        #[graphql(deprecation = "", default = "")]
        pub legacy: String,
        #[graphql(deprecation = " ")]
        pub older: Option<i32>,
    }

    #[derive(OneofObject)]
    pub enum Key {
        ById(ID),
        ByTitle(String),
    }

    pub struct Query;

    /// Root "query" type
    #[Object]
    impl Query {
        async fn probe(&self, ctx: &Context<'_>) -> bool {
            super::run_probe(ctx);
            true
        }
        /// Looks things up.
        async fn items(
            &self,
            #[graphql(desc = "paging \"window\"")] page: Option<Page>,
            #[graphql(default = 7, directive = note::apply("arg".to_string(), Some(1)))] first: i32,
            key: Option<Key>,
            #[graphql(default_with = "Size::Small")] size: Size,
        ) -> Vec<Item> {
            let _ = (page, first, key, size);
            vec![]
        }
        async fn thing(&self) -> Option<Thing> {
            None
        }
        #[graphql(deprecation = "")]
        async fn old_empty(&self, #[graphql(deprecation = "", default = 1)] a: i32, #[graphql(deprecation)] b: Option<i32>) -> i32 {
            let _ = b;
            a
        }
        #[graphql(deprecation = "use items")]
        async fn media(&self, #[graphql(default)] n: i32, #[graphql(default = "x")] s: String) -> Vec<Media> {
            let _ = (n, s);
            vec![]
        }
    }

    pub fn defaults() -> std::collections::HashMap<String, Value> {
        let mut m = std::collections::HashMap::new();
        m.insert("Page.offset".to_string(), Value::from(0));
        m.insert("Page.label".to_string(), Value::String("a \"b\" \\ c\n\té😀".into()));
        m.insert("Page.sizes".to_string(), Value::List(vec![Value::Enum(Name::new("SMALL")), Value::Enum(Name::new("LARGE"))]));
        m.insert("Page.ratio".to_string(), Value::from(2.5f64));
        m.insert("Page.flag".to_string(), Value::Boolean(true));
        m.insert("Query.items.first".to_string(), Value::from(7));
        m.insert("Query.items.size".to_string(), Value::Enum(Name::new("SMALL")));
        m.insert("Page.legacy".to_string(), Value::String("".into()));
        m.insert("Query.oldEmpty.a".to_string(), Value::from(1));
        m.insert("Query.media.n".to_string(), Value::from(0));
        m.insert("Query.media.s".to_string(), Value::String("x".into()));
        m
    }
}

// a derive-built schema whose registry has federation enabled (an entity
// resolver): the registry then holds _Any, _Entity, _Service and the root
// fields _service / _entities; a plain (non-federation) export prints them all
#[allow(non_snake_case)]
mod fed {
    use async_graphql::*;

    /// A user
    #[derive(SimpleObject)]
    pub struct User {
        pub id: ID,
        pub name: String,
    }

    pub struct Query;

    #[Object]
    impl Query {
        async fn probe(&self, ctx: &Context<'_>) -> bool {
            super::run_probe(ctx);
            true
        }
        async fn me(&self) -> User {
            User { id: "1".into(), name: "n".into() }
        }
        #[graphql(entity)]
        async fn find_user_by_id(&self, id: ID) -> User {
            User { id, name: "n".into() }
        }
    }
}

// ------------------------------------------------------------------- main --
#[derive(Clone, Copy, Debug)]
struct Opts {
    sorted_fields: bool,
    sorted_args: bool,
    sorted_enum: bool,
    single_line: bool,
    specified_by: bool,
    space: bool,
    width: u8,
}

impl Opts {
    fn real(&self) -> SDLExportOptions {
        let mut o = SDLExportOptions::new();
        if self.sorted_fields {
            o = o.sorted_fields();
        }
        if self.sorted_args {
            o = o.sorted_arguments();
        }
        if self.sorted_enum {
            o = o.sorted_enum_items();
        }
        if self.single_line {
            o = o.prefer_single_line_descriptions();
        }
        if self.specified_by {
            o = o.include_specified_by();
        }
        if self.space {
            o = o.use_space_ident();
        }
        o.indent_width(self.width)
    }
    fn gallina(&self) -> String {
        format!(
            "{{| o_sorted_fields := {}; o_sorted_args := {}; o_sorted_enum := {}; o_single_line := {}; o_specified_by := {}; o_space := {}; o_width := {} |}}",
            g_bool(self.sorted_fields),
            g_bool(self.sorted_args),
            g_bool(self.sorted_enum),
            g_bool(self.single_line),
            g_bool(self.specified_by),
            g_bool(self.space),
            self.width as usize
        )
    }
    fn text(&self) -> String {
        let mut v = vec![];
        for (b, n) in [(self.sorted_fields, "sf"), (self.sorted_args, "sa"), (self.sorted_enum, "se"), (self.single_line, "1l"), (self.specified_by, "sb")] {
            if b {
                v.push(n.to_string());
            }
        }
        if self.space {
            v.push(format!("sp{}", self.width));
        }
        if v.is_empty() { "default".into() } else { v.join("+") }
    }
}

fn opt_sets(r: &mut Rng, k: usize) -> Vec<Opts> {
    let none = Opts { sorted_fields: false, sorted_args: false, sorted_enum: false, single_line: false, specified_by: false, space: false, width: 2 };
    let all = Opts { sorted_fields: true, sorted_args: true, sorted_enum: true, single_line: true, specified_by: true, space: true, width: 4 };
    let mut v = vec![none, all, Opts { single_line: true, ..none }, Opts { sorted_fields: true, sorted_args: true, sorted_enum: true, specified_by: true, ..none }];
    while v.len() < k {
        v.push(Opts {
            sorted_fields: r.chance(1, 2),
            sorted_args: r.chance(1, 2),
            sorted_enum: r.chance(1, 2),
            single_line: r.chance(1, 2),
            specified_by: r.chance(1, 2),
            space: r.chance(1, 2),
            width: *r.pick(&[0u8, 1, 2, 3, 8]),
        });
    }
    v.truncate(k);
    v
}

fn jstr(s: &str) -> String {
    serde_json::to_string(s).unwrap()
}

fn collect_defaults(d: &SchemaD) -> HashMap<String, Value> {
    let mut m = HashMap::new();
    let mut put = |path: String, i: &InputD| {
        if let Some(v) = &i.default {
            m.insert(format!("{path}.{}", i.name), v.clone());
        }
    };
    for t in &d.types {
        match &t.kind {
            KindD::Object { fields, .. } | KindD::Interface { fields, .. } => {
                for f in fields {
                    for a in &f.args {
                        put(format!("{}.{}", t.name, f.name), a);
                    }
                }
            }
            KindD::Input { fields, .. } => {
                for f in fields {
                    put(t.name.clone(), f);
                }
            }
            _ => {}
        }
    }
    for dd in &d.directives {
        for a in &dd.args {
            put(format!("@{}", dd.name), a);
        }
    }
    m
}

fn main() {
    let a = parse_args();
    let mut rng = Rng::new(a.seed);
    let mut out = String::new();
    let corpus = corpus();
    let mut case_no = 0usize;
    let mut schema_no = 0usize;
    let mut problems: Vec<String> = vec![];
    while case_no < a.n {
        // corpus first, then every 9th schema the derive-built one, otherwise generated
        let (label, desc, fixed_schema): (String, Option<SchemaD>, bool) = if schema_no < corpus.len() {
            (corpus[schema_no].0.to_string(), Some(corpus[schema_no].1.clone()), false)
        } else if schema_no == corpus.len() {
            ("derive".into(), None, true)
        } else if schema_no == corpus.len() + 1 {
            ("derive-clean".into(), None, true)
        } else if schema_no == corpus.len() + 2 {
            ("derive-fed-entity".into(), None, true)
        } else if schema_no == corpus.len() + 3 {
            ("derive-clean-fed-enabled".into(), None, true)
        } else {
            let nasty = schema_no % 3 == 0;
            (if nasty { "gen-nasty".into() } else { "gen".into() }, Some(gen_schema(&mut rng, nasty)), false)
        };
        let with_system = schema_no == 0 || fixed_schema;
        let clean_schema = fixed_schema && (label == "derive-clean" || label == "derive-clean-fed-enabled");
        let fed_schema = fixed_schema && label == "derive-fed-entity";
        let defaults = if let Some(d) = &desc { collect_defaults(d) } else if clean_schema { clean::defaults() } else if fed_schema { HashMap::new() } else { fixed::defaults() };
        let dumped: Arc<Mutex<Option<(String, Vec<String>)>>> = Arc::new(Mutex::new(None));
        {
            let dumped = dumped.clone();
            let defaults = defaults.clone();
            set_probe(move |r| {
                let mut missing = vec![];
                let g = dump_registry(r, &defaults, with_system, &mut missing);
                *dumped.lock().unwrap() = Some((g, missing));
            });
        }
        enum Sch {
            Gen(Schema<GenQuery, EmptyMutation, EmptySubscription>),
            Fixed(Schema<fixed::Query, EmptyMutation, EmptySubscription>),
            Clean(Schema<clean::Query, EmptyMutation, EmptySubscription>),
            Fed(Schema<fed::Query, EmptyMutation, EmptySubscription>),
        }
        let sch = if fed_schema {
            Sch::Fed(Schema::build(fed::Query, EmptyMutation, EmptySubscription).finish())
        } else if clean_schema && label == "derive-clean-fed-enabled" {
            Sch::Clean(Schema::build(clean::Query, EmptyMutation, EmptySubscription).enable_federation().finish())
        } else if clean_schema {
            Sch::Clean(Schema::build(clean::Query, EmptyMutation, EmptySubscription).finish())
        } else if fixed_schema {
            Sch::Fixed(Schema::build(fixed::Query, EmptyMutation, EmptySubscription).finish())
        } else {
            *CURRENT.write().unwrap() = Some(Arc::new(desc.clone().unwrap()));
            Sch::Gen(Schema::build(GenQuery, EmptyMutation, EmptySubscription).finish())
        };
        match &sch {
            Sch::Gen(s) => {
                block_on(s.execute(Request::new("{ probe }")));
            }
            Sch::Fixed(s) => {
                block_on(s.execute(Request::new("{ probe }")));
            }
            Sch::Clean(s) => {
                block_on(s.execute(Request::new("{ probe }")));
            }
            Sch::Fed(s) => {
                block_on(s.execute(Request::new("{ probe }")));
            }
        }
        let Some((greg, missing)) = dumped.lock().unwrap().take() else {
            problems.push(format!("probe did not run for schema {schema_no} ({label})"));
            schema_no += 1;
            if schema_no > a.n + corpus.len() + 10 {
                break;
            }
            continue;
        };
        for m in missing {
            problems.push(format!("schema {schema_no} ({label}): default without a known value: {m}"));
        }
        let sname = format!("s{schema_no}");
        writeln!(out, "DEF\t{sname}\t{greg}").unwrap();
        let k = if schema_no < corpus.len() { 4 } else if fixed_schema { 8 } else { 3 + rng.below(3) };
        for o in opt_sets(&mut rng, k) {
            if case_no >= a.n {
                break;
            }
            let sdl = match &sch {
                Sch::Gen(s) => s.sdl_with_options(o.real()),
                Sch::Fixed(s) => s.sdl_with_options(o.real()),
                Sch::Clean(s) => s.sdl_with_options(o.real()),
                Sch::Fed(s) => s.sdl_with_options(o.real()),
            };
            let parsed = match async_graphql::parser::parse_schema(&sdl) {
                Ok(doc) => g_service(&doc),
                Err(_) => None,
            };
            let parsed_ok = parsed.is_some();
            let meta = format!(
                "{{\"uses\":[{}],\"text\":{},\"impl\":{},\"nontrivial\":{}}}",
                jstr(&sname),
                jstr(&format!("[{sname} {label} {}] {}", o.text(), if sdl.len() > 4000 { format!("{}…", &sdl.chars().take(4000).collect::<String>()) } else { sdl.clone() })),
                jstr(if parsed_ok { "crate parser: Ok" } else { "crate parser: Err" }),
                sdl.len() > 200
            );
            writeln!(out, "CASE\t({sname}, {}, {}, {})\t{meta}", o.gallina(), g_str(&sdl), g_opt(parsed, |p| p)).unwrap();
            case_no += 1;
        }
        schema_no += 1;
    }
    std::fs::write(format!("{}/c17.cases", a.out), out).unwrap();
    if !problems.is_empty() {
        for p in &problems {
            eprintln!("{p}");
        }
        std::process::exit(3);
    }
}

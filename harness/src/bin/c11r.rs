//! C11 (second stream): steps of the validation rules' OWN fragment-graph
//! walks, read from `async_graphql::verif_hooks::RULE_STEPS` after a real
//! `Schema::execute`, on adversarial document families and random fragment
//! graphs.  `c11r <seed> <n> <out>` writes `<out>/c11r.cases`:
//!
//!   DEF   rs0 / rs1   the two schemas (query only / query + mutation)
//!   RULE  (schema, document, limits, fast, [s0; s1; s2; s3; s4])
//!
//! Every request runs under a watchdog: if it does not come back within
//! WATCHDOG_SECS the counters reached so far are printed with the case (they are
//! then far beyond every polynomial bound, so the case is a violation with
//! the document as replay) and the harness stops instead of hanging.
use std::fmt::Write as _;
use std::sync::atomic::Ordering;
use std::sync::{Arc, Mutex};
use std::time::{Duration, Instant};

use agv_harness::*;
use async_graphql::*;

const WATCHDOG_SECS: u64 = 25;

struct Q;
#[Object]
impl Q {
    async fn f0(&self) -> i32 {
        1
    }
    async fn f1(&self) -> i32 {
        2
    }
    async fn o(&self) -> Q {
        Q
    }
}
struct M;
#[Object]
impl M {
    async fn f0(&self) -> i32 {
        1
    }
}

// ------------------------------------------------------------- families ---
/// UNUSED fan-out chain: F_i spreads F_{i+1} `width` times, no operation spreads any of them.
fn unused_chain(k: usize, width: usize) -> String {
    let mut s = String::from("{ f0 }\n");
    for i in 0..k {
        let mut b = String::new();
        for _ in 0..width {
            if i + 1 < k {
                write!(b, " ...F{}", i + 1).unwrap();
            } else {
                b.push_str(" f0");
            }
        }
        writeln!(s, "fragment F{i} on Q {{{b} }}").unwrap();
    }
    s
}
/// the same chain, spread once by the operation (bounded: the Inline-mode pass is exponential)
fn used_chain(k: usize, width: usize) -> String {
    unused_chain(k, width).replacen("{ f0 }", "{ ...F0 }", 1)
}
/// unused chain whose spreads sit inside nested fields / inline fragments
fn unused_chain_nested(k: usize) -> String {
    let mut s = String::from("{ f0 }\n");
    for i in 0..k {
        if i + 1 < k {
            writeln!(s, "fragment F{i} on Q {{ o {{ ...F{n} o {{ ...F{n} }} }} ... on Q {{ ...F{n} }} ...F{n} }}", n = i + 1).unwrap();
        } else {
            writeln!(s, "fragment F{i} on Q {{ f0 f1 }}").unwrap();
        }
    }
    s
}
/// `nops` operations sharing fragments: directly (every operation spreads F0.. itself)
/// or transitively (every operation spreads F0, which reaches the others)
fn shared_ops(nops: usize, nfr: usize, transitive: bool) -> String {
    let mut s = String::new();
    for i in 0..nops {
        if transitive {
            writeln!(s, "query Op{i} {{ f0 ...F0 }}").unwrap();
        } else {
            let sp: String = (0..nfr).map(|j| format!(" ...F{j}")).collect();
            writeln!(s, "query Op{i} {{ f0{sp} }}").unwrap();
        }
    }
    for j in 0..nfr {
        if transitive && j + 1 < nfr {
            writeln!(s, "fragment F{j} on Q {{ f{} ...F{} }}", j % 2, j + 1).unwrap();
        } else {
            writeln!(s, "fragment F{j} on Q {{ f{} }}", j % 2).unwrap();
        }
    }
    s
}
/// fragment cycle of length k (unused, or used by the operation: then the recursion limit rejects first)
fn cycle(k: usize, used: bool) -> String {
    let mut s = String::from(if used { "{ ...F0 }\n" } else { "{ f0 }\n" });
    for i in 0..k {
        writeln!(s, "fragment F{i} on Q {{ f0 ...F{} }}", (i + 1) % k).unwrap();
    }
    s
}
fn self_spread(times: usize) -> String {
    let sp = " ...F0".repeat(times);
    format!("{{ f0 }}\nfragment F0 on Q {{ f1{sp} o {{{sp} }} }}\n")
}
fn undefined_spreads(n: usize) -> String {
    let mut s = String::from("{ f0");
    for i in 0..n {
        write!(s, " ...U{}", i % 3).unwrap();
    }
    s.push_str(" ...F0 }\nfragment F0 on Q { f1 ...U0 ...U9 o { ...U1 } }\n");
    s
}
fn deep_inline(n: usize, in_fragment: bool) -> String {
    let mut b = String::new();
    for i in 0..n {
        b.push_str(if i % 3 == 2 { " ... {" } else { " ... on Q {" });
    }
    b.push_str(" f0 ...G");
    for _ in 0..n {
        b.push_str(" }");
    }
    if in_fragment {
        format!("{{ f0 }}\nfragment F0 on Q {{{b} }}\nfragment G on Q {{ f1 }}\n")
    } else {
        format!("{{{b} }}\nfragment G on Q {{ f1 }}\n")
    }
}
fn wide_repeated(n: usize) -> String {
    let mut s = String::from("{");
    for i in 0..n {
        if i % 2 == 0 {
            s.push_str(" ...F0");
        } else {
            write!(s, " a{i}: f0").unwrap();
        }
    }
    s.push_str(" }\nfragment F0 on Q { f0 f1 ...F1 ...F1 }\nfragment F1 on Q { f1 }\n");
    s
}
fn nested_duplicates(depth: usize) -> String {
    let mut b = String::new();
    for _ in 0..depth {
        b.push_str(" ...F0 ...F0 o {");
    }
    b.push_str(" f0");
    for _ in 0..depth {
        b.push_str(" } ...F1");
    }
    format!("{{{b} }}\nfragment F0 on Q {{ f0 ...F1 }}\nfragment F1 on Q {{ f1 }}\nfragment F2 on Q {{{b} }}\n")
}
fn rootless_ops() -> String {
    "query A { f0 ...F0 }\nmutation B { f0 ...F0 ...F1 }\nsubscription C { f0 ...F1 ...F1 }\nfragment F0 on Q { f0 ...F1 }\nfragment F1 on Q { f1 }\n".to_string()
}
fn typename_subselection() -> String {
    "{ __typename { ...F0 ...F0 } f0 ...F1 }\nfragment F0 on Q { f0 }\nfragment F1 on Q { __typename { ...F0 o { ...F2 } } f1 }\nfragment F2 on Q { f0 __typename { ...F3 } }\nfragment F3 on Q { f1 }\n".to_string()
}

// --------------------------------------------------- random fragment graphs ---
struct Gen {
    r: Rng,
    nfr: usize,
    /// index of the fragment whose body is being written (None: an operation)
    cur: Option<usize>,
    /// fragment j only spreads fragments with a larger index (no cycle)
    acyclic: bool,
}
impl Gen {
    fn spread_name(&mut self) -> String {
        // mostly defined fragments, sometimes an undefined one
        if self.r.chance(1, 8) {
            return format!("U{}", self.r.below(2));
        }
        let lo = match self.cur {
            Some(j) if self.acyclic => j + 1,
            _ => 0,
        };
        if lo >= self.nfr { format!("U{}", self.r.below(2)) } else { format!("F{}", lo + self.r.below(self.nfr - lo)) }
    }
    fn body(&mut self, depth: usize) -> String {
        let mut out = String::from("{");
        let n = 1 + self.r.below(4);
        for _ in 0..n {
            match self.r.below(12) {
                0..=2 => write!(out, " f{}", self.r.below(2)).unwrap(),
                3 => write!(out, " a{}: f{}", self.r.below(3), self.r.below(2)).unwrap(),
                4 | 5 if depth > 0 => {
                    let sub = self.body(depth - 1);
                    write!(out, " o {sub}").unwrap();
                }
                6 if depth > 0 => {
                    let sub = self.body(depth - 1);
                    if self.r.chance(1, 3) { write!(out, " ... {sub}").unwrap() } else { write!(out, " ... on Q {sub}").unwrap() }
                }
                7 if depth > 0 && self.r.chance(1, 4) => {
                    let sub = self.body(depth - 1);
                    write!(out, " __typename {sub}").unwrap();
                }
                _ => {
                    let nm = self.spread_name();
                    let reps = if self.r.chance(1, 4) { 2 + self.r.below(2) } else { 1 };
                    for _ in 0..reps {
                        write!(out, " ...{nm}").unwrap();
                    }
                }
            }
        }
        out.push_str(" }");
        out
    }
    fn document(&mut self, with_mutation: bool) -> String {
        self.nfr = self.r.below(8);
        self.acyclic = !self.r.chance(1, 6);
        let nops = 1 + self.r.below(4);
        let mut s = String::new();
        for i in 0..nops {
            let kw = match self.r.below(8) {
                0 => "mutation",
                1 if !with_mutation => "subscription",
                _ => "query",
            };
            let d = self.r.below(4);
            self.cur = None;
            let body = self.body(d);
            if nops == 1 && kw == "query" && self.r.chance(1, 2) {
                writeln!(s, "{body}").unwrap();
            } else {
                writeln!(s, "{kw} Op{i} {body}").unwrap();
            }
        }
        for j in 0..self.nfr {
            let d = self.r.below(3);
            self.cur = Some(j);
            let body = self.body(d);
            writeln!(s, "fragment F{j} on Q {body}").unwrap();
        }
        s
    }
}

// ------------------------------------------------------------------ running ---
struct Pending {
    since: Instant,
    head: String,
    tail_text: String,
    uses: String,
}

struct Ctx {
    out: Arc<Mutex<String>>,
    pending: Arc<Mutex<Option<Pending>>>,
    path: String,
}

fn jstr(s: &str) -> String {
    serde_json::to_string(s).unwrap()
}

fn rule_line(head: &str, steps: &[u64; 5], uses: &str, text: &str, note: &str) -> String {
    let meta = format!(
        "{{\"uses\":[{}],\"text\":{},\"impl\":{},\"nontrivial\":{}}}",
        jstr(uses),
        jstr(text),
        jstr(&format!("{note}rule_steps={steps:?}")),
        steps.iter().any(|x| *x > 1)
    );
    format!("RULE\t({head}, {})\t{meta}\n", g_list(steps.iter(), |x| format!("{x}%N")))
}

fn watchdog(cx: &Ctx) {
    let out = cx.out.clone();
    let pending = cx.pending.clone();
    let path = cx.path.clone();
    std::thread::spawn(move || {
        loop {
            std::thread::sleep(Duration::from_millis(100));
            let g = pending.lock().unwrap();
            if let Some(p) = g.as_ref()
                && p.since.elapsed() > Duration::from_secs(WATCHDOG_SECS)
            {
                let mut steps = [0u64; 5];
                for (o, c) in steps.iter_mut().zip(async_graphql::verif_hooks::RULE_STEPS.iter()) {
                    *o = c.load(Ordering::SeqCst);
                }
                let line = rule_line(&p.head, &steps, &p.uses, &p.tail_text, &format!("TIMEOUT after {WATCHDOG_SECS}s, counters so far: "));
                // the main thread is stuck inside the request and does not hold `out`
                let mut o = out.lock().unwrap();
                o.push_str(&line);
                std::fs::write(&path, o.as_bytes()).unwrap();
                eprintln!("c11r: request did not finish within {WATCHDOG_SECS}s: {}", p.tail_text);
                std::process::exit(0);
            }
        }
    });
}

fn run_one(cx: &Ctx, it: &mut Interner, with_mutation: bool, rec: usize, fast: bool, tag: &str, text: &str) -> bool {
    let Ok(parsed) = async_graphql::parser::parse_query(text) else { return false };
    let sname = if with_mutation { "rs1" } else { "rs0" };
    let gdoc = g_document(it, &parsed);
    let lim = format!("{{| l_rec := {rec}%N; l_dirs := None; l_cx := None; l_depth := None |}}");
    let head = format!("{sname}, {gdoc}, {lim}, {}", g_bool(fast));
    let shown = if text.len() > 400 { format!("{}… ({} bytes)", &text[..400], text.len()) } else { text.trim().to_string() };
    let label = format!("[{sname}{} rec={rec}{tag}] {shown}", if fast { " fast" } else { "" });
    let mut req = Request::new(text);
    if text.contains("Op1") {
        req = req.operation_name("Op0");
    }
    *cx.pending.lock().unwrap() = Some(Pending { since: Instant::now(), head: head.clone(), tail_text: label.clone(), uses: sname.to_string() });
    let _ = async_graphql::verif_hooks::take_rule_steps();
    let resp = if with_mutation {
        let mut b = Schema::build(Q, M, EmptySubscription).limit_recursive_depth(rec);
        if fast {
            b = b.validation_mode(ValidationMode::Fast);
        }
        block_on(b.finish().execute(req))
    } else {
        let mut b = Schema::build(Q, EmptyMutation, EmptySubscription).limit_recursive_depth(rec);
        if fast {
            b = b.validation_mode(ValidationMode::Fast);
        }
        block_on(b.finish().execute(req))
    };
    let steps = async_graphql::verif_hooks::take_rule_steps();
    *cx.pending.lock().unwrap() = None;
    let first_err = resp.errors.first().map(|e| e.message.clone()).unwrap_or_default();
    let line = rule_line(&head, &steps, sname, &label, &format!("first error: {first_err:?} "));
    cx.out.lock().unwrap().push_str(&line);
    true
}

fn main() {
    let a = parse_args();
    let mut rng = Rng::new(a.seed ^ 0xc11);
    let mut it = Interner::new();
    let cx = Ctx { out: Arc::new(Mutex::new(String::new())), pending: Arc::new(Mutex::new(None)), path: format!("{}/c11r.cases", a.out) };
    // the model reads only the root types of the schema
    {
        let mut o = cx.out.lock().unwrap();
        writeln!(o, "DEF\trs0\t{{| s_types := []; s_query := {}; s_mutation := None; s_subscription := None |}}", it.n("Q")).unwrap();
        writeln!(o, "DEF\trs1\t{{| s_types := []; s_query := {}; s_mutation := Some {}; s_subscription := None |}}", it.n("Q"), it.n("M")).unwrap();
    }
    watchdog(&cx);

    let mut done = 0usize;
    let mut fixed: Vec<(String, usize, bool, &str)> = vec![];
    for k in [1usize, 2, 3, 5, 8, 11, 14] {
        fixed.push((unused_chain(k, 2), 32, false, " unused-chain"));
    }
    fixed.push((unused_chain(8, 3), 32, false, " unused-chain-w3"));
    fixed.push((unused_chain(12, 2), 32, true, " unused-chain"));
    for k in [2usize, 6, 12] {
        fixed.push((unused_chain_nested(k), 32, false, " unused-chain-nested"));
    }
    for k in [1usize, 4, 9] {
        fixed.push((used_chain(k, 2), 32, false, " used-chain"));
    }
    for (nops, nfr, tr) in [(1usize, 3usize, false), (6, 5, false), (6, 5, true), (25, 8, true), (25, 8, false), (40, 1, false)] {
        fixed.push((shared_ops(nops, nfr, tr), 32, false, " shared-ops"));
    }
    for (k, used) in [(1usize, false), (2, false), (5, false), (9, false), (3, true), (1, true)] {
        fixed.push((cycle(k, used), 32, false, " cycle"));
    }
    fixed.push((self_spread(1), 32, false, " self-spread"));
    fixed.push((self_spread(4), 32, false, " self-spread"));
    fixed.push((undefined_spreads(1), 32, false, " undefined"));
    fixed.push((undefined_spreads(12), 32, false, " undefined"));
    for (n, fr, rec) in [(5usize, false, 32usize), (30, false, 32), (31, true, 32), (40, false, 32), (60, false, 100), (60, true, 100)] {
        fixed.push((deep_inline(n, fr), rec, false, " deep-inline"));
    }
    fixed.push((wide_repeated(20), 32, false, " wide-repeated"));
    fixed.push((wide_repeated(150), 32, false, " wide-repeated"));
    fixed.push((nested_duplicates(3), 32, false, " nested-duplicates"));
    fixed.push((nested_duplicates(12), 32, false, " nested-duplicates"));
    fixed.push((rootless_ops(), 32, false, " rootless-ops"));
    fixed.push((typename_subselection(), 32, false, " typename-subselection"));
    for (i, (text, rec, fast, tag)) in fixed.iter().enumerate() {
        // the fixed corpus alternates between the two schemas; operations without a root on both
        let with_mutation = i % 2 == 1;
        if run_one(&cx, &mut it, with_mutation, *rec, *fast, tag, text) {
            done += 1;
        }
        if tag.contains("rootless") && run_one(&cx, &mut it, !with_mutation, *rec, *fast, tag, text) {
            done += 1;
        }
    }
    let mut attempts = 0usize;
    while done < a.n && attempts < 20 * a.n + 100 {
        attempts += 1;
        let with_mutation = rng.chance(1, 3);
        let mut g = Gen { r: rng.fork(), nfr: 0, cur: None, acyclic: true };
        let text = g.document(with_mutation);
        let fast = rng.chance(1, 10);
        if run_one(&cx, &mut it, with_mutation, 32, fast, "", &text) {
            done += 1;
        }
    }
    let mut o = cx.out.lock().unwrap();
    writeln!(o, "NAMES\t\t{}", serde_json::to_string(&it.names).unwrap()).unwrap();
    std::fs::write(&cx.path, o.as_bytes()).unwrap();
}

//! C27 correspondence: a derive-built `#[Subscription]` root whose fields
//! return streams fed through futures_channel::mpsc by the harness; the item
//! types are objects of the schema family (harness/src/family.rs), so the
//! nested resolvers read the shared World and can fail or block on a gate.
//! The REAL `Schema::execute_stream` is driven by manual polling with a noop
//! waker under an explicit schedule of
//!   push event to stream k / close stream k / open gate (k, child) / poll
//! (poll = drain until three consecutive Pending).  Printed per case: the
//! schedule, what every poll step delivered (data, error paths, end of
//! stream) and the resolver trace.  `c27 <seed> <n> <out>`.
use std::collections::{HashMap, HashSet};
use std::fmt::Write as _;
use std::sync::{Arc, Mutex};
use std::task::{Context as TaskCx, Poll};

use agv_harness::family::*;
use agv_harness::genschema::{run_probe, set_probe};
use agv_harness::*;
use async_graphql::parser::types::{ExecutableDocument, Selection, SelectionSet};
use async_graphql::registry::{MetaType, Registry};
use async_graphql::*;
use futures_channel::mpsc;
use futures_util::stream::{Stream, StreamExt};

// (field, type string) — must agree with family.rs (the registry dump is what the model reads)
const FIELDS: &[(&str, &str)] = &[
    ("id", "Int!"), ("name", "String"), ("score", "Float!"), ("ratio", "Float"), ("flag", "Boolean"),
    ("kind", "Kind!"), ("a", "A"), ("b", "B!"), ("bs", "[B!]!"), ("cs", "[C]"), ("aList", "[A]!"),
    ("csNn", "[C!]"), ("node", "Node"), ("nodes", "[Node!]!"), ("ab", "Pair"), ("abs", "[Pair]!"),
    ("grid", "[[Int!]!]!"), ("named", "Named"),
];
// subscription root fields: (name, item object type or "" for Int, nullable item)
const ROOTS: &[(&str, &str, bool)] = &[("fa", "A", false), ("fo", "A", true), ("fb", "B", false), ("fi", "", false), ("fc", "C", true)];

// ------------------------------------------------------- subscription root --
type Ev = Option<usize>;
#[derive(Default)]
struct SubData {
    chans: Mutex<HashMap<String, mpsc::UnboundedReceiver<Ev>>>,
    fail_create: HashSet<String>,
}

fn take_rx(ctx: &Context<'_>) -> Result<mpsc::UnboundedReceiver<Ev>> {
    run_probe(ctx);
    let key = ctx.item.node.response_key().node.to_string();
    let d = ctx.data_unchecked::<Arc<SubData>>();
    if d.fail_create.contains(&key) {
        return Err(Error::new("nostream"));
    }
    d.chans.lock().unwrap().remove(&key).ok_or_else(|| Error::new("nochannel"))
}

struct Sub;
#[Subscription]
impl Sub {
    async fn fa(&self, ctx: &Context<'_>) -> Result<impl Stream<Item = A>> {
        Ok(take_rx(ctx)?.map(|e| A { nid: e.unwrap_or(0) }))
    }
    async fn fo(&self, ctx: &Context<'_>) -> Result<impl Stream<Item = Option<A>>> {
        Ok(take_rx(ctx)?.map(|e| e.map(|nid| A { nid })))
    }
    async fn fb(&self, ctx: &Context<'_>) -> Result<impl Stream<Item = B>> {
        Ok(take_rx(ctx)?.map(|e| B { nid: e.unwrap_or(0) }))
    }
    async fn fi(&self, ctx: &Context<'_>) -> Result<impl Stream<Item = i32>> {
        Ok(take_rx(ctx)?.map(|e| e.unwrap_or(0) as i32))
    }
    async fn fc(&self, ctx: &Context<'_>) -> Result<impl Stream<Item = Option<C>>> {
        Ok(take_rx(ctx)?.map(|e| e.map(|nid| C { nid })))
    }
}

type SubSchema = Schema<Query, Mutation, Sub>;

// ----------------------------------------------------------- Gallina dumps --
fn g_ty(it: &mut Interner, t: &str) -> String {
    if let Some(inner) = t.strip_suffix('!') {
        format!("(TNonNull {})", g_ty(it, inner))
    } else if t.starts_with('[') && t.ends_with(']') {
        format!("(TList {})", g_ty(it, &t[1..t.len() - 1]))
    } else {
        format!("(TNamed {})", it.n(t))
    }
}

fn dump_registry(it: &mut Interner, r: &Registry) -> String {
    let fields = |it: &mut Interner, fs: &indexmap::IndexMap<String, async_graphql::registry::MetaField>| {
        g_list(fs.iter().filter(|(k, _)| !k.starts_with("__")), |(k, f)| format!("({}, {})", it.n(k), g_ty(it, &f.ty)))
    };
    let mut tnames = vec![];
    let types = g_list(r.types.iter().filter(|(k, _)| !k.starts_with("__")), |(k, t)| {
        tnames.push(k.clone());
        let body = match t {
            MetaType::Object { fields: fs, .. } => {
                let imp: Vec<String> = r.implements.get(k).map(|s| s.iter().cloned().collect()).unwrap_or_default();
                format!("(DObject {} {})", fields(it, fs), g_list(imp.iter(), |i| it.n(i)))
            }
            MetaType::Interface { fields: fs, possible_types, .. } => format!("(DInterface {} {})", fields(it, fs), g_list(possible_types.iter(), |p| it.n(p))),
            MetaType::Union { possible_types, .. } => format!("(DUnion {})", g_list(possible_types.iter(), |p| it.n(p))),
            MetaType::Enum { enum_values, .. } => format!("(DEnum {})", g_list(enum_values.keys(), |v| it.n(v))),
            MetaType::Scalar { .. } => format!(
                "(DScalar {}%N)",
                match k.as_str() {
                    "Int" => 0,
                    "Float" => 1,
                    "String" => 2,
                    "Boolean" => 3,
                    _ => 4,
                }
            ),
            _ => "(DScalar 9%N)".to_string(),
        };
        format!("({}, {})", it.n(k), body)
    });
    format!(
        "{{| s_types := {}; s_query := {}; s_mutation := {}; s_tname := {} |}}",
        types,
        it.n(&r.query_type),
        g_opt(r.mutation_type.as_ref(), |m| it.n(m)),
        g_list(tnames.iter(), |k| format!("({}, {})", it.n(k), g_str(k)))
    )
}

fn g_out(it: &mut Interner, o: &Out) -> String {
    match o {
        Out::Err => "OErr".into(),
        Out::Null => "ONull".into(),
        Out::Int(i) => format!("(OInt {})", g_z(*i as i128)),
        Out::Float(f) => format!("(OFloat {}%N)", f.to_bits()),
        Out::Str(s) => format!("(OStr {})", g_str(s)),
        Out::Bool(b) => format!("(OBool {})", g_bool(*b)),
        Out::Enum(e) => format!("(OEnum {})", it.n(e)),
        Out::Ref(n) => format!("(ORef {}%N)", n),
        Out::List(l) => format!("(OList {})", g_list(l.iter(), |x| g_out(it, x))),
    }
}

fn g_world(it: &mut Interner, w: &World) -> String {
    let nodes = g_list(w.nodes.iter().enumerate().filter(|(_, n)| n.0.is_some()), |(i, n)| {
        let mut fs: Vec<(&String, &Out)> = n.1.iter().collect();
        fs.sort_by(|a, b| a.0.cmp(b.0));
        format!(
            "({}%N, {{| n_ty := {}; n_fields := {} |}})",
            i,
            it.n(n.0.unwrap().name()),
            g_list(fs.iter(), |(k, o)| format!("({}, {})", it.n(k), g_out(it, o)))
        )
    });
    let defaults = g_list(FIELDS.iter().filter(|(f, _)| *f != "id"), |(f, _)| format!("({}, {})", it.n(f), g_out(it, &default_out(0, f))));
    format!("{{| w_nodes := {}; w_defaults := {}; w_idname := {} |}}", nodes, defaults, it.n("id"))
}

fn g_path(it: &mut Interner, p: &[PathSegment]) -> String {
    g_list(p.iter(), |s| match s {
        PathSegment::Field(f) => format!("PF {}", it.n(f)),
        PathSegment::Index(i) => format!("PI {}%N", i),
    })
}

fn jstr(s: &str) -> String {
    serde_json::to_string(s).unwrap()
}

// ------------------------------------------------------------------ worlds --
fn gen_out(r: &mut Rng, ty: &str, by_ty: &HashMap<&str, Vec<usize>>) -> Out {
    if let Some(inner) = ty.strip_suffix('!') {
        let o = gen_out(r, inner, by_ty);
        return if o == Out::Null { if r.chance(1, 30) { Out::Null } else { gen_nonnull(r, inner, by_ty) } } else { o };
    }
    if r.chance(1, 6) {
        return Out::Null;
    }
    gen_nonnull(r, ty, by_ty)
}

fn gen_nonnull(r: &mut Rng, ty: &str, by_ty: &HashMap<&str, Vec<usize>>) -> Out {
    if ty.starts_with('[') {
        let inner = &ty[1..ty.len() - 1];
        let n = r.below(3);
        return Out::List((0..n).map(|_| gen_out(r, inner, by_ty)).collect());
    }
    let pick = |r: &mut Rng, names: &[&str]| -> Out {
        let mut c: Vec<usize> = vec![];
        for n in names {
            c.extend(by_ty.get(n).cloned().unwrap_or_default());
        }
        if c.is_empty() { Out::Null } else { Out::Ref(*r.pick(&c)) }
    };
    match ty {
        "Int" => Out::Int(r.range(-9, 9)),
        "Float" => Out::Float(r.range(-8, 8) as f64 / 4.0),
        "String" => Out::Str(["", "x", "hé"][r.below(3)].to_string()),
        "Boolean" => Out::Bool(r.chance(1, 2)),
        "Kind" => Out::Enum(if r.chance(1, 2) { "X".into() } else { "Y".into() }),
        "A" => pick(r, &["A"]),
        "B" => pick(r, &["B"]),
        "C" => pick(r, &["C"]),
        "Node" => pick(r, &["A", "B", "C"]),
        "Named" | "Pair" => pick(r, &["A", "B"]),
        _ => Out::Null,
    }
}

fn gen_world(r: &mut Rng, fault_pm: usize) -> World {
    let n = 4 + r.below(4);
    let mut tys = vec![Some(NodeTy::Query), Some(NodeTy::Mutation), Some(NodeTy::A), Some(NodeTy::B), Some(NodeTy::C)];
    for _ in 0..n {
        tys.push(Some([NodeTy::A, NodeTy::B, NodeTy::C][r.below(3)]));
    }
    let mut by_ty: HashMap<&str, Vec<usize>> = HashMap::new();
    for (i, t) in tys.iter().enumerate() {
        by_ty.entry(t.unwrap().name()).or_default().push(i);
    }
    let mut nodes = vec![];
    for (i, t) in tys.iter().enumerate() {
        let mut m = HashMap::new();
        for (f, ty) in FIELDS {
            if i > 1 && r.chance(1, 3) {
                continue;
            }
            let o = if r.below(1000) < fault_pm { Out::Err } else { gen_out(r, ty, &by_ty) };
            m.insert(f.to_string(), o);
        }
        nodes.push((*t, m));
    }
    World { nodes, ..Default::default() }
}

fn small_world(patches: &[(usize, &str, Out)]) -> World {
    let mut w = World::default();
    w.nodes = vec![
        (Some(NodeTy::Query), HashMap::new()),
        (Some(NodeTy::Mutation), HashMap::new()),
        (Some(NodeTy::A), HashMap::new()),
        (Some(NodeTy::B), HashMap::new()),
        (Some(NodeTy::C), HashMap::new()),
        (Some(NodeTy::A), HashMap::new()),
    ];
    for (n, f, o) in patches {
        w.nodes[*n].1.insert(f.to_string(), o.clone());
    }
    w
}

fn nodes_of(w: &World, t: NodeTy) -> Vec<usize> {
    (0..w.nodes.len()).filter(|i| w.nodes[*i].0 == Some(t)).collect()
}

// --------------------------------------------------------------- documents --
fn base(t: &str) -> &str {
    t.trim_matches(|c| c == '[' || c == ']' || c == '!')
}
fn fields_of(ty: &str) -> Vec<(&'static str, &'static str)> {
    match ty {
        "Query" | "Mutation" | "A" | "B" | "C" => FIELDS.to_vec(),
        "Node" => vec![("id", "Int!"), ("name", "String")],
        "Named" => vec![("name", "String")],
        _ => vec![],
    }
}
fn is_composite(t: &str) -> bool {
    matches!(t, "A" | "B" | "C" | "Node" | "Named" | "Pair")
}
fn conds_for(ty: &str) -> Vec<&'static str> {
    match ty {
        "A" => vec!["A", "Node", "Named"],
        "B" => vec!["B", "Node", "Named"],
        "C" => vec!["C", "Node"],
        "Node" => vec!["Node", "A", "B", "C"],
        "Named" => vec!["Named", "A", "B"],
        "Pair" => vec!["A", "B"],
        "Query" => vec!["Query"],
        "Mutation" => vec!["Mutation"],
        _ => vec![],
    }
}

struct DocGen {
    r: Rng,
    frags: Vec<(String, String, String)>,
}

impl DocGen {
    fn sels(&mut self, ty: &str, depth: usize) -> String {
        let mut out = String::from("{");
        let n = 1 + self.r.below(4);
        let fields = fields_of(ty);
        let mut emitted = 0;
        for _ in 0..n {
            let k = self.r.below(12);
            if k < 8 && !fields.is_empty() {
                let (f, t) = *self.r.pick(&fields);
                let b = base(t).to_string();
                let alias = if self.r.chance(1, 10) { format!("k{}: ", self.r.below(2)) } else { String::new() };
                if is_composite(&b) {
                    if depth == 0 {
                        continue;
                    }
                    let sub = self.sels(&b, depth - 1);
                    write!(out, " {alias}{f} {sub}").unwrap();
                } else {
                    write!(out, " {alias}{f}").unwrap();
                }
                emitted += 1;
            } else if k == 8 {
                out.push_str(" __typename");
                emitted += 1;
            } else if k < 11 && depth > 0 {
                let conds = conds_for(ty);
                if conds.is_empty() {
                    continue;
                }
                let c = *self.r.pick(&conds);
                if self.r.chance(1, 5) {
                    let sub = self.sels(ty, depth - 1);
                    write!(out, " ... {sub}").unwrap();
                } else {
                    let sub = self.sels(c, depth - 1);
                    write!(out, " ... on {c} {sub}").unwrap();
                }
                emitted += 1;
            } else if depth > 0 {
                let conds = conds_for(ty);
                if conds.is_empty() {
                    continue;
                }
                let c = self.r.pick(&conds).to_string();
                let name = format!("F{}", self.frags.len());
                self.frags.push((name.clone(), c.clone(), String::new()));
                let idx = self.frags.len() - 1;
                let body = self.sels(&c, depth - 1);
                self.frags[idx].2 = body;
                write!(out, " ...{name}").unwrap();
                emitted += 1;
            }
        }
        if emitted == 0 {
            out.push_str(" id");
        }
        out.push_str(" }");
        out
    }
    fn frag_text(&self) -> String {
        let mut s = String::new();
        for (n, c, b) in &self.frags {
            writeln!(s, "fragment {n} on {c} {b}").unwrap();
        }
        s
    }
}

/// response keys of the fields directly under a selection set (through fragments)
fn top_keys(doc: &ExecutableDocument, ss: &SelectionSet, out: &mut Vec<String>) {
    for s in &ss.items {
        match &s.node {
            Selection::Field(f) => {
                let k = f.node.response_key().node.to_string();
                if f.node.name.node != "__typename" && !out.contains(&k) {
                    out.push(k);
                }
            }
            Selection::InlineFragment(fr) => top_keys(doc, &fr.node.selection_set.node, out),
            Selection::FragmentSpread(sp) => {
                if let Some(fr) = doc.fragments.get(&sp.node.fragment_name.node) {
                    top_keys(doc, &fr.node.selection_set.node, out);
                }
            }
        }
    }
}

// ---------------------------------------------------------------- schedule --
#[derive(Clone, Debug, PartialEq)]
enum Act {
    Push(String, Ev),
    Close(String),
    Open(String, String),
    Poll,
}

impl Act {
    fn text(&self) -> String {
        match self {
            Act::Push(k, Some(n)) => format!("push {k} {n}"),
            Act::Push(k, None) => format!("push {k} null"),
            Act::Close(k) => format!("close {k}"),
            Act::Open(k, c) => format!("open {k}/{c}"),
            Act::Poll => "poll".into(),
        }
    }
    fn g(&self, it: &mut Interner) -> String {
        match self {
            Act::Push(k, e) => format!("APush {} {}", it.n(k), g_opt(*e, |n| format!("{n}%N"))),
            Act::Close(k) => format!("AClose {}", it.n(k)),
            Act::Open(k, c) => format!("AOpen {} {}", it.n(k), it.n(c)),
            Act::Poll => "APoll".into(),
        }
    }
}

#[derive(Debug)]
enum Obs {
    Res(Response),
    End,
}

struct Scenario {
    text: String,
    keys: Vec<String>, // channel per root response key
    fail_create: Vec<String>,
}

struct RunOut {
    polls: Vec<Vec<Obs>>,
    trace: Vec<(usize, String)>,
}

/// run one schedule on the real execute_stream
fn run_schedule(schema: &SubSchema, sc: &Scenario, w: Arc<World>, acts: &[Act]) -> RunOut {
    let mut txs: HashMap<String, Option<mpsc::UnboundedSender<Ev>>> = HashMap::new();
    let mut sd = SubData::default();
    for k in &sc.keys {
        let (tx, rx) = mpsc::unbounded();
        txs.insert(k.clone(), Some(tx));
        sd.chans.get_mut().unwrap().insert(k.clone(), rx);
    }
    sd.fail_create = sc.fail_create.iter().cloned().collect();
    w.trace.lock().unwrap().clear();
    w.waiting.lock().unwrap().clear();
    let req = Request::new(sc.text.clone()).data(w.clone()).data(Arc::new(sd));
    let mut stream = schema.execute_stream(req);
    let waker = futures_util::task::noop_waker();
    let mut cx = TaskCx::from_waker(&waker);
    let mut polls = vec![];
    let mut ended = false;
    for a in acts {
        match a {
            Act::Push(k, e) => {
                if let Some(Some(tx)) = txs.get(k) {
                    let _ = tx.unbounded_send(*e);
                }
            }
            Act::Close(k) => {
                if let Some(slot) = txs.get_mut(k) {
                    *slot = None; // dropping the only sender closes the channel
                }
            }
            Act::Open(k, c) => {
                let path = format!("{k}/{c}");
                let mut waiting = w.waiting.lock().unwrap();
                let mut keep = vec![];
                for (p, tx) in waiting.drain(..) {
                    if p == path {
                        let _ = tx.send(());
                    } else {
                        keep.push((p, tx));
                    }
                }
                *waiting = keep;
            }
            Act::Poll => {
                let mut got = vec![];
                if !ended {
                    let mut pend = 0;
                    loop {
                        match stream.poll_next_unpin(&mut cx) {
                            Poll::Ready(Some(r)) => {
                                got.push(Obs::Res(r));
                                pend = 0;
                            }
                            Poll::Ready(None) => {
                                got.push(Obs::End);
                                ended = true;
                                break;
                            }
                            Poll::Pending => {
                                pend += 1;
                                if pend >= 3 {
                                    break;
                                }
                            }
                        }
                    }
                }
                polls.push(got);
            }
        }
    }
    drop(stream);
    let trace = w.trace.lock().unwrap().iter().filter_map(|e| if let Event::Start(_, n, f) = e { Some((*n, f.clone())) } else { None }).collect();
    RunOut { polls, trace }
}

fn g_obs(it: &mut Interner, o: &Obs) -> String {
    match o {
        Obs::Res(r) => format!("ORes {} {}", g_const(it, &r.data), g_list(r.errors.iter(), |e| g_path(it, &e.path))),
        Obs::End => "OEnd".into(),
    }
}

fn obs_text(o: &Obs) -> String {
    match o {
        Obs::Res(r) => format!(
            "{}{}",
            serde_json::to_string(&r.data).unwrap().chars().take(120).collect::<String>(),
            if r.errors.is_empty() {
                String::new()
            } else {
                format!(
                    " E{:?}",
                    r.errors
                        .iter()
                        .map(|e| e.path.iter().map(|s| match s { PathSegment::Field(f) => f.clone(), PathSegment::Index(i) => i.to_string() }).collect::<Vec<_>>().join("/"))
                        .collect::<Vec<_>>()
                )
            }
        ),
        Obs::End => "END".into(),
    }
}

struct Emit {
    out: String,
    it: Interner,
    scen_no: usize,
    cases: usize,
}

impl Emit {
    /// define the scenario once; returns its DEF name
    fn scenario(&mut self, sc: &Scenario, w: &World) -> Option<String> {
        let parsed = async_graphql::parser::parse_query(&sc.text).ok()?;
        let name = format!("scen{}", self.scen_no);
        self.scen_no += 1;
        let mut gated: Vec<&String> = w.gated.iter().collect();
        gated.sort();
        let g_gated = g_list(gated.iter(), |p| {
            let (k, c) = p.split_once('/').unwrap();
            format!("({}, {})", self.it.n(k), self.it.n(c))
        });
        let g_fail = g_list(sc.fail_create.iter(), |k| self.it.n(k));
        let gw = g_world(&mut self.it, w);
        let gd = g_document(&mut self.it, &parsed);
        writeln!(self.out, "DEF\t{name}\tFScen {gw} {gd} {{| g_sub := {}; g_gated := {g_gated}; g_failcreate := {g_fail} |}}", self.it.n("Sub")).unwrap();
        Some(name)
    }
    fn case(&mut self, scen: &str, sc: &Scenario, w: &World, acts: &[Act], ro: &RunOut) {
        let g_acts = g_list(acts.iter(), |a| a.g(&mut self.it));
        let g_polls = g_list(ro.polls.iter(), |p| g_list(p.iter(), |o| g_obs(&mut self.it, o)));
        let g_trace = g_list(ro.trace.iter(), |(n, f)| format!("({}%N, {})", n, self.it.n(f)));
        let nres: usize = ro.polls.iter().map(|p| p.iter().filter(|o| matches!(o, Obs::Res(_))).count()).sum();
        let mut gated: Vec<&String> = w.gated.iter().collect();
        gated.sort();
        let text = format!(
            "{} | gated={:?} failcreate={:?} faults={} | {}",
            sc.text.trim().replace('\n', " "),
            gated,
            sc.fail_create,
            w.nodes.iter().map(|n| n.1.values().filter(|o| **o == Out::Err).count()).sum::<usize>(),
            acts.iter().map(|a| a.text()).collect::<Vec<_>>().join("; ")
        );
        let imp = ro.polls.iter().map(|p| format!("[{}]", p.iter().map(obs_text).collect::<Vec<_>>().join(", "))).collect::<Vec<_>>().join(" ");
        let meta = format!("{{\"uses\":[\"fam\",{}],\"text\":{},\"impl\":{},\"nontrivial\":{}}}", jstr(scen), jstr(&text), jstr(&imp), nres > 0);
        writeln!(self.out, "CASE\t(fam, {scen}, {g_acts}, {g_polls}, {g_trace})\t{meta}").unwrap();
        self.cases += 1;
    }
}

fn all_seqs(alpha: &[Act], len: usize) -> Vec<Vec<Act>> {
    let mut out: Vec<Vec<Act>> = vec![vec![]];
    for _ in 0..len {
        let mut next = vec![];
        for s in &out {
            for a in alpha {
                let mut t = s.clone();
                t.push(a.clone());
                next.push(t);
            }
        }
        out = next;
    }
    out
}

fn g_vars_empty() -> &'static str {
    "[]"
}

fn main() {
    let a = parse_args();
    let mut rng = Rng::new(a.seed);
    let mut it = Interner::new();
    it.id("id");
    for (f, _) in FIELDS {
        it.id(f);
    }
    for k in ["X", "Y", "A", "B", "C", "Query", "Mutation", "Node", "Named", "Pair", "Sub"] {
        it.id(k);
    }
    for (f, _, _) in ROOTS {
        it.id(f);
    }
    let schema: SubSchema = Schema::build(Query { nid: 0 }, Mutation { nid: 1 }, Sub).finish();

    // registry dump through a probe request
    let dumped: Arc<Mutex<Option<String>>> = Arc::new(Mutex::new(None));
    let it_cell = Arc::new(Mutex::new(std::mem::take(&mut it)));
    {
        let it_cell = it_cell.clone();
        let dumped = dumped.clone();
        set_probe(move |r| {
            let mut it = it_cell.lock().unwrap();
            *dumped.lock().unwrap() = Some(dump_registry(&mut it, r));
        });
    }
    let w0 = Arc::new(small_world(&[]));
    let _ = block_on(schema.execute(Request::new("{ id }").data(w0)));
    it = std::mem::take(&mut *it_cell.lock().unwrap());
    let gschema = dumped.lock().unwrap().take().expect("probe did not run");
    let mut em = Emit { out: String::new(), it, scen_no: 0, cases: 0 };
    writeln!(em.out, "DEF\tfam\tFSchema {gschema}").unwrap();

    let s = |x: &str| x.to_string();
    let push = |k: &str, n: usize| Act::Push(s(k), Some(n));
    let open = |k: &str, c: &str| Act::Open(s(k), s(c));

    // ---------------------------------------------------------- fixed corpus
    // (document, world patches, gated paths, failing creators, schedules)
    type Fixed = (&'static str, Vec<(usize, &'static str, Out)>, Vec<&'static str>, Vec<&'static str>, Vec<Vec<Act>>);
    let mut corpus: Vec<Fixed> = vec![];
    // W1 the finding: event of fa raises a caught error and suspends; event of fb completes and takes it
    corpus.push((
        "subscription { fa { a { name } id } fb { id } }",
        vec![(2, "a", Out::Ref(5)), (5, "name", Out::Err)],
        vec!["fa/id"],
        vec![],
        vec![
            vec![push("fa", 2), Act::Poll, push("fb", 3), Act::Poll, open("fa", "id"), Act::Poll],
            vec![push("fa", 2), push("fb", 3), Act::Poll, open("fa", "id"), Act::Poll],
            vec![push("fb", 3), push("fa", 2), Act::Poll, open("fa", "id"), Act::Poll],
            vec![push("fa", 2), Act::Poll, open("fa", "id"), Act::Poll, push("fb", 3), Act::Poll],
            vec![Act::Poll, push("fa", 2), push("fa", 2), push("fb", 3), Act::Poll, open("fa", "id"), Act::Poll, open("fa", "id"), Act::Poll],
        ],
    ));
    // ready resolvers: no overlap
    corpus.push((
        "subscription { fa { a { name } id } fb { id name } }",
        vec![(2, "a", Out::Ref(5)), (5, "name", Out::Err), (3, "name", Out::Err)],
        vec![],
        vec![],
        vec![
            vec![push("fa", 2), push("fb", 3), push("fa", 5), Act::Poll, Act::Close(s("fa")), Act::Poll, Act::Close(s("fb")), Act::Poll],
            vec![Act::Poll, push("fb", 3), Act::Poll, push("fa", 2), Act::Poll],
        ],
    ));
    // fragments at the subscription root are skipped by collect_subscription_streams
    corpus.push(("subscription { ... on Sub { fa { id } } }", vec![], vec![], vec![], vec![vec![push("fa", 2), Act::Poll, Act::Poll]]));
    corpus.push(("subscription { ...F fb { id } } fragment F on Sub { fa { id } }", vec![], vec![], vec![], vec![vec![push("fa", 2), push("fb", 3), Act::Poll, Act::Close(s("fb")), Act::Poll]]));
    // __typename at the root
    corpus.push(("subscription { __typename }", vec![], vec![], vec![], vec![vec![Act::Poll, Act::Poll]]));
    corpus.push(("subscription { __typename fa { id } }", vec![], vec![], vec![], vec![vec![push("fa", 2), Act::Poll, Act::Poll]]));
    // stream end, failing creator
    corpus.push((
        "subscription { fa { id } x: fo { id name } }",
        vec![(2, "name", Out::Err)],
        vec![],
        vec!["x"],
        vec![vec![Act::Poll, push("fa", 2), push("x", 2), Act::Poll, Act::Close(s("fa")), Act::Poll], vec![push("fa", 5), Act::Close(s("fa")), Act::Poll, Act::Poll]],
    ));
    // nullable item: failure caught at the root field; null event; leaf items
    corpus.push((
        "subscription { fo { id name b { id } } fi fc { id } }",
        vec![(2, "name", Out::Err)],
        vec!["fo/id"],
        vec![],
        vec![
            vec![push("fo", 2), Act::Push(s("fo"), None), push("fi", 7), Act::Push(s("fc"), None), push("fc", 4), Act::Poll, open("fo", "id"), Act::Poll],
            vec![push("fo", 5), Act::Poll, push("fi", 1), Act::Poll, open("fo", "id"), Act::Poll, Act::Close(s("fo")), Act::Close(s("fi")), Act::Close(s("fc")), Act::Poll],
        ],
    ));
    // a failing field aborts try_join_all while another field is suspended
    corpus.push((
        "subscription { fa { id cs { id } b { id } } fb { name } }",
        vec![(2, "cs", Out::List(vec![Out::Ref(4)])), (4, "id", Out::Err), (3, "name", Out::Str("n".into()))],
        vec!["fa/id"],
        vec![],
        vec![vec![push("fa", 2), push("fb", 3), Act::Poll, open("fa", "id"), Act::Poll], vec![push("fa", 2), Act::Poll, push("fb", 3), open("fa", "id"), Act::Poll]],
    ));
    // repeated response key at the top of the event (resolved per occurrence): two waiters on one path
    corpus.push((
        "subscription { fa { id a { name } id } fb { id } }",
        vec![(2, "a", Out::Ref(5)), (5, "name", Out::Err)],
        vec!["fa/id"],
        vec![],
        vec![vec![push("fa", 2), Act::Poll, push("fb", 3), Act::Poll, open("fa", "id"), Act::Poll]],
    ));

    let mut exhaustive: Vec<(Scenario, Arc<World>, String)> = vec![];
    for (ci, (doc, patches, gated, fails, scheds)) in corpus.into_iter().enumerate() {
        let mut w = small_world(&patches);
        w.gated = gated.iter().map(|x| x.to_string()).collect();
        let keys: Vec<String> = ["fa", "fo", "fb", "fi", "fc", "x"].iter().map(|x| x.to_string()).collect();
        let sc = Scenario { text: doc.to_string(), keys, fail_create: fails.iter().map(|x| x.to_string()).collect() };
        let w = Arc::new(w);
        let probe = run_schedule(&schema, &sc, w.clone(), &[Act::Poll]);
        if let Some(Obs::Res(resp)) = probe.polls[0].first() {
            if resp.data == Value::Null && resp.errors.iter().all(|e| e.path.is_empty()) && !resp.errors.is_empty() {
                writeln!(em.out, "REJ\t\t{}", jstr(&format!("{} -> {} ; then {}", doc, resp.errors[0].message, probe.polls[0].iter().skip(1).map(obs_text).collect::<Vec<_>>().join(",")))).unwrap();
                continue;
            }
        }
        if doc.contains("...") {
            // fragments at the subscription root: collect_subscription_streams does not look into
            // them (no stream is created for fields inside).  Not part of the property: recorded, not judged.
            for acts in &scheds {
                let ro = run_schedule(&schema, &sc, w.clone(), acts);
                let imp = ro.polls.iter().map(|p| format!("[{}]", p.iter().map(obs_text).collect::<Vec<_>>().join(", "))).collect::<Vec<_>>().join(" ");
                writeln!(em.out, "ROOTFRAG\t\t{}", jstr(&format!("{} | {} -> {}", doc, acts.iter().map(|a| a.text()).collect::<Vec<_>>().join("; "), imp))).unwrap();
            }
            continue;
        }
        let Some(name) = em.scenario(&sc, &w) else { continue };
        for acts in &scheds {
            let ro = run_schedule(&schema, &sc, w.clone(), acts);
            em.case(&name, &sc, &w, acts, &ro);
        }
        if ci == 0 || ci == 7 || ci == 8 {
            exhaustive.push((sc, w, name));
        }
    }

    // --------------------------------- all interleavings of event life cycles
    // Every stream has a life cycle (push event, open its gate, ...); ALL order-preserving merges of
    // the life cycles of 2-3 root fields are run, with polls placed after every subset of the actions
    // (two fields, one event each) or after every action (three fields / two events each).  Errors
    // are recorded at nullable positions BEFORE the suspension point and AFTER it, on every stream, so
    // the executions overlap in both nestings (A inside B, B inside A) and partially, and every order
    // of start / error recording / completion that select_all permits occurs.
    {
        let patches = vec![(2usize, "a", Out::Ref(5)), (3, "a", Out::Ref(5)), (5, "name", Out::Err), (2, "name", Out::Err)];
        let life: Vec<(&str, Vec<&str>, Vec<Vec<Act>>, u8)> = vec![
            // error before the gate on fa, after the gate on fb
            (
                "subscription { fa { a { name } id } fb { a { name } id } }",
                vec!["fa/id", "fb/a"],
                vec![vec![push("fa", 2), open("fa", "id")], vec![push("fb", 3), open("fb", "a")]],
                0,
            ),
            // errors before and after the gate on both
            (
                "subscription { fa { a { name } x: a { name } id } fb { a { name } x: a { name } id } }",
                vec!["fa/x", "fb/x"],
                vec![vec![push("fa", 2), open("fa", "x")], vec![push("fb", 3), open("fb", "x")]],
                0,
            ),
            // two events per stream
            (
                "subscription { fa { a { name } x: a { name } id } fb { a { name } x: a { name } id } }",
                vec!["fa/x", "fb/x"],
                vec![vec![push("fa", 2), open("fa", "x"), push("fa", 2), open("fa", "x")], vec![push("fb", 3), open("fb", "x"), push("fb", 3), open("fb", "x")]],
                1,
            ),
            // three root fields, the third with a nullable item whose failure is recorded at completion
            (
                "subscription { fa { a { name } x: a { name } } fb { x: a { name } id } fo { a { name } x: name } }",
                vec!["fa/x", "fb/x", "fo/x"],
                vec![vec![push("fa", 2), open("fa", "x")], vec![push("fb", 3), open("fb", "x")], vec![push("fo", 2), open("fo", "x")]],
                1,
            ),
        ];
        fn merges(seqs: &[Vec<Act>], pos: &mut Vec<usize>, cur: &mut Vec<Act>, out: &mut Vec<Vec<Act>>) {
            let mut done = true;
            for i in 0..seqs.len() {
                if pos[i] < seqs[i].len() {
                    done = false;
                    cur.push(seqs[i][pos[i]].clone());
                    pos[i] += 1;
                    merges(seqs, pos, cur, out);
                    pos[i] -= 1;
                    cur.pop();
                }
            }
            if done {
                out.push(cur.clone());
            }
        }
        for (doc, gated, cycles, policy) in life {
            let mut w = small_world(&patches);
            w.gated = gated.iter().map(|x| x.to_string()).collect();
            let keys: Vec<String> = ["fa", "fo", "fb", "fi", "fc"].iter().map(|x| x.to_string()).collect();
            let sc = Scenario { text: doc.to_string(), keys, fail_create: vec![] };
            let Some(name) = em.scenario(&sc, &w) else { continue };
            let w = Arc::new(w);
            let mut all = vec![];
            merges(&cycles, &mut vec![0; cycles.len()], &mut vec![], &mut all);
            for m in all {
                let masks: Vec<u32> = if policy == 0 { (0..(1u32 << m.len())).collect() } else { vec![(1u32 << m.len()) - 1] };
                for mask in masks {
                    let mut acts = vec![];
                    for (i, a) in m.iter().enumerate() {
                        acts.push(a.clone());
                        if mask & (1 << i) != 0 {
                            acts.push(Act::Poll);
                        }
                    }
                    if acts.last() != Some(&Act::Poll) {
                        acts.push(Act::Poll);
                    }
                    let ro = run_schedule(&schema, &sc, w.clone(), &acts);
                    em.case(&name, &sc, &w, &acts, &ro);
                }
            }
        }
    }

    // ------------------------------------- bounded-exhaustive interleavings
    // budget: the life cycles above plus about a third of n; alphabets per scenario
    let budget = em.cases + a.n / 3;
    let alphas: Vec<Vec<Act>> = vec![
        vec![push("fa", 2), push("fb", 3), open("fa", "id"), Act::Poll, Act::Close(s("fa"))],
        vec![push("fo", 2), push("fi", 7), open("fo", "id"), Act::Poll, Act::Push(s("fo"), None)],
        vec![push("fa", 2), push("fb", 3), open("fa", "id"), Act::Poll],
    ];
    let mut len = 1;
    'outer: loop {
        for ((sc, w, name), alpha) in exhaustive.iter().zip(alphas.iter()) {
            let seqs = all_seqs(alpha, len);
            if em.cases + seqs.len() > budget && len > 2 {
                break 'outer;
            }
            for mut acts in seqs {
                if acts.last() != Some(&Act::Poll) {
                    acts.push(Act::Poll);
                }
                let ro = run_schedule(&schema, sc, w.clone(), &acts);
                em.case(name, sc, w, &acts, &ro);
            }
        }
        len += 1;
        if len > 7 {
            break;
        }
    }

    // ------------------------------------------------- random scenarios
    let mut rejected = 0;
    while em.cases < a.n {
        let mut r = rng.fork();
        let fault_pm = [0usize, 60, 120, 200][r.below(4)];
        let mut w = gen_world(&mut r.fork(), fault_pm);
        let mut dg = DocGen { r: r.fork(), frags: vec![] };
        let nroots = 1 + r.below(3);
        let mut body = String::from("subscription {");
        let mut keys: Vec<(String, usize)> = vec![];
        for i in 0..nroots {
            let ri = r.below(ROOTS.len());
            let (f, ty, _) = ROOTS[ri];
            let key = if keys.iter().any(|(k, _)| k == f) || r.chance(1, 6) { format!("r{i}") } else { f.to_string() };
            if keys.iter().any(|(k, _)| *k == key) {
                continue;
            }
            let alias = if key == f { String::new() } else { format!("{key}: ") };
            if ty.is_empty() {
                write!(body, " {alias}{f}").unwrap();
            } else {
                let depth = 1 + dg.r.below(2);
                let sub = dg.sels(ty, depth);
                write!(body, " {alias}{f} {sub}").unwrap();
            }
            keys.push((key, ri));
        }
        body.push_str(" }\n");
        let text = format!("{body}{}", dg.frag_text());
        let Ok(parsed) = async_graphql::parser::parse_query(&text) else { continue };
        // gates on top-level children of the events
        let op = match &parsed.operations {
            async_graphql::parser::types::DocumentOperations::Single(op) => &op.node,
            _ => continue,
        };
        let mut gates: Vec<(String, String)> = vec![];
        for s in &op.selection_set.node.items {
            if let Selection::Field(f) = &s.node {
                let k = f.node.response_key().node.to_string();
                let mut tk = vec![];
                top_keys(&parsed, &f.node.selection_set.node, &mut tk);
                for c in tk {
                    if r.chance(1, 3) {
                        gates.push((k.clone(), c));
                    }
                }
            }
        }
        w.gated = gates.iter().map(|(k, c)| format!("{k}/{c}")).collect();
        let fail_create: Vec<String> = keys.iter().filter(|_| r.chance(1, 12)).map(|(k, _)| k.clone()).collect();
        let sc = Scenario { text: text.clone(), keys: keys.iter().map(|(k, _)| k.clone()).collect(), fail_create };
        // validation check: run once with an empty schedule ending in a poll
        let w = Arc::new(w);
        let probe = run_schedule(&schema, &sc, w.clone(), &[Act::Poll]);
        if let Some(Obs::Res(resp)) = probe.polls[0].first() {
            if resp.data == Value::Null && resp.errors.iter().any(|e| e.path.is_empty()) {
                rejected += 1;
                writeln!(em.out, "REJ\t\t{}", jstr(&format!("{} -> {}", text.trim(), resp.errors[0].message))).unwrap();
                continue;
            }
        }
        let Some(name) = em.scenario(&sc, &w) else { continue };
        let a_nodes = nodes_of(&w, NodeTy::A);
        let b_nodes = nodes_of(&w, NodeTy::B);
        let c_nodes = nodes_of(&w, NodeTy::C);
        for _ in 0..(3 + r.below(4)) {
            let len = 3 + r.below(12);
            let mut acts = vec![];
            for _ in 0..len {
                let (k, ri) = r.pick(&keys).clone();
                let (_, ty, nullable) = ROOTS[ri];
                let x = r.below(20);
                if x < 8 {
                    let ev = if nullable && r.chance(1, 6) {
                        None
                    } else {
                        Some(match ty {
                            "A" => *r.pick(&a_nodes),
                            "B" => *r.pick(&b_nodes),
                            "C" => *r.pick(&c_nodes),
                            _ => r.below(50),
                        })
                    };
                    acts.push(Act::Push(k, ev));
                } else if x < 13 && !gates.is_empty() {
                    let (gk, gc) = r.pick(&gates).clone();
                    acts.push(Act::Open(gk, gc));
                } else if x < 14 {
                    acts.push(Act::Close(k));
                } else {
                    acts.push(Act::Poll);
                }
            }
            // completion: release everything a few times
            acts.push(Act::Poll);
            if r.chance(2, 3) {
                for _ in 0..(1 + r.below(3)) {
                    let mut gs = gates.clone();
                    r.shuffle(&mut gs);
                    for (gk, gc) in gs {
                        acts.push(Act::Open(gk, gc));
                        if r.chance(1, 3) {
                            acts.push(Act::Poll);
                        }
                    }
                    acts.push(Act::Poll);
                }
            }
            if r.chance(1, 2) {
                for (k, _) in &keys {
                    acts.push(Act::Close(k.clone()));
                }
                acts.push(Act::Poll);
            }
            let ro = run_schedule(&schema, &sc, w.clone(), &acts);
            em.case(&name, &sc, &w, &acts, &ro);
            if em.cases >= a.n {
                break;
            }
        }
    }
    let _ = rejected;

    // ------------------------------- queries and mutations through execute_stream
    let nq = (a.n / 10).max(20);
    let mut qcases = 0;
    let fixed_q = ["{ id a { id name } }", "mutation { id b { score } }", "{ a { b { id } } k0: id }", "query Q { __typename }"];
    let mut fixed_iter = fixed_q.iter();
    while qcases < nq {
        let mut r = rng.fork();
        let w = Arc::new(if qcases < fixed_q.len() { small_world(&[(0, "a", Out::Ref(2)), (2, "name", Out::Err)]) } else { gen_world(&mut r.fork(), [0usize, 80, 160][r.below(3)]) });
        let text = if let Some(t) = fixed_iter.next() {
            t.to_string()
        } else {
            let mut dg = DocGen { r: r.fork(), frags: vec![] };
            let mutation = r.chance(1, 4);
            let body = dg.sels(if mutation { "Mutation" } else { "Query" }, 1 + r.below(3));
            format!("{} {body}\n{}", if mutation { "mutation" } else { "query" }, dg.frag_text())
        };
        let Ok(parsed) = async_graphql::parser::parse_query(&text) else { continue };
        // through execute
        w.trace.lock().unwrap().clear();
        let direct = block_on(schema.execute(Request::new(text.clone()).data(w.clone())));
        let trace1: Vec<(usize, String)> = w.trace.lock().unwrap().iter().filter_map(|e| if let Event::Start(_, n, f) = e { Some((*n, f.clone())) } else { None }).collect();
        if direct.data == Value::Null && trace1.is_empty() && direct.errors.iter().any(|e| e.path.is_empty() && e.message != "boom" && e.message != "shape") {
            writeln!(em.out, "REJ\t\t{}", jstr(&format!("{} -> {}", text.trim(), direct.errors[0].message))).unwrap();
            continue;
        }
        // through execute_stream
        let sc = Scenario { text: text.clone(), keys: vec![], fail_create: vec![] };
        let ro = run_schedule(&schema, &sc, w.clone(), &[Act::Poll, Act::Poll]);
        let gw = g_world(&mut em.it, &w);
        let gd = g_document(&mut em.it, &parsed);
        let g_polls = g_list(ro.polls.iter(), |p| g_list(p.iter(), |o| g_obs(&mut em.it, o)));
        let g_direct = format!("ORes {} {}", g_const(&mut em.it, &direct.data), g_list(direct.errors.iter(), |e| g_path(&mut em.it, &e.path)));
        let imp = ro.polls.iter().map(|p| format!("[{}]", p.iter().map(obs_text).collect::<Vec<_>>().join(", "))).collect::<Vec<_>>().join(" ");
        let meta = format!(
            "{{\"uses\":[\"fam\"],\"text\":{},\"impl\":{},\"nontrivial\":{}}}",
            jstr(&format!("via execute_stream: {}", text.trim().replace('\n', " "))),
            jstr(&imp),
            direct.data != Value::Null || !direct.errors.is_empty()
        );
        writeln!(em.out, "QS\t(fam, {gw}, {gd}, {}, {g_polls}, {g_direct})\t{meta}", g_vars_empty()).unwrap();
        qcases += 1;
    }

    writeln!(em.out, "NAMES\t\t{}", serde_json::to_string(&em.it.names).unwrap()).unwrap();
    std::fs::write(format!("{}/c27.cases", a.out), em.out).unwrap();
}

use std::collections::HashMap;
use std::sync::Arc;

use agv_harness::family::*;
use agv_harness::*;
use async_graphql::*;

fn main() {
    let schema = build().finish();
    let mut nodes: Vec<(Option<NodeTy>, HashMap<String, Out>)> = vec![
        (Some(NodeTy::Query), HashMap::new()),
        (Some(NodeTy::Mutation), HashMap::new()),
        (Some(NodeTy::A), HashMap::new()),
        (Some(NodeTy::B), HashMap::new()),
        (Some(NodeTy::C), HashMap::new()),
    ];
    nodes[0].1.insert("a".into(), Out::Ref(2));
    nodes[0].1.insert("b".into(), Out::Ref(3));
    nodes[0].1.insert("bs".into(), Out::List(vec![Out::Ref(3), Out::Ref(3)]));
    nodes[0].1.insert("node".into(), Out::Ref(2));
    nodes[0].1.insert("ab".into(), Out::Ref(2));
    nodes[0].1.insert("nodes".into(), Out::List(vec![Out::Ref(2), Out::Ref(3)]));
    nodes[0].1.insert("cs".into(), Out::List(vec![Out::Ref(4), Out::Null]));
    nodes[2].1.insert("name".into(), Out::Err);
    nodes[2].1.insert("b".into(), Out::Ref(3));
    nodes[3].1.insert("score".into(), Out::Err);
    nodes[3].1.insert("ratio".into(), Out::Float(f64::NAN));
    nodes[4].1.insert("id".into(), Out::Err);
    let docs = std::env::args().skip(1).collect::<Vec<_>>();
    for d in docs {
        let w = Arc::new(World { nodes: nodes.clone(), ..Default::default() });
        let resp = block_on(schema.execute(Request::new(d.clone()).data(w.clone())));
        println!("{d}\n  => {}", serde_json::to_string(&resp).unwrap());
        println!("  trace: {:?}", w.trace.lock().unwrap().iter().filter_map(|e| if let Event::Start(p, n, f) = e { Some(format!("{p}:{n}.{f}")) } else { None }).collect::<Vec<_>>());
    }
}

//! C01 / C03 / C04 correspondence: the derive-built schema family with
//! data-driven resolvers (harness/src/family.rs); generated documents,
//! variables and data worlds (with faults).  `c01 <seed> <n> <out> [c03]`.
use std::collections::HashMap;
use std::fmt::Write as _;
use std::sync::{Arc, Mutex};

use agv_harness::family::*;
use agv_harness::genschema::set_probe;
use agv_harness::*;
use async_graphql::registry::{MetaType, Registry};
use async_graphql::*;

// (field, type string) — must agree with family.rs; checked against the registry dump at run time
const FIELDS: &[(&str, &str)] = &[
    ("id", "Int!"), ("name", "String"), ("score", "Float!"), ("ratio", "Float"), ("flag", "Boolean"),
    ("kind", "Kind!"), ("a", "A"), ("b", "B!"), ("bs", "[B!]!"), ("cs", "[C]"), ("aList", "[A]!"),
    ("csNn", "[C!]"), ("node", "Node"), ("nodes", "[Node!]!"), ("ab", "Pair"), ("abs", "[Pair]!"),
    ("grid", "[[Int!]!]!"), ("named", "Named"),
];

fn g_ty(it: &mut Interner, t: &str) -> String {
    if let Some(inner) = t.strip_suffix('!') {
        format!("(TNonNull {})", g_ty(it, inner))
    } else if t.starts_with('[') && t.ends_with(']') {
        format!("(TList {})", g_ty(it, &t[1..t.len() - 1]))
    } else {
        format!("(TNamed {})", it.n(t))
    }
}

fn dump_registry(it: &mut Interner, r: &Registry) -> String {
    let fields = |it: &mut Interner, fs: &indexmap::IndexMap<String, async_graphql::registry::MetaField>| {
        g_list(fs.iter().filter(|(k, _)| !k.starts_with("__")), |(k, f)| format!("({}, {})", it.n(k), g_ty(it, &f.ty)))
    };
    let mut tnames = vec![];
    let types = g_list(r.types.iter().filter(|(k, _)| !k.starts_with("__")), |(k, t)| {
        tnames.push(k.clone());
        let body = match t {
            MetaType::Object { fields: fs, .. } => {
                let imp: Vec<String> = r.implements.get(k).map(|s| s.iter().cloned().collect()).unwrap_or_default();
                format!("(DObject {} {})", fields(it, fs), g_list(imp.iter(), |i| it.n(i)))
            }
            MetaType::Interface { fields: fs, possible_types, .. } => format!("(DInterface {} {})", fields(it, fs), g_list(possible_types.iter(), |p| it.n(p))),
            MetaType::Union { possible_types, .. } => format!("(DUnion {})", g_list(possible_types.iter(), |p| it.n(p))),
            MetaType::Enum { enum_values, .. } => format!("(DEnum {})", g_list(enum_values.keys(), |v| it.n(v))),
            MetaType::Scalar { .. } => format!(
                "(DScalar {}%N)",
                match k.as_str() {
                    "Int" => 0,
                    "Float" => 1,
                    "String" => 2,
                    "Boolean" => 3,
                    _ => 4,
                }
            ),
            _ => "(DScalar 9%N)".to_string(),
        };
        format!("({}, {})", it.n(k), body)
    });
    format!(
        "{{| s_types := {}; s_query := {}; s_mutation := {}; s_tname := {} |}}",
        types,
        it.n(&r.query_type),
        g_opt(r.mutation_type.as_ref(), |m| it.n(m)),
        g_list(tnames.iter(), |k| format!("({}, {})", it.n(k), g_str(k)))
    )
}

fn g_out(it: &mut Interner, o: &Out) -> String {
    match o {
        Out::Err => "OErr".into(),
        Out::Null => "ONull".into(),
        Out::Int(i) => format!("(OInt {})", g_z(*i as i128)),
        Out::Float(f) => format!("(OFloat {}%N)", f.to_bits()),
        Out::Str(s) => format!("(OStr {})", g_str(s)),
        Out::Bool(b) => format!("(OBool {})", g_bool(*b)),
        Out::Enum(e) => format!("(OEnum {})", it.n(e)),
        Out::Ref(n) => format!("(ORef {}%N)", n),
        Out::List(l) => format!("(OList {})", g_list(l.iter(), |x| g_out(it, x))),
    }
}

fn g_world(it: &mut Interner, w: &World) -> String {
    let nodes = g_list(w.nodes.iter().enumerate().filter(|(_, n)| n.0.is_some()), |(i, n)| {
        let mut fs: Vec<(&String, &Out)> = n.1.iter().collect();
        fs.sort_by(|a, b| a.0.cmp(b.0));
        format!(
            "({}%N, {{| n_ty := {}; n_fields := {} |}})",
            i,
            it.n(n.0.unwrap().name()),
            g_list(fs.iter(), |(k, o)| format!("({}, {})", it.n(k), g_out(it, o)))
        )
    });
    let defaults = g_list(FIELDS.iter().filter(|(f, _)| *f != "id"), |(f, _)| format!("({}, {})", it.n(f), g_out(it, &default_out(0, f))));
    format!("{{| w_nodes := {}; w_defaults := {}; w_idname := {} |}}", nodes, defaults, it.n("id"))
}

// ------------------------------------------------------------ worlds
fn gen_out(r: &mut Rng, ty: &str, by_ty: &HashMap<&str, Vec<usize>>, fault: u64, depth: usize) -> Out {
    if let Some(inner) = ty.strip_suffix('!') {
        let o = gen_out(r, inner, by_ty, fault, depth);
        return if o == Out::Null { if r.chance(1, 30) { Out::Null } else { gen_nonnull(r, inner, by_ty, fault, depth) } } else { o };
    }
    if r.chance(1, 5) {
        return Out::Null;
    }
    gen_nonnull(r, ty, by_ty, fault, depth)
}

fn gen_nonnull(r: &mut Rng, ty: &str, by_ty: &HashMap<&str, Vec<usize>>, fault: u64, depth: usize) -> Out {
    if ty.starts_with('[') {
        let inner = &ty[1..ty.len() - 1];
        let n = r.below(4);
        return Out::List((0..n).map(|_| gen_out(r, inner, by_ty, fault, depth)).collect());
    }
    let pick = |r: &mut Rng, names: &[&str]| -> Out {
        let mut c: Vec<usize> = vec![];
        for n in names {
            c.extend(by_ty.get(n).cloned().unwrap_or_default());
        }
        if c.is_empty() { Out::Null } else { Out::Ref(*r.pick(&c)) }
    };
    match ty {
        "Int" => Out::Int(match r.below(6) { 0 => i32::MAX as i64, 1 => i32::MIN as i64, 2 => 0, _ => r.range(-50, 50) }),
        "Float" => Out::Float(match r.below(12) { 0 => f64::NAN, 1 => f64::INFINITY, 2 => -0.0, 3 => f64::NEG_INFINITY, _ => r.range(-40, 40) as f64 / 4.0 }),
        "String" => Out::Str(["", "x", "héllo", "a\"b"][r.below(4)].to_string()),
        "Boolean" => Out::Bool(r.chance(1, 2)),
        "Kind" => Out::Enum(if r.chance(1, 2) { "X".into() } else { "Y".into() }),
        "A" => pick(r, &["A"]),
        "B" => pick(r, &["B"]),
        "C" => pick(r, &["C"]),
        "Node" => pick(r, &["A", "B", "C"]),
        "Named" | "Pair" => pick(r, &["A", "B"]),
        _ => Out::Null,
    }
}

fn gen_world(r: &mut Rng, fault_pm: u64, nan: bool) -> World {
    let n = 5 + r.below(5);
    let mut tys = vec![Some(NodeTy::Query), Some(NodeTy::Mutation)];
    for _ in 2..n {
        tys.push(Some([NodeTy::A, NodeTy::B, NodeTy::C][r.below(3)]));
    }
    // make sure every object type has an instance
    tys.push(Some(NodeTy::A));
    tys.push(Some(NodeTy::B));
    tys.push(Some(NodeTy::C));
    let mut by_ty: HashMap<&str, Vec<usize>> = HashMap::new();
    for (i, t) in tys.iter().enumerate() {
        by_ty.entry(t.unwrap().name()).or_default().push(i);
    }
    let mut nodes = vec![];
    for (i, t) in tys.iter().enumerate() {
        let mut m = HashMap::new();
        for (f, ty) in FIELDS {
            // roots get rich data; other nodes mention about 2/3 of their fields
            if i > 1 && r.chance(1, 3) {
                continue;
            }
            let mut o = if r.below(1000) < fault_pm as usize { Out::Err } else { gen_out(r, ty, &by_ty, fault_pm, 0) };
            if !nan {
                if let Out::Float(x) = o {
                    if !x.is_finite() {
                        o = Out::Float(2.25);
                    }
                }
            }
            m.insert(f.to_string(), o);
        }
        nodes.push((*t, m));
    }
    World { nodes, ..Default::default() }
}

// ------------------------------------------------------------ documents
struct DocGen {
    r: Rng,
    frags: Vec<(String, String, String)>,
    uses: Vec<(String, bool, Option<bool>)>, // variable name, has default?, default
    dup: bool,
}

fn fields_of(ty: &str) -> Vec<(&'static str, &'static str)> {
    match ty {
        "Query" | "Mutation" | "A" | "B" | "C" => FIELDS.to_vec(),
        "Node" => vec![("id", "Int!"), ("name", "String")],
        "Named" => vec![("name", "String")],
        _ => vec![],
    }
}
fn base(t: &str) -> &str {
    t.trim_matches(|c| c == '[' || c == ']' || c == '!')
}
fn is_composite(t: &str) -> bool {
    matches!(t, "A" | "B" | "C" | "Node" | "Named" | "Pair" | "Query" | "Mutation")
}
fn conds_for(ty: &str) -> Vec<&'static str> {
    match ty {
        "A" => vec!["A", "Node", "Named", "Pair"],
        "B" => vec!["B", "Node", "Named", "Pair"],
        "C" => vec!["C", "Node"],
        "Node" => vec!["Node", "A", "B", "C", "Named", "Pair"],
        "Named" => vec!["Named", "A", "B", "Node", "Pair"],
        "Pair" => vec!["Pair", "A", "B", "Node", "Named"],
        "Query" => vec!["Query"],
        "Mutation" => vec!["Mutation"],
        _ => vec![],
    }
}

impl DocGen {
    fn dirs(&mut self) -> String {
        if !self.r.chance(1, 6) {
            return String::new();
        }
        if self.r.chance(1, 4) {
            // both directives on one selection, in either order
            let a = self.one_dir("skip");
            let b = self.one_dir("include");
            return if self.r.chance(1, 2) { format!("{a}{b}") } else { format!("{b}{a}") };
        }
        let which = if self.r.chance(1, 2) { "skip" } else { "include" };
        self.one_dir(which)
    }
    fn one_dir(&mut self, which: &str) -> String {
        match self.r.below(3) {
            0 => format!(" @{which}(if: {})", self.r.chance(1, 2)),
            _ => {
                let k = self.r.below(3);
                let name = format!("v{k}");
                if !self.uses.iter().any(|u| u.0 == name) {
                    let has_default = self.r.chance(1, 2);
                    let d = if has_default { Some(self.r.chance(1, 2)) } else { None };
                    self.uses.push((name.clone(), has_default, d));
                }
                format!(" @{which}(if: ${name})")
            }
        }
    }
    fn sels(&mut self, ty: &str, depth: usize) -> String {
        let mut out = String::from("{");
        let n = 1 + self.r.below(4);
        let fields = fields_of(ty);
        let mut emitted = 0;
        let mut last_field: Option<(String, String)> = None;
        for _ in 0..n {
            let k = self.r.below(12);
            if k < 6 && !fields.is_empty() {
                let (f, t) = *self.r.pick(&fields);
                let b = base(t).to_string();
                let alias = if self.r.chance(1, 10) { format!("k{}: ", self.r.below(2)) } else { String::new() };
                let d = self.dirs();
                if is_composite(&b) {
                    if depth == 0 {
                        continue;
                    }
                    let sub = self.sels(&b, depth - 1);
                    write!(out, " {alias}{f}{d} {sub}").unwrap();
                    last_field = Some((f.to_string(), b));
                } else {
                    write!(out, " {alias}{f}{d}").unwrap();
                }
                emitted += 1;
            } else if k == 6 {
                out.push_str(" __typename");
                emitted += 1;
            } else if k == 7 && self.dup && depth > 0 {
                // repeat the previous composite field with another sub-selection (to be merged)
                if let Some((f, b)) = last_field.clone() {
                    let sub = self.sels(&b, depth - 1);
                    write!(out, " {f} {sub}").unwrap();
                    emitted += 1;
                }
            } else if k < 10 && depth > 0 {
                let conds = conds_for(ty);
                if conds.is_empty() {
                    continue;
                }
                let c = *self.r.pick(&conds);
                let d = self.dirs();
                if self.r.chance(1, 5) {
                    let sub = self.sels(ty, depth - 1);
                    write!(out, " ...{d} {sub}").unwrap();
                } else {
                    let sub = self.sels(c, depth - 1);
                    write!(out, " ... on {c}{d} {sub}").unwrap();
                }
                emitted += 1;
            } else if depth > 0 {
                let conds = conds_for(ty);
                if conds.is_empty() {
                    continue;
                }
                let c = self.r.pick(&conds).to_string();
                let reuse: Vec<String> = self.frags.iter().filter(|f| f.1 == c && !f.2.is_empty()).map(|f| f.0.clone()).collect();
                let d = self.dirs();
                if !reuse.is_empty() && self.r.chance(1, 2) {
                    write!(out, " ...{}{d}", self.r.pick(&reuse)).unwrap();
                } else {
                    let name = format!("F{}", self.frags.len());
                    self.frags.push((name.clone(), c.clone(), String::new()));
                    let idx = self.frags.len() - 1;
                    let body = self.sels(&c, depth - 1);
                    self.frags[idx].2 = body;
                    write!(out, " ...{name}{d}").unwrap();
                }
                emitted += 1;
            }
        }
        if emitted == 0 {
            out.push_str(" __typename");
        }
        out.push_str(" }");
        out
    }
    fn document(&mut self) -> (String, serde_json::Value, Option<String>) {
        let mutation = self.r.chance(1, 6);
        let root = if mutation { "Mutation" } else { "Query" };
        let depth = 1 + self.r.below(4);
        let body = self.sels(root, depth);
        let mut vars = serde_json::Map::new();
        let mut vd = vec![];
        for (name, has_default, d) in &self.uses {
            let supplied = !has_default || self.r.chance(1, 2);
            if supplied {
                vars.insert(name.clone(), serde_json::json!(self.r.chance(1, 2)));
            }
            match d {
                Some(b) => vd.push(format!("${name}: Boolean = {b}")),
                None => vd.push(format!("${name}: Boolean!")),
            }
        }
        let kw = if mutation { "mutation" } else { "query" };
        let mut s = String::new();
        let named = !vd.is_empty() || mutation || self.r.chance(1, 2);
        let mut opname = None;
        if named {
            let two = self.r.chance(1, 8);
            writeln!(s, "{kw} Op0{} {body}", if vd.is_empty() { String::new() } else { format!("({})", vd.join(", ")) }).unwrap();
            if two {
                writeln!(s, "query Op1 {{ __typename }}").unwrap();
                opname = Some("Op0".to_string());
            }
        } else {
            writeln!(s, "{body}").unwrap();
        }
        for (n, c, b) in &self.frags {
            writeln!(s, "fragment {n} on {c} {b}").unwrap();
        }
        (s, serde_json::Value::Object(vars), opname)
    }
}

fn jstr(s: &str) -> String {
    serde_json::to_string(s).unwrap()
}

fn g_vars(it: &mut Interner, v: &serde_json::Value) -> String {
    match v {
        serde_json::Value::Object(m) => g_list(m.iter(), |(k, x)| {
            let gv = match x {
                serde_json::Value::Bool(b) => format!("(VBool {})", g_bool(*b)),
                serde_json::Value::Number(n) if n.is_i64() => format!("(VInt {})", g_z(n.as_i64().unwrap() as i128)),
                _ => "VNull".to_string(),
            };
            format!("({}, {})", it.n(k), gv)
        }),
        _ => "[]".into(),
    }
}

fn g_path(it: &mut Interner, p: &[PathSegment]) -> String {
    g_list(p.iter(), |s| match s {
        PathSegment::Field(f) => format!("PF {}", it.n(f)),
        PathSegment::Index(i) => format!("PI {}%N", i),
    })
}

fn main() {
    let a = parse_args();
    let c03 = a.rest.iter().any(|x| x == "c03");
    let mut rng = Rng::new(a.seed);
    let mut out = String::new();
    let mut it = Interner::new();
    it.id("id");
    for (f, _) in FIELDS {
        it.id(f);
    }
    for k in ["X", "Y", "A", "B", "C", "Query", "Mutation", "Node", "Named", "Pair"] {
        it.id(k);
    }
    let strict = build().finish();
    let fast = build().validation_mode(ValidationMode::Fast).finish();

    // registry dump through a probe request
    let dumped: Arc<Mutex<Option<String>>> = Arc::new(Mutex::new(None));
    let it_cell = Arc::new(Mutex::new(std::mem::take(&mut it)));
    {
        let it_cell = it_cell.clone();
        let dumped = dumped.clone();
        set_probe(move |r| {
            let mut it = it_cell.lock().unwrap();
            *dumped.lock().unwrap() = Some(dump_registry(&mut it, r));
        });
    }
    let w0 = Arc::new(gen_world(&mut rng.fork(), 0, false));
    let _ = block_on(strict.execute(Request::new("{ id }").data(w0)));
    it = std::mem::take(&mut *it_cell.lock().unwrap());
    let gschema = dumped.lock().unwrap().take().expect("probe did not run");
    writeln!(out, "DEF\tfam\t{gschema}").unwrap();

    let mut case_no = 0;
    let mut corpus: Vec<(&str, Vec<(usize, &str, Out)>)> = vec![];
    // fixed corpus: witnesses of the known findings (worlds are built below from (node, field, outcome) patches)
    corpus.push(("{ a { id name } }", vec![(0, "a", Out::Ref(2)), (2, "name", Out::Err)]));
    corpus.push(("{ a { id } a { b { score } } }", vec![(0, "a", Out::Ref(2)), (2, "b", Out::Ref(3)), (3, "score", Out::Err)]));
    corpus.push(("{ bs { id score } }", vec![(0, "bs", Out::List(vec![Out::Ref(3), Out::Ref(3)])), (3, "score", Out::Err)]));
    corpus.push(("{ b { score ratio } }", vec![(0, "b", Out::Ref(3)), (3, "score", Out::Float(f64::NAN)), (3, "ratio", Out::Float(f64::INFINITY))]));
    corpus.push(("{ node { id name } }", vec![(0, "node", Out::Ref(2)), (2, "name", Out::Err)]));
    corpus.push(("{ node { ... on Pair { ... on A { id } } } a { ... on Pair { __typename } } }", vec![(0, "node", Out::Ref(2)), (0, "a", Out::Ref(2))]));
    corpus.push(("query($s: Boolean = true) { a @skip(if: $s) { id } b @include(if: $s) { id } }", vec![(0, "a", Out::Ref(2)), (0, "b", Out::Ref(3))]));
    corpus.push(("mutation { a { id } a { id } k0: id }", vec![(1, "a", Out::Ref(2))]));

    let mut corpus_iter = corpus.into_iter();
    while case_no < a.n {
        let (text, vars, opname, world, fast_mode) = if let Some((doc, patches)) = corpus_iter.next() {
            let mut w = World::default();
            w.nodes = vec![
                (Some(NodeTy::Query), HashMap::new()),
                (Some(NodeTy::Mutation), HashMap::new()),
                (Some(NodeTy::A), HashMap::new()),
                (Some(NodeTy::B), HashMap::new()),
                (Some(NodeTy::C), HashMap::new()),
            ];
            for (n, f, o) in patches {
                w.nodes[n].1.insert(f.to_string(), o);
            }
            (doc.to_string(), serde_json::json!({}), None, w, false)
        } else {
            let fault_pm = if c03 { [0u64, 40, 80, 150][rng.below(4)] } else { [0u64, 0, 0, 30][rng.below(4)] };
            let world = gen_world(&mut rng.fork(), fault_pm, rng.chance(1, 4));
            let mut dg = DocGen { r: rng.fork(), frags: vec![], uses: vec![], dup: rng.chance(1, 2) };
            let (text, vars, opname) = dg.document();
            (text, vars, opname, world, rng.chance(1, 4))
        };
        let Ok(parsed) = async_graphql::parser::parse_query(&text) else { continue };
        let w = Arc::new(world);
        let mut req = Request::new(text.clone()).variables(Variables::from_json(vars.clone())).data(w.clone());
        if let Some(n) = &opname {
            req = req.operation_name(n.clone());
        }
        let resp = block_on(if fast_mode { fast.execute(req) } else { strict.execute(req) });
        let trace: Vec<(usize, String)> = w.trace.lock().unwrap().iter().filter_map(|e| if let Event::Start(_, n, f) = e { Some((*n, f.clone())) } else { None }).collect();
        // rejected before execution: no data, no resolver ran, an error without path
        let rejected = resp.data == Value::Null && trace.is_empty() && resp.errors.iter().any(|e| e.path.is_empty() && e.message != "boom" && e.message != "shape");
        if rejected {
            writeln!(out, "REJ\t\t{}", jstr(&format!("{} -> {}", text.trim(), resp.errors[0].message))).unwrap();
            continue;
        }
        let gdoc = g_document(&mut it, &parsed);
        let gresp = format!(
            "{{| rs_data := {}; rs_errors := {}; rs_trace := {} |}}",
            g_const(&mut it, &resp.data),
            g_list(resp.errors.iter(), |e| g_path(&mut it, &e.path)),
            g_list(trace.iter(), |(n, f)| format!("({}%N, {})", n, it.n(f)))
        );
        let nontrivial = resp.data != Value::Null || !resp.errors.is_empty();
        let meta = format!(
            "{{\"uses\":[\"fam\"],\"text\":{},\"impl\":{},\"nontrivial\":{}}}",
            jstr(&format!("[{}vars={} faults={}] {}", if fast_mode { "fast " } else { "" }, vars, w.nodes.iter().map(|n| n.1.values().filter(|o| **o == Out::Err).count()).sum::<usize>(), text.trim())),
            jstr(&format!("{} errors={:?}", serde_json::to_string(&resp.data).unwrap().chars().take(200).collect::<String>(), resp.errors.iter().map(|e| format!("{:?}", e.path)).collect::<Vec<_>>())),
            nontrivial
        );
        writeln!(out, "CASE\t(fam, {}, {gdoc}, {}, {}, {gresp})\t{meta}", g_world(&mut it, &w), g_opt(opname.as_ref(), |n| it.n(n)), g_vars(&mut it, &vars)).unwrap();
        case_no += 1;
    }
    writeln!(out, "NAMES\t\t{}", serde_json::to_string(&it.names).unwrap()).unwrap();
    std::fs::write(format!("{}/c01.cases", a.out), out).unwrap();
}

//! C08 correspondence: derive-built schemas with every built-in validator on
//! every supported numeric / string / list type (one schema per numeric Rust
//! type, strict and fast validation mode, values fed as literals and as
//! variables), plus direct calls of the public validator functions with random
//! bounds.  Each case prints the validator configuration, the value *as parsed
//! by the real InputType::parse*, and what the real library did: resolver ran
//! (0), an error was reported for the field (1), panic (2), anything else (3).
use std::fmt::Write as _;
use std::panic::AssertUnwindSafe;
use std::sync::Mutex;
use std::sync::atomic::{AtomicUsize, Ordering};

use agv_harness::*;
use async_graphql::validators as av;
use async_graphql::*;
use async_graphql_value::{ConstValue, Value as QValue};

static RAN: AtomicUsize = AtomicUsize::new(0);
fn ran() -> bool {
    RAN.fetch_add(1, Ordering::SeqCst);
    true
}

// ------------------------------------------------------------ Gallina side
static REGEXES: Mutex<Vec<String>> = Mutex::new(Vec::new());
fn regex_id(p: &str) -> usize {
    let mut r = REGEXES.lock().unwrap();
    if let Some(i) = r.iter().position(|x| x == p) {
        return i;
    }
    r.push(p.to_string());
    r.len() - 1
}

#[derive(Clone, Copy, Debug, PartialEq)]
enum Bound {
    I(i64),
    F(f64),
}
#[derive(Clone, Debug)]
enum VK {
    Num(&'static str, Bound), // OMul | OMax | OMin
    Len(&'static str, u64),   // LMaxLength ...
    Regex(String),
    Items(bool, u64),
}
#[derive(Clone, Debug, Default)]
struct Cfg {
    kinds: Vec<VK>,
    list: bool,
}

fn g_bound(b: &Bound) -> String {
    match b {
        Bound::I(n) => format!("(BI {})", g_z(*n as i128)),
        Bound::F(f) => format!("(BF {}%N)", f.to_bits()),
    }
}
fn g_vk(k: &VK) -> String {
    match k {
        VK::Num(op, b) => format!("(KNum {op} {})", g_bound(b)),
        VK::Len(op, n) => format!("(KLen {op} {})", g_z(*n as i128)),
        VK::Regex(p) => format!("(KRegex {}%N)", regex_id(p)),
        VK::Items(mx, n) => format!("(KItems {} {})", g_bool(*mx), g_z(*n as i128)),
    }
}
fn g_slot(cfg: &Cfg, arg: &str) -> String {
    format!("({}, {}, {})", g_list(cfg.kinds.iter(), g_vk), g_bool(cfg.list), arg)
}
/// regex table: every (pattern of the cfg, string of the value) pair, answered by the regex crate
fn g_tbl(cfgs: &[&Cfg], strs: &[String]) -> String {
    let mut rows = vec![];
    for c in cfgs {
        for k in &c.kinds {
            if let VK::Regex(p) = k {
                for s in strs {
                    let m = regex::Regex::new(p).map(|r| r.is_match(s)).unwrap_or(false);
                    let row = format!("({}%N, {}, {})", regex_id(p), g_str(s), g_bool(m));
                    if !rows.contains(&row) {
                        rows.push(row);
                    }
                }
            }
        }
    }
    g_list(rows.iter(), |r| r.clone())
}

/// `maximum = 10 , list , regex = "^a"`  (stringify! of the attribute tokens)
fn parse_cfg(attr: &str) -> Cfg {
    let mut parts: Vec<String> = vec![];
    let (mut cur, mut in_str, mut esc) = (String::new(), false, false);
    for ch in attr.chars() {
        if in_str {
            cur.push(ch);
            if esc {
                esc = false;
            } else if ch == '\\' {
                esc = true;
            } else if ch == '"' {
                in_str = false;
            }
        } else if ch == '"' {
            in_str = true;
            cur.push(ch);
        } else if ch == ',' {
            parts.push(std::mem::take(&mut cur));
        } else {
            cur.push(ch);
        }
    }
    if !cur.trim().is_empty() {
        parts.push(cur);
    }
    let mut cfg = Cfg::default();
    for p in parts {
        let p = p.trim();
        if p == "list" {
            cfg.list = true;
            continue;
        }
        let (k, v) = p.split_once('=').unwrap_or_else(|| panic!("bad attr part {p:?}"));
        let (k, v) = (k.trim(), v.trim());
        let num = |v: &str| -> Bound {
            if v.contains('.') || v.contains('e') || v.contains('E') {
                Bound::F(v.parse::<f64>().unwrap())
            } else {
                Bound::I(v.parse::<i64>().unwrap())
            }
        };
        let us = |v: &str| v.parse::<u64>().unwrap();
        cfg.kinds.push(match k {
            "multiple_of" => VK::Num("OMul", num(v)),
            "maximum" => VK::Num("OMax", num(v)),
            "minimum" => VK::Num("OMin", num(v)),
            "max_length" => VK::Len("LMaxLength", us(v)),
            "min_length" => VK::Len("LMinLength", us(v)),
            "chars_max_length" => VK::Len("LCharsMax", us(v)),
            "chars_min_length" => VK::Len("LCharsMin", us(v)),
            "max_items" => VK::Items(true, us(v)),
            "min_items" => VK::Items(false, us(v)),
            "regex" => {
                let inner = &v[1..v.len() - 1];
                let mut s = String::new();
                let mut it = inner.chars();
                while let Some(c) = it.next() {
                    if c == '\\' {
                        match it.next() {
                            Some('n') => s.push('\n'),
                            Some('t') => s.push('\t'),
                            Some(o) => s.push(o),
                            None => {}
                        }
                    } else {
                        s.push(c);
                    }
                }
                VK::Regex(s)
            }
            _ => panic!("unknown validator {k}"),
        });
    }
    cfg
}

/// The parsed Rust value as the model's `arg` (what as_raw_value exposes).
trait GArg {
    fn garg(&self, strs: &mut Vec<String>) -> String;
}
macro_rules! garg_int {
    ($($t:ty),*) => {$( impl GArg for $t { fn garg(&self, _: &mut Vec<String>) -> String { format!("(ANum (NI {}))", g_z(*self as i128)) } } )*};
}
garg_int!(i8, i16, i32, i64, isize, u8, u16, u32, u64, usize);
impl GArg for f64 {
    fn garg(&self, _: &mut Vec<String>) -> String {
        format!("(ANum (NF {}%N))", self.to_bits())
    }
}
impl GArg for f32 {
    fn garg(&self, _: &mut Vec<String>) -> String {
        format!("(ANum (NF {}%N))", (*self as f64).to_bits())
    }
}
impl GArg for String {
    fn garg(&self, strs: &mut Vec<String>) -> String {
        if !strs.contains(self) {
            strs.push(self.clone());
        }
        format!("(AStr {})", g_str(self))
    }
}
impl<T: GArg> GArg for Option<T> {
    fn garg(&self, s: &mut Vec<String>) -> String {
        match self {
            Some(v) => v.garg(s),
            None => "ANone".into(),
        }
    }
}
impl<T: GArg> GArg for MaybeUndefined<T> {
    fn garg(&self, s: &mut Vec<String>) -> String {
        match self {
            MaybeUndefined::Value(v) => v.garg(s),
            _ => "ANone".into(),
        }
    }
}
impl<T: GArg> GArg for Box<T> {
    fn garg(&self, s: &mut Vec<String>) -> String {
        (**self).garg(s)
    }
}
impl<T: GArg> GArg for Vec<T> {
    fn garg(&self, s: &mut Vec<String>) -> String {
        format!("(AList {})", g_list(self.iter(), |x| x.garg(s)))
    }
}

fn garg_of<T: InputType + GArg>(v: Option<ConstValue>, strs: &mut Vec<String>) -> Option<String> {
    T::parse(v).ok().map(|x| x.garg(strs))
}

struct FieldInfo {
    name: &'static str,
    attr: &'static str,
    ty: String,
    garg: fn(Option<ConstValue>, &mut Vec<String>) -> Option<String>,
}

// ------------------------------------------------------------ the schemas
macro_rules! vq {
    ($q:ident { $( $f:ident ( $($t:tt)* ) : [ $($attr:tt)* ] ),* $(,)? }) => {
        pub struct $q;
        #[Object]
        impl $q {
            $( async fn $f(&self, #[graphql(validator($($attr)*))] v: $($t)*) -> bool { let _ = &v; ran() } )*
        }
        impl $q {
            fn fields() -> Vec<FieldInfo> {
                vec![ $( FieldInfo { name: stringify!($f), attr: stringify!($($attr)*),
                                     ty: <$($t)* as InputType>::qualified_type_name(), garg: garg_of::<$($t)*> } ),* ]
            }
        }
    };
}

macro_rules! numq {
    ($q:ident, $t:ident) => {
        vq!($q {
            max10($t): [maximum = 10], min10($t): [minimum = 10], mul3($t): [multiple_of = 3],
            max0($t): [maximum = 0], min0($t): [minimum = 0], max100($t): [maximum = 100],
            maxbig($t): [maximum = 9223372036854775807], minbig($t): [minimum = 9223372036854775807],
            mul0($t): [multiple_of = 0], mul1($t): [multiple_of = 1],
            rng($t): [minimum = 1, maximum = 100, multiple_of = 5],
            maxf($t): [maximum = 10.5], minf($t): [minimum = 10.5], mulf($t): [multiple_of = 2.5],
            maxf100($t): [maximum = 100.0], mulf3($t): [multiple_of = 3.0], mulf0($t): [multiple_of = 0.0],
            maxp53($t): [maximum = 9007199254740992.0], minp53($t): [minimum = 9007199254740994.0],
            maxe19($t): [maximum = 1e19], mine19($t): [minimum = 9223372036854775808.0],
            rngf($t): [minimum = 0.5, maximum = 99.5, multiple_of = 0.25],
        });
    };
}
numq!(QI8, i8);
numq!(QI16, i16);
numq!(QI32, i32);
numq!(QI64, i64);
numq!(QISize, isize);
numq!(QU8, u8);
numq!(QU16, u16);
numq!(QU32, u32);
numq!(QU64, u64);
numq!(QUSize, usize);
numq!(QF32, f32);
numq!(QF64, f64);

vq!(QStr {
    maxlen(String): [max_length = 5], minlen(String): [min_length = 3],
    cmax(String): [chars_max_length = 5], cmin(String): [chars_min_length = 3],
    maxlen0(String): [max_length = 0], minlen0(String): [min_length = 0],
    re(String): [regex = "^[0-9]+$"], rebad(String): [regex = "("], reany(String): [regex = "a.c"],
    both(String): [min_length = 2, max_length = 8, chars_max_length = 4, regex = "^a"],
    ostr(Option<String>): [max_length = 3, chars_min_length = 2],
    mustr(MaybeUndefined<String>): [min_length = 2],
    cmin4(String): [chars_min_length = 4], cmin6(String): [chars_min_length = 6], cmax4(String): [chars_max_length = 4],
    minlen8(String): [min_length = 8], maxlen8(String): [max_length = 8], cmin1(String): [chars_min_length = 1],
    allfour(String): [min_length = 4, max_length = 12, chars_min_length = 4, chars_max_length = 6],
});

vq!(QList {
    litems(Vec<i32>): [max_items = 3], mitems(Vec<i32>): [min_items = 2],
    lmax(Vec<i32>): [list, maximum = 10],
    lopt(Vec<Option<i64>>): [list, maximum = 10, min_items = 1],
    olist(Option<Vec<u64>>): [list, minimum = 5, max_items = 3],
    lstr(Vec<String>): [list, max_length = 3, max_items = 2],
    lre(Vec<String>): [list, regex = "^[0-9]+$", chars_min_length = 2],
    lmulf(Vec<f64>): [list, multiple_of = 0.5, maximum = 100],
    lmul(Vec<u64>): [list, multiple_of = 4, max_items = 4],
    lostr(Vec<Option<String>>): [list, min_length = 1, min_items = 1, max_items = 3],
    nolist(Option<Vec<i32>>): [min_items = 1, max_items = 2],
    lcmin4(Vec<String>): [list, chars_min_length = 4], lcmax4(Vec<String>): [list, chars_max_length = 4],
    lminmax(Vec<String>): [list, min_length = 4, max_length = 9],
    locmin(Option<Vec<Option<String>>>): [list, chars_min_length = 5, max_length = 16],
});

vq!(QWrap {
    opt(Option<i32>): [maximum = 10], optopt(Option<Option<i32>>): [minimum = 10],
    mu(MaybeUndefined<i32>): [maximum = 10, multiple_of = 2], bx(Box<i32>): [maximum = 10],
    optu(Option<u64>): [minimum = 10], optf(Option<f64>): [maximum = 100],
    optf32(Option<f32>): [maximum = 0.1, minimum = 0],
});

#[derive(InputObject)]
struct Inp {
    #[graphql(validator(maximum = 10))]
    a: i32,
    #[graphql(validator(min_length = 2, chars_max_length = 4))]
    b: String,
    #[graphql(validator(list, minimum = 1, max_items = 2))]
    c: Option<Vec<u32>>,
    #[graphql(validator(multiple_of = 2))]
    d: Option<f64>,
}
#[derive(InputObject)]
struct SInp {
    #[graphql(validator(chars_min_length = 4))]
    p: String,
    #[graphql(validator(min_length = 4))]
    q: String,
    #[graphql(validator(chars_max_length = 4))]
    r: String,
    #[graphql(validator(max_length = 8))]
    s: String,
    #[graphql(validator(list, chars_min_length = 4, chars_max_length = 5))]
    l: Option<Vec<String>>,
}
struct QInp;
#[Object]
impl QInp {
    async fn sinp(&self, v: SInp) -> bool {
        let _ = &v;
        ran()
    }
    async fn inp(&self, v: Inp) -> bool {
        let _ = &v;
        ran()
    }
    async fn two(&self, #[graphql(validator(maximum = 5))] a: i32, #[graphql(validator(minimum = 5.5))] b: u64) -> bool {
        let _ = (a, b);
        ran()
    }
}

impl QInp {
    fn fields() -> Vec<FieldInfo> {
        vec![]
    }
}

// ------------------------------------------------------------ running
fn jstr(s: &str) -> String {
    serde_json::to_string(s).unwrap()
}

/// the value the executor hands to InputType::parse for argument `arg` of the first field
fn effective(query: &str, vars: &Variables, arg: &str) -> Option<Option<ConstValue>> {
    let doc = async_graphql::parser::parse_query(query).ok()?;
    let op = doc.operations.iter().next()?.1;
    let field = match &op.node.selection_set.node.items.first()?.node {
        async_graphql::parser::types::Selection::Field(f) => &f.node,
        _ => return None,
    };
    match field.arguments.iter().find(|(k, _)| k.node.as_str() == arg) {
        None => Some(None),
        Some((_, v)) => {
            let mut omitted = false;
            let c = v.node.clone().into_const_with(|name| match vars.get(&name) {
                Some(x) => Ok::<_, ()>(x.clone()),
                None => {
                    omitted = true;
                    Ok(ConstValue::Null)
                }
            });
            if omitted && matches!(v.node, QValue::Variable(_)) {
                return Some(None);
            }
            Some(Some(c.ok()?))
        }
    }
}

fn exec<E: Executor>(schema: &E, field: &str, query: &str, vars: Variables) -> (u8, String) {
    let before = RAN.load(Ordering::SeqCst);
    let req = Request::new(query).variables(vars);
    let r = catch(AssertUnwindSafe(|| block_on(schema.execute(req))));
    match r {
        None => (2, "panic".into()),
        Some(resp) => {
            let did = RAN.load(Ordering::SeqCst) > before;
            let field_err = resp.errors.len() == 1
                && resp.errors[0].path.len() == 1
                && resp.errors[0].path[0] == PathSegment::Field(field.to_string());
            // rejected by the validation phase: no data, every error located in the query, none with a path
            let validation_err = !resp.errors.is_empty()
                && resp.data == ConstValue::Null
                && resp.errors.iter().all(|e| e.path.is_empty() && !e.locations.is_empty());
            if did && resp.errors.is_empty() {
                (0, "resolver ran".into())
            } else if !did && field_err {
                (1, format!("error: {}", resp.errors[0].message))
            } else if !did && validation_err {
                (1, format!("validation error: {}", resp.errors[0].message))
            } else {
                (3, format!("ran={did} errors={:?}", resp.errors.iter().map(|e| (&e.message, &e.path)).collect::<Vec<_>>()))
            }
        }
    }
}

struct Target {
    label: &'static str,
    fields: Vec<FieldInfo>,
    run: Box<dyn Fn(bool, &str, &str, Variables) -> (u8, String)>,
}

macro_rules! target {
    ($label:expr, $q:ident) => {{
        let strict = Schema::build($q, EmptyMutation, EmptySubscription).finish();
        let fast = Schema::build($q, EmptyMutation, EmptySubscription).validation_mode(ValidationMode::Fast).finish();
        Target {
            label: $label,
            fields: $q::fields(),
            run: Box::new(move |is_fast, f, q, v| if is_fast { exec(&fast, f, q, v) } else { exec(&strict, f, q, v) }),
        }
    }};
}

struct Out {
    buf: String,
    skipped: usize,
}

/// run one value through one field; `feed`: 0 literal, 1 variable
fn one_case(out: &mut Out, kind: &str, t: &Target, fi: &FieldInfo, cv: Option<&ConstValue>, fast: bool, var: bool) {
    let (query, vars) = match cv {
        None => (format!("{{ {} }}", fi.name), Variables::default()),
        Some(v) if var => (
            format!("query($v: {}) {{ {}(v: $v) }}", fi.ty, fi.name),
            Variables::from_json(serde_json::json!({ "v": v.clone().into_json().unwrap() })),
        ),
        Some(v) => (format!("{{ {}(v: {}) }}", fi.name, v), Variables::default()),
    };
    let Some(eff) = effective(&query, &vars, "v") else {
        out.skipped += 1;
        return;
    };
    let mut strs = vec![];
    let Some(arg) = (fi.garg)(eff, &mut strs) else {
        // outside the domain of the declared type: not this property (C07)
        out.skipped += 1;
        writeln!(out.buf, "SKIP\tout-of-domain\t{{\"text\":{}}}", jstr(&format!("[{}] {}", t.label, query))).unwrap();
        return;
    };
    let cfg = parse_cfg(fi.attr);
    let (code, what) = (t.run)(fast, fi.name, &query, vars.clone());
    let text = format!(
        "[{} {} {}] validator({}) {} {}",
        t.label,
        if fast { "fast" } else { "strict" },
        if var { "var" } else { "lit" },
        fi.attr,
        query,
        if var { serde_json::to_string(&vars).unwrap() } else { String::new() }
    );
    writeln!(
        out.buf,
        "{kind}\t({}, {}, [{}], {}%N)\t{{\"text\":{},\"impl\":{},\"nontrivial\":{}}}",
        g_tbl(&[&cfg], &strs),
        g_bool(!fast),
        g_slot(&cfg, &arg),
        code,
        jstr(&text),
        jstr(&what),
        code != 0
    )
    .unwrap();
}

// ------------------------------------------------------------ value pools
fn num_i(i: i128) -> Option<ConstValue> {
    if let Ok(x) = i64::try_from(i) {
        Some(ConstValue::Number(x.into()))
    } else if let Ok(x) = u64::try_from(i) {
        Some(ConstValue::Number(x.into()))
    } else {
        None
    }
}
fn num_f(f: f64) -> Option<ConstValue> {
    async_graphql::Number::from_f64(f).map(ConstValue::Number)
}

const P53: i128 = 1 << 53;
const P63: i128 = 1 << 63;
const P64: i128 = 1 << 64;

fn special_ints() -> Vec<i128> {
    let mut v = vec![
        0, 1, 2, 3, 4, 5, 6, 9, 10, 11, 12, 15, 20, 25, 50, 99, 100, 101, 126, 127, 128, 129, 254, 255, 256, 32767, 32768, 65535, 65536,
        (1 << 31) - 1, 1 << 31, (1 << 32) - 1, 1 << 32, P53 - 1, P53, P53 + 1, P53 + 2, P53 + 3, P53 + 4, 3 * (P53 / 2) + 1,
        P63 - 1025, P63 - 513, P63 - 512, P63 - 1, P63, P63 + 1, P63 + 1024, P63 + 1025, P63 + 2048, P64 - 1, P64 - 2, P64 - 3, P64 - 4, 10_000_000_000_000_000_000,
        9_999_999_999_999_999_999, 12_297_829_382_473_034_410,
    ];
    let neg: Vec<i128> = v.iter().filter(|x| **x <= P63).map(|x| -*x).collect();
    v.extend(neg);
    v
}
fn special_floats() -> Vec<f64> {
    vec![
        0.0, -0.0, 0.5, -0.5, 0.25, 0.1, 0.75, 1.5, 2.5, 5.0, 7.5, 9.5, 10.0, 10.25, 10.5, 10.75, 11.0, 99.5, 99.75, 100.0, 100.5, -100.5, 6.5, 3.0, 9.0,
        0.30000000000000004, 1e-7, 5e-324, 2.2250738585072014e-308, 9007199254740992.0, 9007199254740994.0, 9007199254740993.5, 4503599627370496.5,
        9223372036854775807.0, 9223372036854774784.0, 9223372036854777856.0, -9223372036854775808.0, -9223372036854777856.0, 1e19, 1.5e19, 1.8446744073709552e19, 1e30,
        -1e30, 1e300, -1e300, 1.7976931348623157e308, 3.4028234663852886e38, 3.4028235677973366e38, 0.10000000149011612, 16777217.0, 127.5, 255.5, -128.5, -0.9, 0.9,
    ]
}

fn rand_int(r: &mut Rng) -> i128 {
    match r.below(8) {
        0 => r.range(-20, 120) as i128,
        1 => r.range(-300, 300) as i128,
        2 => r.range(-70000, 70000) as i128,
        3 => (r.next() as i64) as i128,
        4 => r.next() as i128,
        5 => P53 + r.range(-8, 4096) as i128,
        6 => P63 + r.range(-4096, 4096) as i128,
        _ => P64 - 1 - r.below(5000) as i128,
    }
}
fn rand_float(r: &mut Rng) -> f64 {
    match r.below(8) {
        0 => r.range(-40, 240) as f64 / 2.0,
        1 => r.range(-400, 800) as f64 / 4.0,
        2 => r.range(-1000, 1000) as f64 / 10.0,
        3 => f64::from_bits(r.next()),
        4 => (P53 as f64) + (r.range(-8, 64) as f64),
        5 => (P63 as f64) * (1.0 + (r.range(-8, 8) as f64) * f64::EPSILON),
        6 => r.range(-100000, 100000) as f64 * 0.001,
        _ => rand_int(r) as f64,
    }
}

/// integer values around a field's bounds
fn near_bounds(cfg: &Cfg) -> (Vec<i128>, Vec<f64>) {
    let (mut i, mut f) = (vec![], vec![]);
    for k in &cfg.kinds {
        if let VK::Num(op, b) = k {
            match b {
                Bound::I(n) => {
                    let n = *n as i128;
                    i.extend([n - 1, n, n + 1, n + P64 - 1, n + P64, n + P64 + 1].into_iter().filter(|x| *x < P64));
                    f.extend([n as f64 - 0.5, n as f64 + 0.5, n as f64, -(n as f64) - 0.5]);
                    if *op == "OMul" && n != 0 {
                        i.extend([2 * n, 3 * n + 1, -n, -2 * n]);
                        f.extend([2.0 * n as f64 + 0.5, 0.25]);
                    }
                }
                Bound::F(x) => {
                    let fl = x.floor();
                    if fl.abs() < 1.9e19 {
                        let n = fl as i128;
                        i.extend([n - 1, n, n + 1, n + 2]);
                    }
                    f.extend([*x, f64::from_bits(x.to_bits() + 1), f64::from_bits(x.to_bits().max(1) - 1), x * 2.0, x * 3.0, x * 1.5, -x]);
                }
            }
        }
    }
    (i, f)
}

fn rand_string(r: &mut Rng) -> String {
    let alphabet: Vec<char> = "abc019 .-_\u{e9}\u{df}\u{4f60}\u{597d}\u{20ac}\u{1f600}\u{10ffff}\u{7ff}\u{800}\u{ffff}\u{10000}\u{7f}\u{80}Z".chars().collect();
    let n = match r.below(4) {
        0 => r.below(3),
        1 => r.below(7),
        _ => r.below(12),
    };
    (0..n).map(|_| *r.pick(&alphabet)).collect()
}
fn special_strings() -> Vec<String> {
    [
        "", "a", "ab", "abc", "abcd", "abcde", "abcdef", "123", "12a3", "0", "a c", "abc\nabc", "\u{4f60}\u{597d}", "\u{4f60}\u{597d}\u{554a}", "\u{55e8}\u{4f60}\u{597d}\u{554a}",
        "\u{e9}\u{e9}", "\u{e9}\u{e9}\u{e9}", "\u{1f600}", "\u{1f600}\u{1f600}", "a\u{1f600}", "\u{20ac}\u{20ac}", "aaaa\u{e9}", "aaaaa\u{e9}", "\u{10ffff}a", "a\"b\\c", "\u{7ff}\u{800}",
        "\u{ffff}\u{10000}", "\u{7f}\u{80}", "abcdefghi", "a\u{4f60}", "ab\u{4f60}c",
    ]
    .iter()
    .map(|s| s.to_string())
    .collect()
}

/// Strings around a length bound `b`: uniform 1-, 2-, 3- and 4-byte scalars and
/// mixtures, with char counts b-1, b, b+1 and byte lengths straddling b, 2b, 3b, 4b.
fn string_family(b: u64) -> Vec<String> {
    fn push(out: &mut Vec<String>, s: String) {
        if s.chars().count() <= 48 && !out.contains(&s) {
            out.push(s);
        }
    }
    let ch = ['a', '\u{e9}', '\u{4f60}', '\u{1f600}'];
    let b = b as i64;
    let mut out: Vec<String> = vec![];
    for (wi, c) in ch.iter().enumerate() {
        let w = wi as i64 + 1;
        let mut counts = vec![b - 1, b, b + 1];
        for k in 1..=4 {
            let base = (k * b + w - 1) / w;
            counts.extend([base - 1, base, base + 1]);
        }
        for n in counts {
            if n >= 0 {
                push(&mut out, std::iter::repeat(*c).take(n as usize).collect());
            }
        }
    }
    for n in [b - 1, b, b + 1] {
        if n < 0 {
            continue;
        }
        for pat in [[0usize, 3, 1, 2], [3, 3, 0, 3], [0, 0, 3, 0], [2, 3, 2, 3], [1, 1, 2, 3]] {
            push(&mut out, (0..n as usize).map(|i| ch[pat[i % 4]]).collect());
        }
    }
    for k in 1..=4 {
        for d in [-1, 0, 1] {
            let t = k * b + d;
            if t < 0 {
                continue;
            }
            let mut s1 = String::new();
            for _ in 0..t / 4 {
                s1.push(ch[3]);
            }
            for _ in 0..t % 4 {
                s1.push('a');
            }
            push(&mut out, s1);
            let mut s2 = String::new();
            let mut r = t;
            while r >= 3 {
                s2.push(ch[2]);
                r -= 3;
            }
            if r == 2 {
                s2.push(ch[1]);
            } else if r == 1 {
                s2.push('a');
            }
            push(&mut out, s2);
        }
    }
    out
}

fn len_bounds(cfg: &Cfg) -> Vec<u64> {
    let mut v = vec![];
    for k in &cfg.kinds {
        if let VK::Len(_, n) = k {
            if !v.contains(n) {
                v.push(*n);
            }
        }
    }
    v
}

/// the fixed string corpus of a field: the families of its bounds, then the special strings
fn string_corpus(cfg: &Cfg) -> Vec<String> {
    let mut out: Vec<String> = vec!["\u{1f600}\u{1f600}\u{1f600}".to_string()];
    for b in len_bounds(cfg) {
        for s in string_family(b) {
            if !out.contains(&s) {
                out.push(s);
            }
        }
    }
    for s in special_strings() {
        if !out.contains(&s) {
            out.push(s);
        }
    }
    out
}

fn values_for(t: &Target, fi: &FieldInfo, cfg: &Cfg, r: &mut Rng, corpus: bool) -> Vec<Option<ConstValue>> {
    let base = fi.ty.trim_matches(|c| c == '[' || c == ']' || c == '!').to_string();
    let is_list = fi.ty.starts_with('[');
    let nullable = !fi.ty.ends_with('!');
    let floaty = base == "Float";
    let scalar = |r: &mut Rng, cfg: &Cfg, corpus_ix: Option<usize>| -> Option<ConstValue> {
        if base == "String" {
            let sp = special_strings();
            return Some(ConstValue::String(match corpus_ix {
                Some(i) if i < sp.len() => sp[i].clone(),
                _ => match r.below(3) {
                    0 => r.pick(&sp).clone(),
                    1 => r.pick(&string_corpus(cfg)).clone(),
                    _ => rand_string(r),
                },
            }));
        }
        let (ni, nf) = near_bounds(cfg);
        let si = special_ints();
        let sf = special_floats();
        let mut pool_i: Vec<i128> = ni.clone();
        pool_i.extend([0, 1, -1, P53 + 1, P63 - 1, P63, P64 - 1, -P63, 127, 128, 255, 256]);
        let mut pool_f: Vec<f64> = nf.clone();
        pool_f.extend([0.0, -0.0, 100.5, -0.5, 6.5, 1e19, 1e300, 9223372036854775807.0, 0.1]);
        if let Some(i) = corpus_ix {
            if i < pool_i.len() {
                return num_i(pool_i[i]);
            }
            if floaty && i - pool_i.len() < pool_f.len() {
                return num_f(pool_f[i - pool_i.len()]);
            }
            return None;
        }
        match r.below(if floaty { 6 } else { 4 }) {
            0 => num_i(*r.pick(&pool_i)),
            1 => num_i(*r.pick(&si)),
            2 | 3 => num_i(rand_int(r)),
            4 => num_f(if r.chance(1, 2) { *r.pick(&pool_f) } else { *r.pick(&sf) }),
            _ => num_f(rand_float(r)),
        }
    };
    let _ = t;
    let mut out = vec![];
    if corpus && base == "String" {
        let pool = string_corpus(cfg);
        if is_list {
            out.push(Some(ConstValue::List(vec![])));
            for (i, x) in pool.iter().enumerate() {
                out.push(Some(ConstValue::List(vec![ConstValue::String(x.clone())])));
                if i % 3 == 0 {
                    out.push(Some(ConstValue::List(vec![ConstValue::String("abcd".into()), ConstValue::String(x.clone())])));
                }
                if i % 11 == 0 {
                    out.push(Some(ConstValue::List(vec![ConstValue::String(x.clone()), ConstValue::String("ab".into()), ConstValue::String(x.clone())])));
                }
            }
        } else {
            for x in pool {
                out.push(Some(ConstValue::String(x)));
            }
        }
        if nullable {
            out.push(Some(ConstValue::Null));
            out.push(None);
        }
    } else if corpus {
        if is_list {
            // fixed list shapes
            for len in [0usize, 1, 2, 3, 4, 5] {
                let mut items = vec![];
                for j in 0..len {
                    let x = scalar(r, cfg, Some((j * 7 + len) % 12)).or_else(|| scalar(r, cfg, Some(0)));
                    items.push(x.unwrap_or(ConstValue::Null));
                }
                out.push(Some(ConstValue::List(items)));
            }
        } else {
            for i in 0..64 {
                match scalar(r, cfg, Some(i)) {
                    Some(v) => out.push(Some(v)),
                    None => {
                        if base != "String" && i > 40 {
                            break;
                        }
                    }
                }
            }
        }
        if nullable {
            out.push(Some(ConstValue::Null));
            out.push(None);
        }
    } else if is_list {
        let len = r.below(6);
        let inner_nullable = fi.ty.contains("Int]") || fi.ty.contains("String]") || fi.ty.contains("Float]");
        let items = (0..len)
            .map(|_| if inner_nullable && r.chance(1, 4) { ConstValue::Null } else { scalar(r, cfg, None).unwrap_or(ConstValue::Number(7.into())) })
            .collect();
        if nullable && r.chance(1, 8) {
            out.push(Some(ConstValue::Null));
        } else {
            out.push(Some(ConstValue::List(items)));
        }
    } else if nullable && r.chance(1, 8) {
        out.push(if r.chance(1, 2) { None } else { Some(ConstValue::Null) });
    } else if let Some(v) = scalar(r, cfg, None) {
        out.push(Some(v));
    }
    out
}

// ------------------------------------------------------------ direct calls
fn code_of<T: InputType>(r: Option<Result<(), InputValueError<T>>>) -> u8 {
    match r {
        None => 2,
        Some(Ok(())) => 0,
        Some(Err(_)) => 1,
    }
}

macro_rules! direct_num {
    ($out:expr, $r:expr, $name:expr, $t:ty, $conv:expr) => {{
        // a value of the type
        let v: $t = $conv;
        let vi = (v as i128).clamp(-(1i128 << 70), 1i128 << 70);
        let vf = v as f64;
        let op = *$r.pick(&["OMax", "OMin", "OMul"]);
        let b = if $r.chance(1, 2) {
            let cand: [i128; 12] = [vi - 1, vi, vi + 1, vi - P64, vi - P64 + 1, vi - P64 - 1, 0, -1, 1, 3, $r.range(-50, 50) as i128, ($r.next() as i64) as i128];
            let mut n = *$r.pick(&cand);
            if i64::try_from(n).is_err() {
                n = ($r.next() as i64) as i128;
            }
            if op == "OMul" && $r.chance(2, 3) {
                n = *$r.pick(&[1i128, 2, 3, 4, 5, 7, 10, 16, -1, -2, -3, 0, 1 << 32, P63 - 1, -P63]);
            }
            Bound::I(n as i64)
        } else {
            let cand = [vf, vf + 0.5, vf - 0.5, f64::from_bits(vf.to_bits().wrapping_add(1)), f64::from_bits(vf.to_bits().wrapping_sub(1)), 0.0, -0.0, 2.5, 0.1, 3.0, -3.0,
                        P53 as f64, P63 as f64, -(P63 as f64), f64::INFINITY, f64::NEG_INFINITY, f64::NAN, rand_float($r), vf / 2.0, vf / 3.0, 0.25, 1.0];
            Bound::F(*$r.pick(&cand))
        };
        let code = match (op, b) {
            ("OMax", Bound::I(n)) => code_of(catch(AssertUnwindSafe(|| av::maximum(&v, n)))),
            ("OMin", Bound::I(n)) => code_of(catch(AssertUnwindSafe(|| av::minimum(&v, n)))),
            ("OMul", Bound::I(n)) => code_of(catch(AssertUnwindSafe(|| av::multiple_of(&v, n)))),
            ("OMax", Bound::F(n)) => code_of(catch(AssertUnwindSafe(|| av::maximum(&v, n)))),
            ("OMin", Bound::F(n)) => code_of(catch(AssertUnwindSafe(|| av::minimum(&v, n)))),
            (_, Bound::F(n)) => code_of(catch(AssertUnwindSafe(|| av::multiple_of(&v, n)))),
            _ => unreachable!(),
        };
        let cfg = Cfg { kinds: vec![VK::Num(op, b)], list: false };
        let mut strs = vec![];
        let arg = v.garg(&mut strs);
        writeln!(
            $out.buf,
            "FN\t([], false, [{}], {}%N)\t{{\"text\":{},\"impl\":\"{}\",\"nontrivial\":{}}}",
            g_slot(&cfg, &arg),
            code,
            jstr(&format!("validators::{}(&{:?}{}, {:?})", &op[1..].to_lowercase(), v, $name, b)),
            code,
            code != 0
        )
        .unwrap();
    }};
}

fn pick_in(r: &mut Rng, lo: i128, hi: i128) -> i128 {
    // boundary-dense choice in [lo, hi]
    let mut cands = vec![lo, lo + 1, hi, hi - 1, 0, 1, 2, 3, 10];
    cands.extend([P53 + 1, P53, P63 - 1, P63, P63 + 1, P64 - 1, -P53 - 1, -P63]);
    for _ in 0..16 {
        let x = if r.chance(1, 2) { rand_int(r) } else { *r.pick(&cands) };
        if x >= lo && x <= hi {
            return x;
        }
    }
    lo.max(0.min(hi))
}

static PATTERNS: [&str; 6] = ["^[0-9]+$", "a.c", "(", "^a", "\\p{Han}+", "^$"];

fn direct(out: &mut Out, r: &mut Rng) {
    match r.below(16) {
        0 => direct_num!(out, r, "i8", i8, pick_in(r, i8::MIN as i128, i8::MAX as i128) as i8),
        1 => direct_num!(out, r, "i16", i16, pick_in(r, i16::MIN as i128, i16::MAX as i128) as i16),
        2 => direct_num!(out, r, "i32", i32, pick_in(r, i32::MIN as i128, i32::MAX as i128) as i32),
        3 => direct_num!(out, r, "i64", i64, pick_in(r, i64::MIN as i128, i64::MAX as i128) as i64),
        4 => direct_num!(out, r, "isize", isize, pick_in(r, i64::MIN as i128, i64::MAX as i128) as isize),
        5 => direct_num!(out, r, "u8", u8, pick_in(r, 0, u8::MAX as i128) as u8),
        6 => direct_num!(out, r, "u16", u16, pick_in(r, 0, u16::MAX as i128) as u16),
        7 => direct_num!(out, r, "u32", u32, pick_in(r, 0, u32::MAX as i128) as u32),
        8 | 9 => direct_num!(out, r, "u64", u64, pick_in(r, 0, u64::MAX as i128) as u64),
        10 => direct_num!(out, r, "usize", usize, pick_in(r, 0, u64::MAX as i128) as usize),
        11 => direct_num!(out, r, "f32", f32, {
            let x = if r.chance(1, 2) { *r.pick(&special_floats()) } else { rand_float(r) };
            if r.chance(1, 40) { f32::NAN } else { x as f32 }
        }),
        12 | 13 => direct_num!(out, r, "f64", f64, {
            let x = if r.chance(1, 2) { *r.pick(&special_floats()) } else { rand_float(r) };
            if r.chance(1, 40) { *r.pick(&[f64::NAN, f64::INFINITY, f64::NEG_INFINITY]) } else { x }
        }),
        14 => {
            // strings
            let fam_b = *r.pick(&[1u64, 2, 3, 4, 5, 6, 8, 12]);
            let s = match r.below(4) {
                0 => r.pick(&special_strings()).clone(),
                1 => rand_string(r),
                _ => r.pick(&string_family(fam_b)).clone(),
            };
            let n = if r.chance(1, 2) {
                fam_b
            } else {
                *r.pick(&[0u64, 1, 2, 3, 4, 5, 6, 8, 12, 20, s.len() as u64, s.chars().count() as u64, s.len() as u64 + 1, (s.len() as u64).saturating_sub(1),
                          s.len() as u64 / 3, s.len() as u64 / 2, s.len() as u64 / 4, s.chars().count() as u64 + 1])
            };
            let (k, code) = match r.below(5) {
                0 => (VK::Len("LMaxLength", n), code_of(Some(av::max_length(&s, n as usize)))),
                1 => (VK::Len("LMinLength", n), code_of(Some(av::min_length(&s, n as usize)))),
                2 => (VK::Len("LCharsMax", n), code_of(Some(av::chars_max_length(&s, n as usize)))),
                3 => (VK::Len("LCharsMin", n), code_of(Some(av::chars_min_length(&s, n as usize)))),
                _ => {
                    let p = *r.pick(&PATTERNS);
                    (VK::Regex(p.to_string()), code_of(Some(av::regex(&s, p))))
                }
            };
            let cfg = Cfg { kinds: vec![k.clone()], list: false };
            let mut strs = vec![];
            let arg = s.garg(&mut strs);
            writeln!(
                out.buf,
                "FN\t({}, false, [{}], {}%N)\t{{\"text\":{},\"impl\":\"{}\",\"nontrivial\":{}}}",
                g_tbl(&[&cfg], &strs),
                g_slot(&cfg, &arg),
                code,
                jstr(&format!("validators::{:?}({:?})", k, s)),
                code,
                code != 0
            )
            .unwrap();
        }
        _ => {
            let len = r.below(7);
            let v: Vec<i32> = (0..len).map(|i| i as i32).collect();
            let n = r.below(8) as u64;
            let mx = r.chance(1, 2);
            let code = if mx { code_of(Some(av::max_items(&v, n as usize))) } else { code_of(Some(av::min_items(&v, n as usize))) };
            let cfg = Cfg { kinds: vec![VK::Items(mx, n)], list: false };
            let mut strs = vec![];
            let arg = v.garg(&mut strs);
            writeln!(
                out.buf,
                "FN\t([], false, [{}], {}%N)\t{{\"text\":{},\"impl\":\"{}\",\"nontrivial\":{}}}",
                g_slot(&cfg, &arg),
                code,
                jstr(&format!("validators::{}_items(len {}, {})", if mx { "max" } else { "min" }, len, n)),
                code,
                code != 0
            )
            .unwrap();
        }
    }
}

// ------------------------------------------------------------ multi-slot cases
fn inp_cases(out: &mut Out, r: &mut Rng, n: usize) {
    let t = target!("inp", QInp);
    let cfg_a = parse_cfg("maximum = 10");
    let cfg_b = parse_cfg("min_length = 2, chars_max_length = 4");
    let cfg_c = parse_cfg("list, minimum = 1, max_items = 2");
    let cfg_d = parse_cfg("multiple_of = 2");
    let cfg_ta = parse_cfg("maximum = 5");
    let cfg_tb = parse_cfg("minimum = 5.5");
    for i in 0..n {
        let fast = r.chance(1, 2);
        let var = r.chance(1, 2);
        if i % 3 == 2 {
            // two validated arguments on one field
            let a = *r.pick(&[4i64, 5, 6, -1, 100]);
            let b = *r.pick(&[5i128, 6, 0, P53 + 1, P64 - 1, P63]);
            let (query, vars) = if var {
                (
                    "query($a: Int!, $b: Int!) { two(a: $a, b: $b) }".to_string(),
                    Variables::from_json(serde_json::json!({"a": a, "b": b as u64})),
                )
            } else {
                (format!("{{ two(a: {a}, b: {b}) }}"), Variables::default())
            };
            let (Some(ea), Some(eb)) = (effective(&query, &vars, "a"), effective(&query, &vars, "b")) else { continue };
            let mut strs = vec![];
            let (Some(ga), Some(gb)) = (garg_of::<i32>(ea, &mut strs), garg_of::<u64>(eb, &mut strs)) else { continue };
            let (code, what) = (t.run)(fast, "two", &query, vars.clone());
            writeln!(
                out.buf,
                "REQ\t([], {}, [{}; {}], {}%N)\t{{\"text\":{},\"impl\":{},\"nontrivial\":{}}}",
                g_bool(!fast),
                g_slot(&cfg_ta, &ga),
                g_slot(&cfg_tb, &gb),
                code,
                jstr(&format!("[two {} {}] {} {}", if fast { "fast" } else { "strict" }, if var { "var" } else { "lit" }, query, serde_json::to_string(&vars).unwrap())),
                jstr(&what),
                code != 0
            )
            .unwrap();
            continue;
        }
        let a = *r.pick(&[9i64, 10, 11, 0, -5]);
        let b = r.pick(&["a", "ab", "abcd", "abcde", "\u{4f60}\u{597d}", "\u{1f600}", "\u{4f60}\u{597d}\u{554a}\u{55e8}\u{4f60}"]).to_string();
        let c: Option<Vec<u32>> = match r.below(5) {
            0 => None,
            1 => Some(vec![]),
            2 => Some(vec![1, 2]),
            3 => Some(vec![0, 2]),
            _ => Some(vec![1, 2, 3]),
        };
        let d: Option<f64> = *r.pick(&[None, Some(4.0), Some(0.0), Some(3.0), Some(2.5), Some(-6.0)]);
        let mut obj = serde_json::json!({"a": a, "b": b});
        if let Some(c) = &c {
            obj["c"] = serde_json::json!(c);
        } else if r.chance(1, 2) {
            obj["c"] = serde_json::Value::Null;
        }
        if let Some(d) = d {
            obj["d"] = serde_json::json!(d);
        }
        let cv = ConstValue::from_json(obj.clone()).unwrap();
        let (query, vars) = if var {
            ("query($v: Inp!) { inp(v: $v) }".to_string(), Variables::from_json(serde_json::json!({ "v": obj })))
        } else {
            (format!("{{ inp(v: {cv}) }}"), Variables::default())
        };
        let Some(Some(ConstValue::Object(eff))) = effective(&query, &vars, "v") else { continue };
        let mut strs = vec![];
        let get = |k: &str| eff.get(k).cloned();
        let (Some(ga), Some(gb), Some(gc), Some(gd)) = (
            garg_of::<i32>(get("a"), &mut strs),
            garg_of::<String>(get("b"), &mut strs),
            garg_of::<Option<Vec<u32>>>(get("c"), &mut strs),
            garg_of::<Option<f64>>(get("d"), &mut strs),
        ) else {
            continue;
        };
        let (code, what) = (t.run)(fast, "inp", &query, vars.clone());
        writeln!(
            out.buf,
            "REQ\t([], {}, [{}; {}; {}; {}], {}%N)\t{{\"text\":{},\"impl\":{},\"nontrivial\":{}}}",
            g_bool(!fast),
            g_slot(&cfg_a, &ga),
            g_slot(&cfg_b, &gb),
            g_slot(&cfg_c, &gc),
            g_slot(&cfg_d, &gd),
            code,
            jstr(&format!("[inp {} {}] {} {}", if fast { "fast" } else { "strict" }, if var { "var" } else { "lit" }, query, serde_json::to_string(&vars).unwrap())),
            jstr(&what),
            code != 0
        )
        .unwrap();
    }
}

/// string validators on input-object fields: one field at a time gets a corpus string, the others stay valid
fn sinp_cases(out: &mut Out, r: &mut Rng, random: usize) {
    let t = target!("sinp", QInp);
    let cfgs = [
        ("p", parse_cfg("chars_min_length = 4"), "abcd"),
        ("q", parse_cfg("min_length = 4"), "abcd"),
        ("r", parse_cfg("chars_max_length = 4"), "ab"),
        ("s", parse_cfg("max_length = 8"), "ab"),
    ];
    let cfg_l = parse_cfg("list, chars_min_length = 4, chars_max_length = 5");
    let mut jobs: Vec<(usize, String)> = vec![];
    for (i, (_, cfg, _)) in cfgs.iter().enumerate() {
        for x in string_corpus(cfg) {
            jobs.push((i, x));
        }
    }
    for x in string_corpus(&cfg_l) {
        jobs.push((4, x));
    }
    for _ in 0..random {
        jobs.push((r.below(5), if r.chance(1, 2) { rand_string(r) } else { r.pick(&string_family(4)).clone() }));
    }
    for (k, (which, x)) in jobs.into_iter().enumerate() {
        let fast = k % 2 == 0;
        let var = (k / 2) % 2 == 0;
        let mut obj = serde_json::json!({});
        for (i, (name, _, dflt)) in cfgs.iter().enumerate() {
            obj[*name] = serde_json::json!(if i == which { x.as_str() } else { *dflt });
        }
        if which == 4 {
            obj["l"] = serde_json::json!(["abcd", x]);
        } else if k % 5 == 0 {
            obj["l"] = serde_json::Value::Null;
        }
        let cv = ConstValue::from_json(obj.clone()).unwrap();
        let (query, vars) = if var {
            ("query($v: SInp!) { sinp(v: $v) }".to_string(), Variables::from_json(serde_json::json!({ "v": obj })))
        } else {
            (format!("{{ sinp(v: {cv}) }}"), Variables::default())
        };
        let Some(Some(ConstValue::Object(eff))) = effective(&query, &vars, "v") else { continue };
        let mut strs = vec![];
        let mut slots = vec![];
        let mut ok = true;
        for (name, cfg, _) in cfgs.iter() {
            match garg_of::<String>(eff.get(*name).cloned(), &mut strs) {
                Some(g) => slots.push(g_slot(cfg, &g)),
                None => ok = false,
            }
        }
        match garg_of::<Option<Vec<String>>>(eff.get("l").cloned(), &mut strs) {
            Some(g) => slots.push(g_slot(&cfg_l, &g)),
            None => ok = false,
        }
        if !ok {
            continue;
        }
        let (code, what) = (t.run)(fast, "sinp", &query, vars.clone());
        writeln!(
            out.buf,
            "REQ\t([], {}, [{}], {}%N)\t{{\"text\":{},\"impl\":{},\"nontrivial\":{}}}",
            g_bool(!fast),
            slots.join("; "),
            code,
            jstr(&format!("[sinp {} {}] {} {}", if fast { "fast" } else { "strict" }, if var { "var" } else { "lit" }, query, serde_json::to_string(&vars).unwrap())),
            jstr(&what),
            code != 0
        )
        .unwrap();
    }
}

fn main() {
    let a = parse_args();
    let mut rng = Rng::new(a.seed);
    let mut out = Out { buf: String::new(), skipped: 0 };
    let targets = vec![
        target!("i8", QI8),
        target!("i16", QI16),
        target!("i32", QI32),
        target!("i64", QI64),
        target!("isize", QISize),
        target!("u8", QU8),
        target!("u16", QU16),
        target!("u32", QU32),
        target!("u64", QU64),
        target!("usize", QUSize),
        target!("f32", QF32),
        target!("f64", QF64),
        target!("str", QStr),
        target!("list", QList),
        target!("wrap", QWrap),
    ];
    // fixed corpus: every field of every schema, values at / around its bounds and the witnesses
    let mut k = 0usize;
    for t in &targets {
        for fi in &t.fields {
            let cfg = parse_cfg(fi.attr);
            let vals = values_for(t, fi, &cfg, &mut rng, true);
            for v in vals {
                k += 1;
                let fast = k % 2 == 0;
                let var = (k / 2) % 2 == 0;
                one_case(&mut out, "REQ", t, fi, v.as_ref(), fast, var && v.is_some());
            }
        }
    }
    inp_cases(&mut out, &mut rng, 60);
    sinp_cases(&mut out, &mut rng, a.n / 10);
    // random requests
    for _ in 0..a.n {
        let t = rng.pick(&targets);
        let fi = rng.pick(&t.fields);
        let cfg = parse_cfg(fi.attr);
        let fast = rng.chance(1, 2);
        let var = rng.chance(1, 2);
        for v in values_for(t, fi, &cfg, &mut rng, false) {
            one_case(&mut out, "REQ", t, fi, v.as_ref(), fast, var && v.is_some());
        }
    }
    inp_cases(&mut out, &mut rng, a.n / 10);
    // direct calls of the public validator functions
    for _ in 0..a.n * 4 {
        direct(&mut out, &mut rng);
    }
    std::fs::write(format!("{}/c08.cases", a.out), out.buf).unwrap();
    eprintln!("skipped (outside the domain of the declared type): {}", out.skipped);
}

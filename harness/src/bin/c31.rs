//! C31 correspondence: random request histories (registrations, hash-only
//! lookups, mismatched hashes, wrong versions, malformed payloads, plain
//! requests) against the REAL ApolloPersistedQueries extension, with
//! LruCacheStorage (capacity 1-4) and with a harness CacheStorage whose
//! evictions are driven by the generator and announced to the model.
//! The executed document is observed by a logging resolver and the response.
use std::collections::HashMap;
use std::fmt::Write as _;
use std::sync::{Arc, Mutex};

use agv_harness::*;
use async_graphql::extensions::apollo_persisted_queries::{ApolloPersistedQueries, CacheStorage, LruCacheStorage};
use async_graphql::parser::types::ExecutableDocument;
use async_graphql::*;

// ---------------------------------------------------------------- sha-256 --
// Own implementation (FIPS 180-4), independent of the sha2 crate the library uses.
fn sha256_hex(data: &[u8]) -> String {
    const K: [u32; 64] = [
        0x428a2f98, 0x71374491, 0xb5c0fbcf, 0xe9b5dba5, 0x3956c25b, 0x59f111f1, 0x923f82a4, 0xab1c5ed5, 0xd807aa98, 0x12835b01,
        0x243185be, 0x550c7dc3, 0x72be5d74, 0x80deb1fe, 0x9bdc06a7, 0xc19bf174, 0xe49b69c1, 0xefbe4786, 0x0fc19dc6, 0x240ca1cc,
        0x2de92c6f, 0x4a7484aa, 0x5cb0a9dc, 0x76f988da, 0x983e5152, 0xa831c66d, 0xb00327c8, 0xbf597fc7, 0xc6e00bf3, 0xd5a79147,
        0x06ca6351, 0x14292967, 0x27b70a85, 0x2e1b2138, 0x4d2c6dfc, 0x53380d13, 0x650a7354, 0x766a0abb, 0x81c2c92e, 0x92722c85,
        0xa2bfe8a1, 0xa81a664b, 0xc24b8b70, 0xc76c51a3, 0xd192e819, 0xd6990624, 0xf40e3585, 0x106aa070, 0x19a4c116, 0x1e376c08,
        0x2748774c, 0x34b0bcb5, 0x391c0cb3, 0x4ed8aa4a, 0x5b9cca4f, 0x682e6ff3, 0x748f82ee, 0x78a5636f, 0x84c87814, 0x8cc70208,
        0x90befffa, 0xa4506ceb, 0xbef9a3f7, 0xc67178f2,
    ];
    let mut h: [u32; 8] = [0x6a09e667, 0xbb67ae85, 0x3c6ef372, 0xa54ff53a, 0x510e527f, 0x9b05688c, 0x1f83d9ab, 0x5be0cd19];
    let mut msg = data.to_vec();
    let bitlen = (data.len() as u64).wrapping_mul(8);
    msg.push(0x80);
    while msg.len() % 64 != 56 {
        msg.push(0);
    }
    msg.extend_from_slice(&bitlen.to_be_bytes());
    for chunk in msg.chunks(64) {
        let mut w = [0u32; 64];
        for i in 0..16 {
            w[i] = u32::from_be_bytes([chunk[4 * i], chunk[4 * i + 1], chunk[4 * i + 2], chunk[4 * i + 3]]);
        }
        for i in 16..64 {
            let s0 = w[i - 15].rotate_right(7) ^ w[i - 15].rotate_right(18) ^ (w[i - 15] >> 3);
            let s1 = w[i - 2].rotate_right(17) ^ w[i - 2].rotate_right(19) ^ (w[i - 2] >> 10);
            w[i] = w[i - 16].wrapping_add(s0).wrapping_add(w[i - 7]).wrapping_add(s1);
        }
        let mut v = h;
        for i in 0..64 {
            let s1 = v[4].rotate_right(6) ^ v[4].rotate_right(11) ^ v[4].rotate_right(25);
            let ch = (v[4] & v[5]) ^ (!v[4] & v[6]);
            let t1 = v[7].wrapping_add(s1).wrapping_add(ch).wrapping_add(K[i]).wrapping_add(w[i]);
            let s0 = v[0].rotate_right(2) ^ v[0].rotate_right(13) ^ v[0].rotate_right(22);
            let maj = (v[0] & v[1]) ^ (v[0] & v[2]) ^ (v[1] & v[2]);
            let t2 = s0.wrapping_add(maj);
            v[7] = v[6];
            v[6] = v[5];
            v[5] = v[4];
            v[4] = v[3].wrapping_add(t1);
            v[3] = v[2];
            v[2] = v[1];
            v[1] = v[0];
            v[0] = t1.wrapping_add(t2);
        }
        for i in 0..8 {
            h[i] = h[i].wrapping_add(v[i]);
        }
    }
    h.iter().map(|x| format!("{x:08x}")).collect()
}

// ------------------------------------------------------------ interner -----
/// strings as N: 0 = "", 1 = "version", 2 = "sha256Hash", 3 = reserved (never a string)
struct Strs {
    map: HashMap<String, u64>,
    names: Vec<String>,
}
impl Strs {
    fn new() -> Self {
        let mut s = Strs { map: HashMap::new(), names: vec![] };
        for x in ["", "version", "sha256Hash", "\u{0}reserved"] {
            s.id(x);
        }
        s
    }
    fn id(&mut self, s: &str) -> u64 {
        if let Some(v) = self.map.get(s) {
            return *v;
        }
        let v = self.names.len() as u64;
        self.map.insert(s.to_string(), v);
        self.names.push(s.to_string());
        v
    }
    fn n(&mut self, s: &str) -> String {
        format!("{}%N", self.id(s))
    }
}

// ------------------------------------------------------------- payloads ----
#[derive(Clone, Debug)]
enum J {
    Null,
    Bool(bool),
    Int(i128),
    Float(f64),
    Str(String),
    List(Vec<J>),
    Obj(Vec<(String, J)>),
}

impl J {
    fn to_value(&self) -> Value {
        match self {
            J::Null => Value::Null,
            J::Bool(b) => Value::Boolean(*b),
            J::Int(i) => {
                if *i >= 0 {
                    Value::Number(Number::from(*i as u64))
                } else {
                    Value::Number(Number::from(*i as i64))
                }
            }
            J::Float(f) => Value::Number(Number::from_f64(*f).unwrap()),
            J::Str(s) => Value::String(s.clone()),
            J::List(l) => Value::List(l.iter().map(|x| x.to_value()).collect()),
            J::Obj(l) => {
                let mut m = indexmap::IndexMap::new();
                for (k, v) in l {
                    m.insert(Name::new(k), v.to_value());
                }
                Value::Object(m)
            }
        }
    }
    fn g(&self, st: &mut Strs) -> String {
        match self {
            J::Null => "JNull".into(),
            J::Bool(b) => format!("(JBool {})", g_bool(*b)),
            J::Int(i) => format!("(JInt {})", g_z(*i)),
            J::Float(_) => "JFloat".into(),
            J::Str(s) => format!("(JStr {})", st.n(s)),
            J::List(l) => format!("(JList {})", g_list(l.iter(), |x| x.g(st))),
            J::Obj(l) => {
                // IndexMap semantics: a repeated key keeps its first position, last value
                let mut keys: Vec<&String> = vec![];
                let mut vals: HashMap<&String, &J> = HashMap::new();
                for (k, v) in l {
                    if !keys.contains(&k) {
                        keys.push(k);
                    }
                    vals.insert(k, v);
                }
                format!("(JObj {})", g_list(keys.iter(), |k| format!("({}, {})", st.n(k), vals[*k].g(st))))
            }
        }
    }
    fn show(&self) -> String {
        serde_json::to_string(&self.to_value()).unwrap()
    }
}

fn pq(version: i128, hash: &str) -> J {
    J::Obj(vec![("version".into(), J::Int(version)), ("sha256Hash".into(), J::Str(hash.into()))])
}

/// payloads around the accepted shape; `h` a hash string to embed
fn odd_payload(r: &mut Rng, h: &str) -> J {
    let hs = || J::Str(h.to_string());
    match r.below(24) {
        0 => J::Null,
        1 => J::Bool(true),
        2 => J::Str(h.to_string()),
        3 => J::Int(1),
        4 => J::Float(1.5),
        5 => J::List(vec![]),
        6 => J::List(vec![J::Int(1)]),
        7 => J::List(vec![J::Int(1), hs()]),
        8 => J::List(vec![J::Int(1), hs(), J::Int(2)]),
        9 => J::List(vec![hs(), J::Int(1)]),
        10 => J::Obj(vec![]),
        11 => J::Obj(vec![("version".into(), J::Int(1))]),
        12 => J::Obj(vec![("sha256Hash".into(), hs())]),
        13 => J::Obj(vec![("version".into(), J::Str("1".into())), ("sha256Hash".into(), hs())]),
        14 => J::Obj(vec![("version".into(), J::Float(1.0)), ("sha256Hash".into(), hs())]),
        15 => J::Obj(vec![("version".into(), J::Int(1)), ("sha256Hash".into(), J::Null)]),
        16 => J::Obj(vec![("version".into(), J::Int(2147483648)), ("sha256Hash".into(), hs())]),
        17 => J::Obj(vec![("sha256Hash".into(), hs()), ("extra".into(), J::List(vec![J::Int(5)])), ("version".into(), J::Int(1))]),
        18 => J::Obj(vec![("version".into(), J::Int(-2147483649)), ("sha256Hash".into(), hs())]),
        19 => J::Obj(vec![("version".into(), J::Int(1)), ("sha256Hash".into(), J::List(vec![hs()]))]),
        20 => J::Obj(vec![("Version".into(), J::Int(1)), ("sha256hash".into(), hs())]),
        21 => J::Obj(vec![("version".into(), J::Bool(true)), ("sha256Hash".into(), hs())]),
        22 => J::Obj(vec![("version".into(), J::Int(1)), ("sha256Hash".into(), J::Int(7))]),
        _ => J::List(vec![J::Float(1.0), hs()]),
    }
}

// ---------------------------------------------------------------- schema ---
type Log = Arc<Mutex<Vec<String>>>;
struct Query;

#[Object]
impl Query {
    async fn v(&self, ctx: &Context<'_>, n: Option<i32>) -> i32 {
        if let Ok(l) = ctx.data::<Log>() {
            l.lock().unwrap().push(format!("v({n:?})"));
        }
        n.unwrap_or(-1)
    }
    async fn w(&self, ctx: &Context<'_>) -> String {
        if let Ok(l) = ctx.data::<Log>() {
            l.lock().unwrap().push("w".into());
        }
        "w".into()
    }
}

// ---------------------------------------------------- harness CacheStorage --
#[derive(Default)]
struct MapInner {
    map: HashMap<String, ExecutableDocument>,
    keep_old: bool,
    sets: usize,
    gets: usize,
}
#[derive(Clone, Default)]
struct MapStorage(Arc<Mutex<MapInner>>);

#[async_trait::async_trait]
impl CacheStorage for MapStorage {
    async fn get(&self, key: String) -> Option<ExecutableDocument> {
        let mut g = self.0.lock().unwrap();
        g.gets += 1;
        g.map.get(&key).cloned()
    }
    async fn set(&self, key: String, query: ExecutableDocument) {
        let mut g = self.0.lock().unwrap();
        g.sets += 1;
        if g.keep_old && g.map.contains_key(&key) {
            return;
        }
        g.map.insert(key, query);
    }
}

// --------------------------------------------------------------- running ---
#[derive(Clone, Debug, PartialEq)]
enum Res {
    Exec(String), // canonical outcome of the executed document
    ParseErr,
    Malformed,
    Version,
    NotFound,
    Mismatch,
}

fn outcome_string(resp: &Response, log: &Log) -> String {
    format!("{}|{:?}", serde_json::to_string(resp).unwrap(), log.lock().unwrap())
}

fn run_req<E: Executor>(schema: &E, query: &str, ext: Option<&J>) -> Res {
    let log: Log = Default::default();
    let mut req = Request::new(query).data(log.clone());
    if let Some(j) = ext {
        req.extensions.insert("persistedQuery".to_string(), j.to_value());
    }
    let resp = block_on(schema.execute(req));
    let ran_nothing = log.lock().unwrap().is_empty() && resp.data == Value::Null && resp.errors.len() == 1;
    if ran_nothing {
        let e = &resp.errors[0];
        let bare = e.locations.is_empty() && e.path.is_empty();
        if bare && e.message == "PersistedQueryNotFound" {
            return Res::NotFound;
        }
        if bare && e.message == "provided sha does not match query" {
            return Res::Mismatch;
        }
        if bare && e.message == "Invalid \"PersistedQuery\" extension configuration." {
            return Res::Malformed;
        }
        if bare && e.message.starts_with("Only the \"PersistedQuery\" extension of version \"1\" is supported") {
            return Res::Version;
        }
        // the request's own text does not parse
        if let Err(pe) = async_graphql::parser::parse_query(query) {
            let se: ServerError = pe.into();
            if se.message == e.message && se.locations == e.locations {
                return Res::ParseErr;
            }
        }
    }
    Res::Exec(outcome_string(&resp, &log))
}

struct Outs {
    map: HashMap<String, u64>,
    list: Vec<String>,
}
impl Outs {
    fn id(&mut self, s: &str) -> u64 {
        if let Some(v) = self.map.get(s) {
            return *v;
        }
        let v = self.list.len() as u64;
        self.map.insert(s.to_string(), v);
        self.list.push(s.to_string());
        v
    }
}

fn g_res(r: &Res, outs: &mut Outs) -> String {
    match r {
        Res::Exec(o) => format!("(RExec {}%N)", outs.id(o)),
        Res::ParseErr => "RParseErr".into(),
        Res::Malformed => "(RErr EMalformed)".into(),
        Res::Version => "(RErr EVersion)".into(),
        Res::NotFound => "(RErr ENotFound)".into(),
        Res::Mismatch => "(RErr EMismatch)".into(),
    }
}

fn show_res(r: &Res) -> String {
    match r {
        Res::Exec(o) => format!("exec<{}>", &o[..o.len().min(60)]),
        x => format!("{x:?}"),
    }
}

#[derive(Clone)]
struct Step {
    evict: Vec<String>,
    query: String,
    ext: Option<J>,
}

fn text_pool(r: &mut Rng, big: bool) -> Vec<String> {
    let mut v: Vec<String> = vec![];
    let n = if big { 90 + r.below(80) } else { 3 + r.below(6) };
    for i in 0..n {
        let k = if big { i as i64 } else { r.range(0, 9) };
        v.push(match r.below(if big { 3 } else { 9 }) {
            0 => format!("{{ v(n: {k}) }}"),
            1 => format!("{{v(n:{k})}}"),
            2 => format!("query Q{k} {{ a: v(n: {k}) w }}"),
            3 => format!("{{ v(n: {k}) v2: v(n: {}) }}", k + 1),
            4 => "{ w }".to_string(),
            5 => format!("{{ nosuch{k} }}"),               // parses, fails validation
            6 => format!("{{ v(n: {k} }}"),                 // does not parse
            7 => format!("query A {{ v(n: {k}) }} query B {{ w }}"), // needs an operation name
            _ => format!("  {{ v(n: {k}) }}\n"),
        });
    }
    v.sort();
    v.dedup();
    r.shuffle(&mut v);
    v
}

fn mangle_hash(r: &mut Rng, h: &str) -> String {
    match r.below(5) {
        0 => h.to_uppercase(),
        1 => h[..63].to_string(),
        2 => format!("{h}0"),
        3 => "def".to_string(),
        _ => {
            let mut b = h.as_bytes().to_vec();
            let i = r.below(b.len());
            b[i] = if b[i] == b'0' { b'1' } else { b'0' };
            String::from_utf8(b).unwrap()
        }
    }
}

fn gen_history(r: &mut Rng, pool: &[String], len: usize) -> Vec<(String, Option<J>)> {
    let mut h = vec![];
    let hash = |t: &str| sha256_hex(t.as_bytes());
    for _ in 0..len {
        let t = r.pick(pool).clone();
        let u = r.pick(pool).clone();
        let k = r.below(100);
        let step = if k < 36 {
            (t.clone(), Some(pq(1, &hash(&t)))) // registration
        } else if k < 66 {
            (String::new(), Some(pq(1, &hash(&t)))) // hash-only
        } else if k < 70 {
            (String::new(), Some(pq(1, &mangle_hash(r, &hash(&t))))) // hash-only, unknown hash
        } else if k < 78 {
            // query does not match its hash
            let hh = if r.chance(1, 2) && u != t { hash(&u) } else { mangle_hash(r, &hash(&t)) };
            (t.clone(), Some(pq(1, &hh)))
        } else if k < 86 {
            // unsupported version, with a text or hash-only
            let ver = *r.pick(&[0i128, 2, -1, 2147483647, -2147483648, 10]);
            if r.chance(1, 2) { (t.clone(), Some(pq(ver, &hash(&t)))) } else { (String::new(), Some(pq(ver, &hash(&t)))) }
        } else if k < 96 {
            let p = odd_payload(r, &hash(&t));
            if r.chance(1, 2) { (t.clone(), Some(p)) } else { (String::new(), Some(p)) }
        } else if k < 98 {
            (t.clone(), None)
        } else {
            (String::new(), None)
        };
        h.push(step);
    }
    h
}

enum Backend {
    Lru(usize),
    Custom(bool),
}

fn main() {
    assert_eq!(sha256_hex(b"{ value }"), "854174ebed716fe24fd6659c30290aecd9bc1d17dc4f47939a1848a1b8ed3c6b");
    assert_eq!(sha256_hex(b""), "e3b0c44298fc1c149afbf4c8996fb92427ae41e4649b934ca495991b7852b855");
    let a = parse_args();
    let mut rng = Rng::new(a.seed);
    let mut out = String::new();
    let mut st = Strs::new();
    let mut outs = Outs { map: HashMap::new(), list: vec![] };
    let plain = Schema::build(Query, EmptyMutation, EmptySubscription).finish();

    // ---- payload decoding alone (fixed corpus: every odd payload shape) ----
    {
        let s = Schema::build(Query, EmptyMutation, EmptySubscription).extension(ApolloPersistedQueries::new(LruCacheStorage::new(4))).finish();
        let h = sha256_hex(b"{ w }");
        let mut seen = std::collections::HashSet::new();
        let mut r2 = Rng::new(7);
        let mut payloads = vec![pq(1, &h), pq(2, &h), pq(0, "x")];
        for _ in 0..400 {
            payloads.push(odd_payload(&mut r2, &h));
        }
        for p in payloads {
            if !seen.insert(p.show()) {
                continue;
            }
            let res = run_req(&s, "", Some(&p));
            let got = res != Res::Malformed;
            writeln!(
                out,
                "DEC\t({}, {})\t{{\"text\":{},\"impl\":{},\"nontrivial\":true}}",
                p.g(&mut st),
                g_bool(got),
                serde_json::to_string(&p.show()).unwrap(),
                serde_json::to_string(&show_res(&res)).unwrap()
            )
            .unwrap();
        }
    }

    // ---- histories ----
    let mut case_no = 0usize;
    while case_no < a.n {
        // a few long histories over many texts (LRU evictions need > 32 entries per bucket)
        let big = case_no % 40 == 7;
        let backend = match case_no % 4 {
            0 | 1 => Backend::Lru(1 + rng.below(4)),
            2 => Backend::Custom(false),
            _ => Backend::Custom(true),
        };
        let backend = if big { Backend::Lru(1 + rng.below(4)) } else { backend };
        let pool = text_pool(&mut rng, big);
        let len = if big { 300 + rng.below(200) } else if case_no < 8 { 4 + case_no } else { 3 + rng.below(38) };
        let mut hist = gen_history(&mut rng, &pool, len);
        if case_no == 0 {
            // the library's own test, then a mismatch that must not register
            let t = "{ v(n: 1) }".to_string();
            let u = "{ v(n: 2) }".to_string();
            hist = vec![
                (t.clone(), Some(pq(1, &sha256_hex(t.as_bytes())))),
                (String::new(), Some(pq(1, &sha256_hex(t.as_bytes())))),
                (String::new(), Some(pq(1, "def"))),
                (u.clone(), Some(pq(1, &sha256_hex(t.as_bytes())))),
                (String::new(), Some(pq(1, &sha256_hex(t.as_bytes())))),
                (String::new(), Some(pq(1, &sha256_hex(u.as_bytes())))),
                (u.clone(), Some(pq(2, &sha256_hex(u.as_bytes())))),
                (String::new(), Some(pq(1, &sha256_hex(u.as_bytes())))),
            ];
        }
        // table: sha and parse of every text used, outcome of plain execution
        let mut texts: Vec<String> = hist.iter().map(|s| s.0.clone()).collect();
        texts.sort();
        texts.dedup();
        let mut table = vec![];
        for t in &texts {
            let h = sha256_hex(t.as_bytes());
            let parsed = async_graphql::parser::parse_query(t).is_ok();
            let p = if parsed {
                match run_req(&plain, t, None) {
                    Res::Exec(o) => Some(outs.id(&o)),
                    other => panic!("plain execution of a parseable text gave {other:?}"),
                }
            } else {
                None
            };
            table.push(format!("({}, ({}, {}))", st.n(t), st.n(&h), g_opt(p, |x| format!("{x}%N"))));
        }
        // run the history on the real extension
        let custom = MapStorage::default();
        let mut steps: Vec<(Step, Res)> = vec![];
        let (gb, bname) = match &backend {
            Backend::Lru(c) => ("BLru".to_string(), format!("lru{c}")),
            Backend::Custom(k) => (format!("(BCustom {})", g_bool(*k)), format!("map keep_old={k}")),
        };
        enum Sch {
            L(Schema<Query, EmptyMutation, EmptySubscription>),
        }
        let Sch::L(schema) = match &backend {
            Backend::Lru(c) => Sch::L(Schema::build(Query, EmptyMutation, EmptySubscription).extension(ApolloPersistedQueries::new(LruCacheStorage::new(*c))).finish()),
            Backend::Custom(k) => {
                custom.0.lock().unwrap().keep_old = *k;
                Sch::L(Schema::build(Query, EmptyMutation, EmptySubscription).extension(ApolloPersistedQueries::new(custom.clone())).finish())
            }
        };
        let mut hits = 0usize;
        let mut lost = 0usize;
        let mut registered = std::collections::HashSet::new();
        let mut kinds = std::collections::HashSet::new();
        for (q, e) in &hist {
            // eviction oracle of the harness storage
            let mut evict = vec![];
            if let Backend::Custom(_) = backend {
                let mut g = custom.0.lock().unwrap();
                let mut keys: Vec<String> = g.map.keys().cloned().collect();
                keys.sort();
                for k in keys {
                    if rng.chance(1, 7) {
                        g.map.remove(&k);
                        evict.push(k);
                    }
                }
                if rng.chance(1, 10) {
                    let k = sha256_hex(rng.pick(&pool).as_bytes()); // usually absent
                    g.map.remove(&k);
                    if !evict.contains(&k) {
                        evict.push(k);
                    }
                }
            }
            let res = run_req(&schema, q, e.as_ref());
            if q.is_empty() && matches!(res, Res::Exec(_)) {
                hits += 1;
            }
            if let Some(J::Obj(kv)) = e {
                let hh = kv.iter().find(|x| x.0 == "sha256Hash").and_then(|x| if let J::Str(s) = &x.1 { Some(s.clone()) } else { None });
                if let Some(hh) = hh {
                    if !q.is_empty() && matches!(res, Res::Exec(_)) {
                        registered.insert(hh);
                    } else if q.is_empty() && res == Res::NotFound && registered.contains(&hh) {
                        lost += 1;
                    }
                }
            }
            kinds.insert(std::mem::discriminant(&res));
            steps.push((Step { evict, query: q.clone(), ext: e.clone() }, res));
        }
        let gsteps = g_list(steps.iter(), |(s, res)| {
            format!(
                "({}, {{| rq_query := {}; rq_ext := {} |}}, {})",
                g_list(s.evict.iter(), |k| st.n(k)),
                st.n(&s.query),
                g_opt(s.ext.as_ref(), |j| j.g(&mut st)),
                g_res(res, &mut outs)
            )
        });
        let text = format!(
            "[{bname}] {}",
            steps
                .iter()
                .map(|(s, _)| format!("{}{}{}", if s.evict.is_empty() { String::new() } else { format!("evict{}:", s.evict.len()) }, serde_json::to_string(&s.query).unwrap(), s.ext.as_ref().map(|j| format!("+{}", j.show())).unwrap_or_default()))
                .collect::<Vec<_>>()
                .join(" ; ")
        );
        let text = if text.len() > 1500 { format!("{}… ({} steps, sha {})", &text[..1500], steps.len(), sha256_hex(text.as_bytes())) } else { text };
        let impl_s = steps.iter().map(|(_, r)| show_res(r)).collect::<Vec<_>>().join(" ; ");
        let impl_s = if impl_s.len() > 800 { format!("{}…", &impl_s[..800]) } else { impl_s };
        writeln!(
            out,
            "HIST\t({}, {}, {})\t{{\"text\":{},\"impl\":{},\"nontrivial\":{},\"hash_only_hits\":{},\"lost\":{},\"steps\":{}}}",
            g_list(table.iter(), |x| x.clone()),
            gb,
            gsteps,
            serde_json::to_string(&text).unwrap(),
            serde_json::to_string(&impl_s).unwrap(),
            hits > 0 && kinds.len() >= 3,
            hits,
            lost,
            steps.len()
        )
        .unwrap();
        case_no += 1;
    }
    writeln!(out, "NAMES\t\t{}", serde_json::to_string(&st.names).unwrap()).unwrap();
    writeln!(out, "OUTCOMES\t\t{}", serde_json::to_string(&outs.list).unwrap()).unwrap();
    std::fs::write(format!("{}/c31.cases", a.out), out).unwrap();
}

//! C33 — dynamic schemas build exactly when the type system is valid.
//!
//! Generates small type systems (valid ones, single-rule violations, the
//! witnesses of the known deviations), builds each with the real dynamic API
//! (`SchemaBuilder::finish`), and exercises every accepted schema with the
//! full introspection query, SDL export, a generated query (and a generated
//! subscription) under `catch_unwind`.  One CASE line per type system:
//! `(tsys, impl_result)` as Gallina terms of coq/theories/DynCheck.v.
use std::fmt::Write;

use agv_harness::*;
use async_graphql::dynamic::*;
use async_graphql::{Name, Value};
use futures_util::StreamExt;

// ------------------------------------------------------------------ AST ----
#[derive(Clone, Debug, PartialEq)]
enum TRef {
    Named(String),
    NonNull(Box<TRef>),
    List(Box<TRef>),
}
use TRef::*;

fn nm(s: &str) -> TRef {
    Named(s.to_string())
}
fn nn(t: TRef) -> TRef {
    NonNull(Box::new(t))
}
fn li(t: TRef) -> TRef {
    List(Box::new(t))
}

impl TRef {
    fn name(&self) -> &str {
        match self {
            Named(n) => n,
            NonNull(t) | List(t) => t.name(),
        }
    }
    fn rename(&self, to: &str) -> TRef {
        match self {
            Named(_) => nm(to),
            NonNull(t) => nn(t.rename(to)),
            List(t) => li(t.rename(to)),
        }
    }
    fn show(&self) -> String {
        match self {
            Named(n) => n.clone(),
            NonNull(t) => format!("{}!", t.show()),
            List(t) => format!("[{}]", t.show()),
        }
    }
    fn real(&self) -> TypeRef {
        match self {
            Named(n) => TypeRef::Named(n.clone().into()),
            NonNull(t) => TypeRef::NonNull(Box::new(t.real())),
            List(t) => TypeRef::List(Box::new(t.real())),
        }
    }
    fn g(&self, it: &mut Interner) -> String {
        match self {
            Named(n) => format!("(TNamed {})", it.n(n)),
            NonNull(t) => format!("(TNonNull {})", t.g(it)),
            List(t) => format!("(TList {})", t.g(it)),
        }
    }
}

#[derive(Clone, Debug)]
struct Arg {
    name: String,
    ty: TRef,
    default: bool,
}

#[derive(Clone, Debug)]
struct Fld {
    name: String,
    ty: TRef,
    args: Vec<Arg>,
}

#[derive(Clone, Debug)]
enum TDef {
    Scalar,
    Enum,
    Upload,
    Object(Vec<Fld>, Vec<String>),
    Interface(Vec<Fld>, Vec<String>),
    Union(Vec<String>),
    Input(Vec<Arg>, bool),
    Subscription(Vec<Fld>),
}

#[derive(Clone, Debug)]
struct TSys {
    types: Vec<(String, TDef)>,
    query: String,
    mutation: Option<String>,
    subscription: Option<String>,
}

fn arg(name: &str, ty: TRef) -> Arg {
    Arg { name: name.into(), ty, default: false }
}
fn fld(name: &str, ty: TRef) -> Fld {
    Fld { name: name.into(), ty, args: vec![] }
}
fn flda(name: &str, ty: TRef, args: Vec<Arg>) -> Fld {
    Fld { name: name.into(), ty, args }
}

impl TSys {
    fn get(&self, n: &str) -> Option<&TDef> {
        self.types.iter().find(|(k, _)| k == n).map(|(_, d)| d)
    }
    fn get_mut(&mut self, n: &str) -> Option<&mut TDef> {
        self.types.iter_mut().find(|(k, _)| k == n).map(|(_, d)| d)
    }
    fn show(&self) -> String {
        let mut o = format!(
            "schema{{query:{}{}{}}}",
            self.query,
            self.mutation.as_ref().map(|m| format!(" mutation:{m}")).unwrap_or_default(),
            self.subscription.as_ref().map(|m| format!(" subscription:{m}")).unwrap_or_default()
        );
        let sa = |a: &Arg| format!("{}:{}{}", a.name, a.ty.show(), if a.default { "=d" } else { "" });
        let sf = |f: &Fld| {
            if f.args.is_empty() {
                format!("{}:{}", f.name, f.ty.show())
            } else {
                format!("{}({}):{}", f.name, f.args.iter().map(sa).collect::<Vec<_>>().join(","), f.ty.show())
            }
        };
        for (n, d) in &self.types {
            match d {
                TDef::Scalar => write!(o, " scalar {n}").unwrap(),
                TDef::Enum => write!(o, " enum {n}").unwrap(),
                TDef::Upload => write!(o, " upload").unwrap(),
                TDef::Object(fs, im) => write!(
                    o,
                    " type {n}{}{{{}}}",
                    if im.is_empty() { String::new() } else { format!(" implements {}", im.join("&")) },
                    fs.iter().map(sf).collect::<Vec<_>>().join(" ")
                )
                .unwrap(),
                TDef::Interface(fs, im) => write!(
                    o,
                    " interface {n}{}{{{}}}",
                    if im.is_empty() { String::new() } else { format!(" implements {}", im.join("&")) },
                    fs.iter().map(sf).collect::<Vec<_>>().join(" ")
                )
                .unwrap(),
                TDef::Union(ms) => write!(o, " union {n}={}", ms.join("|")).unwrap(),
                TDef::Input(fs, oneof) => write!(
                    o,
                    " input {n}{}{{{}}}",
                    if *oneof { " @oneOf" } else { "" },
                    fs.iter().map(sa).collect::<Vec<_>>().join(" ")
                )
                .unwrap(),
                TDef::Subscription(fs) => {
                    write!(o, " subscription {n}{{{}}}", fs.iter().map(sf).collect::<Vec<_>>().join(" ")).unwrap()
                }
            }
        }
        o
    }
    fn g(&self, it: &mut Interner) -> String {
        let ga = |it: &mut Interner, a: &Arg| {
            format!("{{| a_name := {}; a_ty := {}; a_default := {} |}}", it.n(&a.name), a.ty.g(it), g_bool(a.default))
        };
        let gf = |it: &mut Interner, f: &Fld| {
            format!(
                "{{| f_name := {}; f_ty := {}; f_args := {} |}}",
                it.n(&f.name),
                f.ty.g(it),
                g_list(f.args.iter(), |a| ga(it, a))
            )
        };
        let types = g_list(self.types.iter(), |(n, d)| {
            let gd = match d {
                TDef::Scalar => "DScalar".to_string(),
                TDef::Enum => "DEnum".to_string(),
                TDef::Upload => "DUpload".to_string(),
                TDef::Object(fs, im) => {
                    format!("(DObject {} {})", g_list(fs.iter(), |f| gf(it, f)), g_list(im.iter(), |i| it.n(i)))
                }
                TDef::Interface(fs, im) => {
                    format!("(DInterface {} {})", g_list(fs.iter(), |f| gf(it, f)), g_list(im.iter(), |i| it.n(i)))
                }
                TDef::Union(ms) => format!("(DUnion {})", g_list(ms.iter(), |i| it.n(i))),
                TDef::Input(fs, oneof) => format!("(DInput {} {})", g_list(fs.iter(), |a| ga(it, a)), g_bool(*oneof)),
                TDef::Subscription(fs) => format!("(DSubscription {})", g_list(fs.iter(), |f| gf(it, f))),
            };
            format!("({}, {})", it.n(n), gd)
        });
        let q = it.n(&self.query);
        let m = g_opt(self.mutation.as_ref(), |m| it.n(m));
        let s = g_opt(self.subscription.as_ref(), |m| it.n(m));
        let dunder: Vec<String> =
            it.names.iter().enumerate().filter(|(_, s)| s.starts_with("__")).map(|(i, _)| format!("{i}%N")).collect();
        format!(
            "{{| ts_types := {types}; ts_query := {q}; ts_mutation := {m}; ts_subscription := {s}; ts_dunder := [{}] |}}",
            dunder.join("; ")
        )
    }
}

// -------------------------------------------------------- real library -----
/// What a resolver returns for a field of a given type.
#[derive(Clone)]
enum Plan {
    Null,
    Val(Value),
    Obj(Option<String>),
    List(Box<Plan>),
}

fn plan_for(ts: &TSys, t: &TRef) -> Plan {
    match t {
        NonNull(t) => plan_for(ts, t),
        List(t) => Plan::List(Box::new(plan_for(ts, t))),
        Named(n) => match n.as_str() {
            "Int" => Plan::Val(Value::from(1)),
            "Float" => Plan::Val(Value::from(1.5)),
            "String" => Plan::Val(Value::from("s")),
            "Boolean" => Plan::Val(Value::from(true)),
            "ID" => Plan::Val(Value::from("id")),
            _ => match ts.get(n) {
                Some(TDef::Scalar) => Plan::Val(Value::from("x")),
                Some(TDef::Enum) => Plan::Val(Value::Enum(Name::new("A"))),
                Some(TDef::Object(..)) => Plan::Obj(None),
                Some(TDef::Interface(..)) => {
                    // first object that declares the interface
                    let o = ts.types.iter().find_map(|(k, d)| match d {
                        TDef::Object(_, im) if im.contains(n) => Some(k.clone()),
                        _ => None,
                    });
                    match o {
                        Some(o) => Plan::Obj(Some(o)),
                        None => Plan::Null,
                    }
                }
                Some(TDef::Union(ms)) => match ms.first() {
                    Some(o) => Plan::Obj(Some(o.clone())),
                    None => Plan::Null,
                },
                _ => Plan::Null,
            },
        },
    }
}

fn plan_value(p: &Plan) -> Option<FieldValue<'static>> {
    match p {
        Plan::Null => None,
        Plan::Val(v) => Some(FieldValue::value(v.clone())),
        Plan::Obj(None) => Some(FieldValue::owned_any(0u8)),
        Plan::Obj(Some(t)) => Some(FieldValue::owned_any(0u8).with_type(t.clone())),
        Plan::List(p) => Some(FieldValue::list(plan_value(p).into_iter().chain(plan_value(p)))),
    }
}

fn real_arg(a: &Arg) -> InputValue {
    let iv = InputValue::new(a.name.clone(), a.ty.real());
    if a.default { iv.default_value(Value::Null) } else { iv }
}

fn builder(ts: &TSys) -> SchemaBuilder {
    let mut b = Schema::build(&ts.query, ts.mutation.as_deref(), ts.subscription.as_deref());
    for (n, d) in &ts.types {
        b = match d {
            TDef::Scalar => b.register(Scalar::new(n.clone())),
            TDef::Enum => b.register(Enum::new(n.clone()).item("A").item("B")),
            TDef::Upload => b.enable_uploading(),
            TDef::Object(fs, im) => {
                let mut o = Object::new(n.clone());
                for f in fs {
                    let plan = plan_for(ts, &f.ty);
                    let mut rf = Field::new(f.name.clone(), f.ty.real(), move |_| {
                        let plan = plan.clone();
                        FieldFuture::new(async move { Ok(plan_value(&plan)) })
                    });
                    for a in &f.args {
                        rf = rf.argument(real_arg(a));
                    }
                    o = o.field(rf);
                }
                for i in im {
                    o = o.implement(i.clone());
                }
                b.register(o)
            }
            TDef::Interface(fs, im) => {
                let mut o = Interface::new(n.clone());
                for f in fs {
                    let mut rf = InterfaceField::new(f.name.clone(), f.ty.real());
                    for a in &f.args {
                        rf = rf.argument(real_arg(a));
                    }
                    o = o.field(rf);
                }
                for i in im {
                    o = o.implement(i.clone());
                }
                b.register(o)
            }
            TDef::Union(ms) => {
                let mut u = Union::new(n.clone());
                for m in ms {
                    u = u.possible_type(m.clone());
                }
                b.register(u)
            }
            TDef::Input(fs, oneof) => {
                let mut o = InputObject::new(n.clone());
                for a in fs {
                    o = o.field(real_arg(a));
                }
                if *oneof {
                    o = o.oneof();
                }
                b.register(o)
            }
            TDef::Subscription(fs) => {
                let mut o = Subscription::new(n.clone());
                for f in fs {
                    let plan = plan_for(ts, &f.ty);
                    let mut rf = SubscriptionField::new(f.name.clone(), f.ty.real(), move |_| {
                        let plan = plan.clone();
                        SubscriptionFieldFuture::new(async move {
                            Ok(futures_util::stream::iter(plan_value(&plan).into_iter().map(Ok::<_, async_graphql::Error>)))
                        })
                    });
                    for a in &f.args {
                        rf = rf.argument(real_arg(a));
                    }
                    o = o.field(rf);
                }
                b.register(o)
            }
        };
    }
    b
}

/// Error message -> the error code of the model (DynCheck.v).
fn err_code(msg: &str) -> u32 {
    let m = msg;
    if m.ends_with("already exists") {
        21
    } else if m.starts_with("Type \"") && m.ends_with("not found") {
        1
    } else if m.starts_with("The query root") {
        2
    } else if m.starts_with("The mutation root") {
        3
    } else if m.starts_with("The subscription root") {
        4
    } else if m.starts_with("Object \"") && m.ends_with("must define one or more fields") {
        5
    } else if m.starts_with("Field \"") && m.contains("must not have a name which begins") {
        6
    } else if m.starts_with("Field \"") && m.ends_with("must return a output type") {
        7
    } else if m.starts_with("Argument \"") && m.contains("must not have a name which begins") {
        8
    } else if m.starts_with("Argument \"") && m.ends_with("must accept a input type") {
        9
    } else if m.starts_with("Type \"") && m.ends_with("is not interface") {
        10
    } else if m.contains("requires field \"") {
        11
    } else if m.starts_with("Field \"") && m.contains("requires argument \"") {
        12
    } else if m.starts_with("Argument \"") && m.contains("is not sub-type of") {
        13
    } else if m.starts_with("Field \"") && m.contains("is not sub-type of") {
        14
    } else if m.starts_with("Field \"") && m.ends_with("must accept a input type") {
        15
    } else if m.starts_with("Field \"") && m.ends_with("must be nullable") {
        16
    } else if m.starts_with("Field \"") && m.ends_with("must not have a default value") {
        17
    } else if m.contains("references itself either directly") {
        18
    } else if m.starts_with("Interface \"") && m.ends_with("may not implement itself") {
        19
    } else if m.starts_with("Member \"") && m.ends_with("is not an object") {
        20
    } else {
        99
    }
}

const INTROSPECTION: &str = r#"
query IntrospectionQuery { __schema { description queryType { name } mutationType { name } subscriptionType { name }
  types { ...FullType } directives { name description locations isRepeatable args(includeDeprecated: true) { ...InputValue } } } }
fragment FullType on __Type { kind name description specifiedByURL isOneOf
  fields(includeDeprecated: true) { name description args(includeDeprecated: true) { ...InputValue } type { ...TypeRef } isDeprecated deprecationReason }
  inputFields(includeDeprecated: true) { ...InputValue } interfaces { ...TypeRef }
  enumValues(includeDeprecated: true) { name description isDeprecated deprecationReason } possibleTypes { ...TypeRef } }
fragment InputValue on __InputValue { name description type { ...TypeRef } defaultValue isDeprecated deprecationReason }
fragment TypeRef on __Type { kind name ofType { kind name ofType { kind name ofType { kind name ofType { kind name } } } } }
"#;

/// A literal for an argument / input field of type `t` (None: leave it out).
fn literal(ts: &TSys, t: &TRef, depth: usize) -> Option<String> {
    match t {
        NonNull(t) => Some(literal(ts, t, depth).unwrap_or_else(|| "null".into())),
        List(t) => Some(format!("[{}]", literal(ts, t, depth).unwrap_or_else(|| "null".into()))),
        Named(n) => match n.as_str() {
            "Int" => Some("1".into()),
            "Float" => Some("1.5".into()),
            "String" | "ID" => Some("\"s\"".into()),
            "Boolean" => Some("true".into()),
            _ => match ts.get(n) {
                Some(TDef::Scalar) => Some("\"x\"".into()),
                Some(TDef::Enum) => Some("A".into()),
                Some(TDef::Input(fs, oneof)) => {
                    if depth == 0 {
                        return None;
                    }
                    let mut parts = vec![];
                    for (k, a) in fs.iter().enumerate() {
                        if *oneof && k > 0 {
                            break;
                        }
                        let required = matches!(a.ty, NonNull(_));
                        if required || *oneof || k % 2 == 0 {
                            if let Some(l) = literal(ts, &a.ty, depth - 1) {
                                parts.push(format!("{}: {}", a.name, l));
                            }
                        }
                    }
                    Some(format!("{{{}}}", parts.join(", ")))
                }
                _ => None,
            },
        },
    }
}

fn selection(ts: &TSys, rng: &mut Rng, tname: &str, depth: usize, out: &mut String) {
    let (fields, is_abstract): (Vec<Fld>, bool) = match ts.get(tname) {
        Some(TDef::Object(fs, _)) => (fs.clone(), false),
        Some(TDef::Subscription(fs)) => (fs.clone(), false),
        Some(TDef::Interface(fs, _)) => (fs.clone(), true),
        Some(TDef::Union(_)) => (vec![], true),
        _ => return,
    };
    out.push_str("{ __typename ");
    for f in &fields {
        if !rng.chance(4, 5) {
            continue;
        }
        field_sel(ts, rng, f, depth, out);
    }
    if is_abstract && depth > 0 {
        // fragments on every object / interface of the schema that could apply
        for (n, d) in &ts.types {
            let applies = match (ts.get(tname), d) {
                (Some(TDef::Interface(..)), TDef::Object(_, im)) | (Some(TDef::Interface(..)), TDef::Interface(_, im)) => {
                    im.iter().any(|i| i == tname)
                }
                (Some(TDef::Union(ms)), TDef::Object(..)) => ms.contains(n),
                _ => false,
            };
            if applies && rng.chance(3, 4) {
                write!(out, "... on {n} ").unwrap();
                selection(ts, rng, n, depth - 1, out);
            }
        }
    }
    out.push_str("} ");
}

fn field_sel(ts: &TSys, rng: &mut Rng, f: &Fld, depth: usize, out: &mut String) {
    let composite = matches!(ts.get(f.ty.name()), Some(TDef::Object(..) | TDef::Interface(..) | TDef::Union(..)));
    if composite && depth == 0 {
        return;
    }
    out.push_str(&f.name);
    let mut args = vec![];
    for a in &f.args {
        let required = matches!(a.ty, NonNull(_)) && !a.default;
        if required || rng.chance(1, 2) {
            if let Some(l) = literal(ts, &a.ty, 3) {
                args.push(format!("{}: {}", a.name, l));
            }
        }
    }
    if !args.is_empty() {
        write!(out, "({})", args.join(", ")).unwrap();
    }
    out.push(' ');
    if composite {
        selection(ts, rng, f.ty.name(), depth - 1, out);
    }
}

/// 0 = everything ran; k = stage k panicked (1 introspection, 2 sdl, 3 query,
/// 4 mutation, 5 subscription, 6 federation sdl).
fn exercise(ts: &TSys, schema: &Schema, seed: u64) -> u32 {
    let s1 = schema.clone();
    if catch(std::panic::AssertUnwindSafe(move || {
        let r = block_on(s1.execute(INTROSPECTION));
        let _ = serde_json::to_string(&r).unwrap_or_default();
        let r = block_on(s1.execute("{ __type(name: \"Q\") { name fields { name type { name kind } } } a: __typename }"));
        let _ = serde_json::to_string(&r).unwrap_or_default();
    }))
    .is_none()
    {
        return 1;
    }
    let s2 = schema.clone();
    if catch(std::panic::AssertUnwindSafe(move || {
        let _ = s2.sdl();
    }))
    .is_none()
    {
        return 2;
    }
    let s6 = schema.clone();
    if catch(std::panic::AssertUnwindSafe(move || {
        let _ = s6.sdl_with_options(async_graphql::SDLExportOptions::new().federation());
        let _ = s6.sdl_with_options(async_graphql::SDLExportOptions::new().sorted_fields().sorted_arguments().sorted_enum_items());
    }))
    .is_none()
    {
        return 6;
    }
    for (stage, root, kw) in [(3u32, Some(ts.query.clone()), "query"), (4, ts.mutation.clone(), "mutation")] {
        let Some(root) = root else { continue };
        for k in 0..2u64 {
            let mut rng = Rng::new(seed ^ (stage as u64 * 977 + k));
            let mut q = format!("{kw} ");
            selection(ts, &mut rng, &root, 3, &mut q);
            let s3 = schema.clone();
            if catch(std::panic::AssertUnwindSafe(move || {
                let r = block_on(s3.execute(q.as_str()));
                let _ = serde_json::to_string(&r).unwrap_or_default();
            }))
            .is_none()
            {
                return stage;
            }
        }
    }
    if let Some(root) = &ts.subscription {
        let fields = match ts.get(root) {
            Some(TDef::Subscription(fs)) => fs.clone(),
            _ => vec![],
        };
        let mut docs = vec!["subscription { __typename }".to_string()];
        let mut rng = Rng::new(seed ^ 0x5555);
        for f in &fields {
            let mut q = String::from("subscription { ");
            field_sel(ts, &mut rng, f, 2, &mut q);
            q.push('}');
            docs.push(q);
        }
        for q in docs {
            let s5 = schema.clone();
            if catch(std::panic::AssertUnwindSafe(move || {
                let mut st = s5.execute_stream(q.as_str());
                let mut k = 0;
                while let Some(r) = block_on(st.next()) {
                    let _ = serde_json::to_string(&r).unwrap_or_default();
                    k += 1;
                    if k > 4 {
                        break;
                    }
                }
            }))
            .is_none()
            {
                return 5;
            }
        }
    }
    0
}

/// Gallina term + readable form of what the real library did.
fn run_real(ts: &TSys, seed: u64) -> (String, String) {
    let ts2 = ts.clone();
    let built = catch(std::panic::AssertUnwindSafe(move || builder(&ts2).finish()));
    match built {
        None => ("IPanicBuild".into(), "panic while building".into()),
        Some(Err(e)) => {
            let c = err_code(&e.0);
            (format!("(IErr {c}%N)"), format!("Err[{c}] {}", e.0))
        }
        Some(Ok(schema)) => {
            let st = exercise(ts, &schema, seed);
            if st == 0 {
                ("IBuilt".into(), "built; introspection, sdl, queries ran".into())
            } else {
                (format!("(IPanicLater {st}%N)"), format!("built; stage {st} panicked"))
            }
        }
    }
}

// ------------------------------------------------------------ generator ----
const SCALARS: [&str; 5] = ["Int", "Float", "String", "Boolean", "ID"];

struct Gen<'a> {
    r: &'a mut Rng,
}

impl Gen<'_> {
    fn wrap(&mut self, base: &str) -> TRef {
        match self.r.below(10) {
            0..=3 => nm(base),
            4..=5 => nn(nm(base)),
            6 => li(nm(base)),
            7 => li(nn(nm(base))),
            8 => nn(li(nm(base))),
            _ => nn(li(nn(nm(base)))),
        }
    }
    /// covariant (spec-valid) variation of an interface field type: add `!`
    fn strengthen(&mut self, t: &TRef) -> TRef {
        match t {
            NonNull(t) => nn(self.strengthen(t)),
            List(t) => {
                let inner = li(self.strengthen(t));
                if self.r.chance(1, 2) { nn(inner) } else { inner }
            }
            Named(n) => {
                if self.r.chance(1, 2) { nn(nm(n)) } else { nm(n) }
            }
        }
    }

    fn valid(&mut self) -> TSys {
        let mut types: Vec<(String, TDef)> = vec![];
        let mut input_names: Vec<String> = SCALARS.iter().map(|s| s.to_string()).collect();
        let mut output_names: Vec<String> = SCALARS.iter().map(|s| s.to_string()).collect();
        if self.r.chance(2, 3) {
            types.push(("E1".into(), TDef::Enum));
            input_names.push("E1".into());
            output_names.push("E1".into());
        }
        if self.r.chance(1, 2) {
            types.push(("S1".into(), TDef::Scalar));
            input_names.push("S1".into());
            output_names.push("S1".into());
        }
        if self.r.chance(1, 6) {
            types.push(("Upload".into(), TDef::Upload));
            input_names.push("Upload".into());
        }
        // input objects: non-null references only point backwards (no required cycle)
        let n_in = self.r.below(4);
        let in_names: Vec<String> = (1..=n_in).map(|i| format!("N{i}")).collect();
        for (i, n) in in_names.iter().enumerate() {
            let oneof = self.r.chance(1, 6);
            let nf = 1 + self.r.below(3);
            let mut fs = vec![];
            for k in 0..nf {
                let ty = if !in_names.is_empty() && self.r.chance(1, 2) {
                    let j = self.r.below(in_names.len());
                    let t = &in_names[j];
                    if j < i && !oneof && self.r.chance(1, 2) {
                        nn(nm(t))
                    } else {
                        match self.r.below(4) {
                            0 => nm(t),
                            1 => li(nn(nm(t))),
                            2 if !oneof => nn(li(nn(nm(t)))),
                            _ => li(nm(t)),
                        }
                    }
                } else {
                    let b = self.r.pick(&input_names).clone();
                    if oneof {
                        if self.r.chance(1, 2) { nm(&b) } else { li(nn(nm(&b))) }
                    } else {
                        self.wrap(&b)
                    }
                };
                let default = !oneof && self.r.chance(1, 5);
                fs.push(Arg { name: format!("i{k}"), ty, default });
            }
            types.push((n.clone(), TDef::Input(fs, oneof)));
        }
        input_names.extend(in_names.iter().cloned());

        let n_if = self.r.below(4);
        let n_ob = 1 + self.r.below(3);
        let if_names: Vec<String> = (1..=n_if).map(|i| format!("I{i}")).collect();
        let ob_names: Vec<String> = (1..=n_ob).map(|i| format!("O{i}")).collect();
        let has_union = self.r.chance(1, 2);
        output_names.extend(if_names.iter().cloned());
        output_names.extend(ob_names.iter().cloned());
        if has_union {
            output_names.push("U1".into());
        }
        let mut counter = 0usize;
        // interfaces: I_i may implement I_j for j < i
        let mut if_defs: Vec<(Vec<Fld>, Vec<String>)> = vec![];
        for i in 0..n_if {
            let mut impls: Vec<String> = vec![];
            for j in 0..i {
                if self.r.chance(1, 3) {
                    for t in if_defs[j].1.clone() {
                        if !impls.contains(&t) {
                            impls.push(t);
                        }
                    }
                    if !impls.contains(&if_names[j]) {
                        impls.push(if_names[j].clone());
                    }
                }
            }
            let mut fs: Vec<Fld> = vec![];
            for im in &impls {
                let j = if_names.iter().position(|x| x == im).unwrap();
                for f in if_defs[j].0.clone() {
                    if !fs.iter().any(|g| g.name == f.name) {
                        fs.push(self.impl_field(&f));
                    }
                }
            }
            let nf = if fs.is_empty() { 1 + self.r.below(2) } else { self.r.below(2) };
            for _ in 0..nf {
                fs.push(self.fresh_field(&mut counter, &output_names, &input_names));
            }
            if_defs.push((fs, impls));
        }
        let mut ob_defs: Vec<(Vec<Fld>, Vec<String>)> = vec![];
        for _ in 0..n_ob {
            let mut impls: Vec<String> = vec![];
            for j in 0..n_if {
                if self.r.chance(1, 3) {
                    for t in if_defs[j].1.clone() {
                        if !impls.contains(&t) {
                            impls.push(t);
                        }
                    }
                    if !impls.contains(&if_names[j]) {
                        impls.push(if_names[j].clone());
                    }
                }
            }
            let mut fs: Vec<Fld> = vec![];
            for im in &impls {
                let j = if_names.iter().position(|x| x == im).unwrap();
                for f in if_defs[j].0.clone() {
                    if !fs.iter().any(|g| g.name == f.name) {
                        fs.push(self.impl_field(&f));
                    }
                }
            }
            let nf = if fs.is_empty() { 1 + self.r.below(2) } else { self.r.below(3) };
            for _ in 0..nf {
                fs.push(self.fresh_field(&mut counter, &output_names, &input_names));
            }
            ob_defs.push((fs, impls));
        }
        for (n, (fs, im)) in if_names.iter().zip(if_defs) {
            types.push((n.clone(), TDef::Interface(fs, im)));
        }
        for (n, (fs, im)) in ob_names.iter().zip(ob_defs) {
            types.push((n.clone(), TDef::Object(fs, im)));
        }
        if has_union {
            let mut ms: Vec<String> = ob_names.iter().filter(|_| self.r.chance(2, 3)).cloned().collect();
            if ms.is_empty() {
                ms.push(ob_names[0].clone());
            }
            types.push(("U1".into(), TDef::Union(ms)));
        }
        // roots
        let mut qf = vec![];
        for n in output_names.iter().skip(5) {
            if self.r.chance(3, 4) {
                let ty = self.wrap(n);
                let mut f = self.fresh_field(&mut counter, &output_names, &input_names);
                f.ty = ty;
                qf.push(f);
            }
        }
        if qf.is_empty() || self.r.chance(1, 2) {
            qf.push(self.fresh_field(&mut counter, &output_names, &input_names));
        }
        types.push(("Q".into(), TDef::Object(qf, vec![])));
        let mutation = if self.r.chance(1, 3) {
            let f = self.fresh_field(&mut counter, &output_names, &input_names);
            types.push(("M".into(), TDef::Object(vec![f], vec![])));
            Some("M".to_string())
        } else {
            None
        };
        let subscription = if self.r.chance(1, 3) {
            let f = self.fresh_field(&mut counter, &output_names, &input_names);
            types.push(("Sub".into(), TDef::Subscription(vec![f])));
            Some("Sub".to_string())
        } else {
            None
        };
        if self.r.chance(1, 2) {
            self.r.shuffle(&mut types);
        }
        TSys { types, query: "Q".into(), mutation, subscription }
    }

    fn fresh_field(&mut self, counter: &mut usize, outs: &[String], ins: &[String]) -> Fld {
        *counter += 1;
        let b = if self.r.chance(1, 2) { self.r.pick(&outs[..5]).clone() } else { self.r.pick(outs).clone() };
        let ty = self.wrap(&b);
        let na = if self.r.chance(1, 2) { 0 } else { 1 + self.r.below(2) };
        let mut args = vec![];
        for k in 0..na {
            let b = self.r.pick(ins).clone();
            let ty = self.wrap(&b);
            args.push(Arg { name: format!("a{k}"), ty, default: self.r.chance(1, 6) });
        }
        Fld { name: format!("f{counter}"), ty, args }
    }

    /// a spec-valid implementation of an interface field (mostly identical;
    /// sometimes covariant in nullability, sometimes with an extra optional
    /// argument) — the covariant ones are refused by today's code.
    fn impl_field(&mut self, f: &Fld) -> Fld {
        let mut g = f.clone();
        if self.r.chance(1, 8) {
            g.ty = self.strengthen(&f.ty);
        }
        if self.r.chance(1, 8) {
            g.args.push(Arg { name: "x".into(), ty: nm("Int"), default: false });
        }
        g
    }

    // ---------------------------------------------------- rule violations --
    fn names_of(&self, ts: &TSys, pred: impl Fn(&TDef) -> bool) -> Vec<String> {
        ts.types.iter().filter(|(_, d)| pred(d)).map(|(n, _)| n.clone()).collect()
    }

    fn mutate_k(&mut self, ts: &mut TSys, k: usize) -> Option<&'static str> {
        let objs = self.names_of(ts, |d| matches!(d, TDef::Object(..)));
        let ifs = self.names_of(ts, |d| matches!(d, TDef::Interface(..)));
        let ins = self.names_of(ts, |d| matches!(d, TDef::Input(..)));
        let uns = self.names_of(ts, |d| matches!(d, TDef::Union(..)));
        let conts = self.names_of(ts, |d| matches!(d, TDef::Object(..) | TDef::Interface(..) | TDef::Subscription(..)));
        let mut wrong_out: Vec<String> = ins.clone();
        wrong_out.push("Nope".into());
        if ts.get("Upload").is_some() {
            wrong_out.push("Upload".into());
        }
        if let Some(s) = &ts.subscription {
            wrong_out.push(s.clone());
        }
        let mut wrong_in: Vec<String> = objs.iter().chain(ifs.iter()).chain(uns.iter()).cloned().collect();
        wrong_in.push("Nope".into());
        // implementor pairs (T, I, field index in I)
        let mut pairs: Vec<(String, String)> = vec![];
        for (n, d) in &ts.types {
            if let TDef::Object(_, im) | TDef::Interface(_, im) = d {
                for i in im {
                    if matches!(ts.get(i), Some(TDef::Interface(fs, _)) if !fs.is_empty()) {
                        pairs.push((n.clone(), i.clone()));
                    }
                }
            }
        }
        match k {
            0 => {
                ts.query = self.r.pick(&["Nope".to_string(), ifs.first().cloned().unwrap_or("Int".into()), "Int".into(), ins.first().cloned().unwrap_or("String".into())]).clone();
                Some("query root")
            }
            1 => {
                ts.mutation = Some(self.r.pick(&["Nope".to_string(), "Int".into(), ifs.first().cloned().unwrap_or("ID".into()), uns.first().cloned().unwrap_or("Nope2".into()), ts.subscription.clone().unwrap_or("Q".into())]).clone());
                Some("mutation root")
            }
            2 => {
                ts.subscription = Some(self.r.pick(&["Nope".to_string(), "Q".into(), "Int".into(), objs[0].clone()]).clone());
                Some("subscription root")
            }
            3 | 4 => {
                let c = if k == 4 { ts.subscription.clone()? } else { self.r.pick(&conts).clone() };
                let w = self.r.pick(&wrong_out).clone();
                match ts.get_mut(&c)? {
                    TDef::Object(fs, _) | TDef::Interface(fs, _) | TDef::Subscription(fs) => {
                        if fs.is_empty() {
                            return None;
                        }
                        let i = self.r.below(fs.len());
                        fs[i].ty = fs[i].ty.rename(&w);
                    }
                    _ => return None,
                }
                Some("field type not an output type")
            }
            5 | 6 => {
                let c = self.r.pick(&conts).clone();
                let w = self.r.pick(&wrong_in).clone();
                match ts.get_mut(&c)? {
                    TDef::Object(fs, _) | TDef::Interface(fs, _) | TDef::Subscription(fs) => {
                        if fs.is_empty() {
                            return None;
                        }
                        let i = self.r.below(fs.len());
                        if fs[i].args.is_empty() {
                            fs[i].args.push(arg("z", nm(&w)));
                        } else {
                            let j = self.r.below(fs[i].args.len());
                            fs[i].args[j].ty = fs[i].args[j].ty.rename(&w);
                        }
                    }
                    _ => return None,
                }
                Some("argument type not an input type")
            }
            7 => {
                let c = self.r.pick(&ins).clone();
                let w = self.r.pick(&wrong_in).clone();
                if let TDef::Input(fs, _) = ts.get_mut(&c)? {
                    let i = self.r.below(fs.len());
                    fs[i].ty = fs[i].ty.rename(&w);
                }
                Some("input field type not an input type")
            }
            8 => {
                let (t, i) = self.r.pick(&pairs).clone();
                let ifs = match ts.get(&i)? {
                    TDef::Interface(fs, _) => fs.clone(),
                    _ => return None,
                };
                let f = self.r.pick(&ifs).name.clone();
                if let TDef::Object(fs, _) | TDef::Interface(fs, _) = ts.get_mut(&t)? {
                    fs.retain(|g| g.name != f);
                }
                Some("interface field missing")
            }
            9..=13 => {
                let (t, i) = self.r.pick(&pairs).clone();
                let ifs = match ts.get(&i)? {
                    TDef::Interface(fs, _) => fs.clone(),
                    _ => return None,
                };
                let f = self.r.pick(&ifs).clone();
                let other = self.r.pick(&["Int".to_string(), "String".into(), objs[0].clone()]).clone();
                if let TDef::Object(fs, _) | TDef::Interface(fs, _) = ts.get_mut(&t)? {
                    let g = fs.iter_mut().find(|g| g.name == f.name)?;
                    match k {
                        9 => g.ty = nn(g.ty.clone()),
                        10 => match &f.ty {
                            NonNull(t) => g.ty = (**t).clone(),
                            List(t) => g.ty = (**t).clone(),
                            _ => return None,
                        },
                        11 => g.ty = f.ty.rename(&other),
                        12 => g.ty = li(g.ty.clone()),
                        _ => match &f.ty {
                            List(t) => match &**t {
                                NonNull(u) => g.ty = li((**u).clone()),
                                u => g.ty = li(nn(u.clone())),
                            },
                            NonNull(t) => match &**t {
                                List(u) => match &**u {
                                    NonNull(v) => g.ty = nn(li((**v).clone())),
                                    v => g.ty = li(nn(v.clone())),
                                },
                                _ => return None,
                            },
                            _ => return None,
                        },
                    }
                }
                Some("implementing field type changed")
            }
            14..=18 => {
                let (t, i) = self.r.pick(&pairs).clone();
                let ifs = match ts.get(&i)? {
                    TDef::Interface(fs, _) => fs.clone(),
                    _ => return None,
                };
                let f = self.r.pick(&ifs).clone();
                if let TDef::Object(fs, _) | TDef::Interface(fs, _) = ts.get_mut(&t)? {
                    let g = fs.iter_mut().find(|g| g.name == f.name)?;
                    match k {
                        14 => {
                            let a = g.args.first_mut()?;
                            a.ty = nn(a.ty.clone());
                        }
                        15 => {
                            let a = g.args.first_mut()?;
                            match a.ty.clone() {
                                NonNull(t) => a.ty = *t,
                                _ => a.ty = a.ty.rename(if a.ty.name() == "Int" { "String" } else { "Int" }),
                            }
                        }
                        16 => {
                            if g.args.is_empty() {
                                return None;
                            }
                            let j = self.r.below(g.args.len());
                            g.args.remove(j);
                        }
                        17 => g.args.push(Arg { name: "req".into(), ty: nn(nm("Int")), default: self.r.chance(1, 3) }),
                        _ => g.args.push(Arg { name: "opt".into(), ty: li(nn(nm("Int"))), default: false }),
                    }
                }
                Some("implementing field arguments changed")
            }
            19 => {
                let u = self.r.pick(&uns).clone();
                let mut w: Vec<String> = ifs.iter().chain(ins.iter()).cloned().collect();
                w.extend(["Int".to_string(), "Nope".into(), u.clone()]);
                let w = self.r.pick(&w).clone();
                if let TDef::Union(ms) = ts.get_mut(&u)? {
                    if ms.contains(&w) {
                        return None;
                    }
                    ms.push(w);
                }
                Some("union member not an object")
            }
            20..=22 => {
                // required input cycles of length 1..3, or a broken (valid) chain
                let want = 1 + self.r.below(3);
                let mut names = ins.clone();
                while names.len() < want {
                    let n = format!("N{}", 7 + names.len());
                    ts.types.push((n.clone(), TDef::Input(vec![arg("k", nm("Int"))], false)));
                    names.push(n);
                }
                self.r.shuffle(&mut names);
                let cyc: Vec<String> = names[..want].to_vec();
                let broken = k == 22 && self.r.chance(1, 2);
                for (i, n) in cyc.iter().enumerate() {
                    let to = &cyc[(i + 1) % want];
                    let ty = if broken && i == 0 {
                        if self.r.chance(1, 2) { nm(to) } else { nn(li(nn(nm(to)))) }
                    } else {
                        nn(nm(to))
                    };
                    if let TDef::Input(fs, oneof) = ts.get_mut(n)? {
                        *oneof = false;
                        let nm_ = format!("c{}", fs.len());
                        fs.push(Arg { name: nm_, ty, default: k == 21 && self.r.chance(1, 2) });
                    }
                }
                // sometimes a tail leading into the cycle (a "local cycle" not through the start)
                if self.r.chance(1, 2) {
                    let n = "N9".to_string();
                    if ts.get(&n).is_none() {
                        ts.types.insert(0, (n, TDef::Input(vec![arg("t", nn(nm(&cyc[0])))], false)));
                    }
                }
                Some("input object reference cycle")
            }
            23 => {
                let c = self.r.pick(&objs).clone();
                if let TDef::Object(fs, _) = ts.get_mut(&c)? {
                    fs.clear();
                }
                Some("object without fields")
            }
            24 => {
                let c = self.r.pick(&conts).clone();
                match ts.get_mut(&c)? {
                    TDef::Object(fs, _) | TDef::Interface(fs, _) | TDef::Subscription(fs) => {
                        if self.r.chance(1, 2) || fs.is_empty() {
                            fs.push(fld("__bad", nm("Int")));
                        } else {
                            let i = self.r.below(fs.len());
                            fs[i].args.push(arg("__a", nm("Int")));
                        }
                    }
                    _ => return None,
                }
                Some("reserved name")
            }
            25 => {
                let c = self.r.pick(&ins).clone();
                if let TDef::Input(fs, oneof) = ts.get_mut(&c)? {
                    match self.r.below(3) {
                        0 => fs.push(arg("__i", nm("Int"))),
                        1 => {
                            *oneof = true;
                            fs.push(arg("o", nn(nm("Int"))));
                        }
                        _ => {
                            *oneof = true;
                            fs.push(Arg { name: "o".into(), ty: nm("Int"), default: true });
                        }
                    }
                }
                Some("input object rule")
            }
            26 => {
                let c = self.r.pick(&ifs).clone();
                let mut w: Vec<String> = vec![c.clone(), "Nope".into(), objs[0].clone(), "Int".into()];
                w.extend(uns.iter().cloned());
                let w = self.r.pick(&w).clone();
                if let TDef::Interface(_, im) = ts.get_mut(&c)? {
                    if im.contains(&w) {
                        return None;
                    }
                    im.push(w);
                }
                Some("interface implements a wrong type")
            }
            27 => {
                let c = self.r.pick(&objs).clone();
                let mut w: Vec<String> = vec!["Nope".into(), "Int".into()];
                w.extend(uns.iter().cloned());
                w.extend(objs.iter().cloned());
                w.extend(ins.iter().cloned());
                let w = self.r.pick(&w).clone();
                if let TDef::Object(_, im) = ts.get_mut(&c)? {
                    if im.contains(&w) {
                        return None;
                    }
                    im.push(w);
                }
                Some("object implements a wrong type")
            }
            28 => {
                // drop a transitively required declaration
                let mut cands = vec![];
                for (n, d) in &ts.types {
                    if let TDef::Object(_, im) | TDef::Interface(_, im) = d {
                        for i in im {
                            if let Some(TDef::Interface(_, im2)) = ts.get(i) {
                                for j in im2 {
                                    if im.contains(j) {
                                        cands.push((n.clone(), j.clone()));
                                    }
                                }
                            }
                        }
                    }
                }
                let (t, j) = self.r.pick(&cands).clone();
                if let TDef::Object(_, im) | TDef::Interface(_, im) = ts.get_mut(&t)? {
                    im.retain(|x| *x != j);
                }
                Some("transitive interface not declared")
            }
            29 => {
                // an interface without fields that implements something
                let target = self.r.pick(&ifs).clone();
                let w = self.r.pick(&[target.clone(), "Nope".to_string(), objs[0].clone(), "IE".into()]).clone();
                ts.types.push(("IE".into(), TDef::Interface(vec![], vec![w])));
                Some("empty interface implementing")
            }
            30 => {
                let n = self.r.pick(&["Int".to_string(), "String".into(), "Boolean".into(), "ID".into(), "Float".into()]).clone();
                let d = match self.r.below(3) {
                    0 => TDef::Scalar,
                    1 => TDef::Object(vec![fld("a", nm("Int"))], vec![]),
                    _ => TDef::Enum,
                };
                let at = self.r.below(ts.types.len() + 1);
                ts.types.insert(at, (n, d));
                Some("type named like a built-in scalar")
            }
            31 => {
                // an interface type is used covariantly by an implementor (spec-valid)
                let (t, i) = self.r.pick(&pairs).clone();
                let ifs2 = match ts.get(&i)? {
                    TDef::Interface(fs, _) => fs.clone(),
                    _ => return None,
                };
                let f = self.r.pick(&ifs2).clone();
                let base = f.ty.name().to_string();
                let sub: Vec<String> = match ts.get(&base)? {
                    TDef::Interface(..) => ts
                        .types
                        .iter()
                        .filter_map(|(n, d)| match d {
                            TDef::Object(_, im) | TDef::Interface(_, im) if im.contains(&base) => Some(n.clone()),
                            _ => None,
                        })
                        .collect(),
                    TDef::Union(ms) => ms.clone(),
                    _ => return None,
                };
                let s = self.r.pick(&sub).clone();
                if let TDef::Object(fs, _) | TDef::Interface(fs, _) = ts.get_mut(&t)? {
                    let g = fs.iter_mut().find(|g| g.name == f.name)?;
                    g.ty = f.ty.rename(&s);
                }
                Some("covariant named type")
            }
            32 => {
                // empty interface / union / input object / subscription (rules the property does not name)
                match self.r.below(3) {
                    0 => ts.types.push(("IE".into(), TDef::Interface(vec![], vec![]))),
                    1 => ts.types.push(("UE".into(), TDef::Union(vec![]))),
                    _ => ts.types.push(("NE".into(), TDef::Input(vec![], false))),
                }
                Some("empty type (not a named rule)")
            }
            _ => {
                let c = self.r.pick(&conts).clone();
                match ts.get_mut(&c)? {
                    TDef::Object(fs, _) | TDef::Interface(fs, _) | TDef::Subscription(fs) => {
                        let i = self.r.below(fs.len().max(1));
                        let f = fs.get_mut(i)?;
                        f.ty = nn(nn(f.ty.clone()));
                    }
                    _ => return None,
                }
                Some("double non-null")
            }
        }
    }
}

// the picks above index empty vectors when a schema lacks the kind; guard them
fn try_mutate(g: &mut Gen, ts: &TSys) -> (TSys, &'static str) {
    for _ in 0..60 {
        let k = g.r.below(34);
        let mut t2 = ts.clone();
        let r = {
            let g2: &mut Gen = g;
            let t2r = &mut t2;
            catch(std::panic::AssertUnwindSafe(move || g2.mutate_k(t2r, k)))
        };
        if let Some(Some(what)) = r {
            return (t2, what);
        }
    }
    (ts.clone(), "none")
}

// -------------------------------------------------------- fixed corpus -----
fn q_obj() -> (String, TDef) {
    ("Q".into(), TDef::Object(vec![fld("v", nm("Int"))], vec![]))
}

fn corpus() -> Vec<(&'static str, TSys)> {
    let base = |types: Vec<(String, TDef)>| TSys { types, query: "Q".into(), mutation: None, subscription: None };
    let iface = |n: &str, fs: Vec<Fld>, im: Vec<&str>| (n.to_string(), TDef::Interface(fs, im.iter().map(|s| s.to_string()).collect()));
    let obj = |n: &str, fs: Vec<Fld>, im: Vec<&str>| (n.to_string(), TDef::Object(fs, im.iter().map(|s| s.to_string()).collect()));
    let input = |n: &str, fs: Vec<Arg>| (n.to_string(), TDef::Input(fs, false));
    let mut v: Vec<(&'static str, TSys)> = vec![];
    v.push(("minimal", base(vec![q_obj()])));
    // K1 covariance direction
    v.push(("w-cov-accept-wrong", base(vec![q_obj(), iface("I", vec![fld("a", nn(nm("Int")))], vec![]), obj("O", vec![fld("a", nm("Int"))], vec!["I"])])));
    v.push(("w-cov-reject-wrong", base(vec![q_obj(), iface("I", vec![fld("a", nm("Int"))], vec![]), obj("O", vec![fld("a", nn(nm("Int")))], vec!["I"])])));
    v.push(("cov-list-inner", base(vec![q_obj(), iface("I", vec![fld("a", li(nm("Int")))], vec![]), obj("O", vec![fld("a", nn(li(nn(nm("Int")))))], vec!["I"])])));
    // K2 named covariance
    v.push(("w-cov-object", base(vec![
        q_obj(),
        iface("Animal", vec![fld("n", nm("Int"))], vec![]),
        obj("Dog", vec![fld("n", nm("Int"))], vec!["Animal"]),
        iface("I", vec![fld("pet", nm("Animal"))], vec![]),
        obj("O", vec![fld("pet", nm("Dog"))], vec!["I"]),
    ])));
    v.push(("w-cov-union", base(vec![
        q_obj(),
        obj("Dog", vec![fld("n", nm("Int"))], vec![]),
        ("U".into(), TDef::Union(vec!["Dog".into()])),
        iface("I", vec![fld("pet", nm("U"))], vec![]),
        obj("O", vec![fld("pet", nn(nm("Dog")))], vec!["I"]),
    ])));
    // K3 argument types
    v.push(("w-arg-subtype", base(vec![q_obj(), iface("I", vec![flda("a", nm("Int"), vec![arg("x", nm("Int"))])], vec![]), obj("O", vec![flda("a", nm("Int"), vec![arg("x", nn(nm("Int")))])], vec!["I"])])));
    v.push(("arg-weaker", base(vec![q_obj(), iface("I", vec![flda("a", nm("Int"), vec![arg("x", nn(nm("Int")))])], vec![]), obj("O", vec![flda("a", nm("Int"), vec![arg("x", nm("Int"))])], vec!["I"])])));
    // K4 extra required argument, K5 missing optional argument
    v.push(("w-extra-required-arg", base(vec![q_obj(), iface("I", vec![fld("a", nm("Int"))], vec![]), obj("O", vec![flda("a", nm("Int"), vec![arg("x", nn(nm("Int")))])], vec!["I"])])));
    v.push(("extra-optional-arg", base(vec![q_obj(), iface("I", vec![fld("a", nm("Int"))], vec![]), obj("O", vec![flda("a", nm("Int"), vec![arg("x", nm("Int"))])], vec!["I"])])));
    v.push(("extra-defaulted-arg", base(vec![q_obj(), iface("I", vec![fld("a", nm("Int"))], vec![]), obj("O", vec![flda("a", nm("Int"), vec![Arg { name: "x".into(), ty: nn(nm("Int")), default: true }])], vec!["I"])])));
    v.push(("w-missing-optional-arg", base(vec![q_obj(), iface("I", vec![flda("a", nm("Int"), vec![arg("x", nm("Int"))])], vec![]), obj("O", vec![fld("a", nm("Int"))], vec!["I"])])));
    v.push(("missing-required-arg", base(vec![q_obj(), iface("I", vec![flda("a", nm("Int"), vec![arg("x", nn(nm("Int")))])], vec![]), obj("O", vec![fld("a", nm("Int"))], vec!["I"])])));
    // K6 interface without fields
    v.push(("w-empty-interface-implements", base(vec![q_obj(), iface("G", vec![fld("g", nm("Int"))], vec![]), iface("P", vec![], vec!["G"])])));
    v.push(("w-empty-interface-self", base(vec![q_obj(), iface("P", vec![], vec!["P"])])));
    v.push(("interface-self", base(vec![q_obj(), iface("P", vec![fld("g", nm("Int"))], vec!["P"])])));
    // K7 interface implements an unregistered type
    v.push(("w-interface-implements-unknown", base(vec![q_obj(), iface("P", vec![fld("g", nm("Int"))], vec!["Nope"])])));
    v.push(("object-implements-unknown", base(vec![q_obj(), obj("O", vec![fld("g", nm("Int"))], vec!["Nope"])])));
    v.push(("interface-implements-object", base(vec![q_obj(), iface("P", vec![fld("v", nm("Int"))], vec!["Q"])])));
    // K8 transitive
    v.push(("w-transitive", base(vec![
        q_obj(),
        iface("Grand", vec![fld("g", nm("Int"))], vec![]),
        iface("Parent", vec![fld("g", nm("Int")), fld("p", nm("Int"))], vec!["Grand"]),
        obj("O", vec![fld("g", nm("Int")), fld("p", nm("Int"))], vec!["Parent"]),
    ])));
    v.push(("transitive-ok", base(vec![
        q_obj(),
        iface("Grand", vec![fld("g", nm("Int"))], vec![]),
        iface("Parent", vec![fld("g", nm("Int")), fld("p", nm("Int"))], vec!["Grand"]),
        obj("O", vec![fld("g", nm("Int")), fld("p", nm("Int"))], vec!["Parent", "Grand"]),
        ("Q2".into(), TDef::Object(vec![fld("gr", nm("Grand")), fld("pa", nn(nm("Parent")))], vec![])),
    ])));
    let mut t = v.last().unwrap().1.clone();
    t.query = "Q2".into();
    v.push(("transitive-ok-queried", t));
    // K9 subscription root missing
    v.push(("w-subscription-root-missing", TSys { types: vec![q_obj()], query: "Q".into(), mutation: None, subscription: Some("Sub".into()) }));
    v.push(("mutation-root-missing", TSys { types: vec![q_obj()], query: "Q".into(), mutation: Some("M".into()), subscription: None }));
    v.push(("query-root-missing", TSys { types: vec![("X".into(), TDef::Object(vec![fld("v", nm("Int"))], vec![]))], query: "Q".into(), mutation: None, subscription: None }));
    v.push(("subscription-root-object", TSys { types: vec![q_obj()], query: "Q".into(), mutation: None, subscription: Some("Q".into()) }));
    // K10 subscription fields unchecked
    v.push(("w-subscription-field-input", TSys {
        types: vec![q_obj(), input("N", vec![arg("k", nm("Int"))]), ("Sub".into(), TDef::Subscription(vec![fld("s", nm("N"))]))],
        query: "Q".into(), mutation: None, subscription: Some("Sub".into()),
    }));
    v.push(("w-subscription-arg-object", TSys {
        types: vec![q_obj(), ("Sub".into(), TDef::Subscription(vec![flda("s", nm("Int"), vec![arg("x", nm("Q"))])]))],
        query: "Q".into(), mutation: None, subscription: Some("Sub".into()),
    }));
    v.push(("subscription-ok", TSys {
        types: vec![q_obj(), ("Sub".into(), TDef::Subscription(vec![flda("s", nn(nm("Int")), vec![arg("x", nm("Int"))]), fld("o", li(nm("Q")))]))],
        query: "Q".into(), mutation: None, subscription: Some("Sub".into()),
    }));
    // the three unit tests of check.rs + direct self reference
    v.push(("inputs-test-ok", base(vec![
        q_obj(),
        input("Top", vec![arg("mid", nn(nm("Mid")))]),
        input("Mid", vec![arg("bottom", nm("Bot")), arg("list_bottom", nn(li(nn(nm("Bot")))))]),
        input("Bot", vec![arg("top", nn(nm("Top")))]),
    ])));
    v.push(("inputs-test-bad", base(vec![
        q_obj(),
        input("Top", vec![arg("mid", nn(nm("Mid")))]),
        input("Mid", vec![arg("bottom", nn(nm("Bot")))]),
        input("Bot", vec![arg("top", nn(nm("Top")))]),
    ])));
    v.push(("inputs-test-local-cycle", base(vec![
        q_obj(),
        input("Top", vec![arg("mid", nn(nm("Mid")))]),
        input("Mid", vec![arg("bottom", nn(nm("Bot")))]),
        input("Bot", vec![arg("mid", nn(nm("Mid")))]),
    ])));
    v.push(("inputs-self", base(vec![q_obj(), input("A", vec![arg("a", nn(nm("A")))])])));
    v.push(("inputs-self-nullable", base(vec![q_obj(), input("A", vec![arg("a", nm("A")), arg("l", nn(li(nn(nm("A")))))])])));
    v.push(("inputs-diamond", base(vec![
        q_obj(),
        input("A", vec![arg("b", nn(nm("B"))), arg("c", nn(nm("C")))]),
        input("B", vec![arg("d", nn(nm("D")))]),
        input("C", vec![arg("d", nn(nm("D")))]),
        input("D", vec![arg("k", nm("Int"))]),
    ])));
    // other boundary cases
    v.push(("union-of-interface", base(vec![q_obj(), iface("I", vec![fld("a", nm("Int"))], vec![]), ("U".into(), TDef::Union(vec!["I".into()]))])));
    v.push(("union-empty", base(vec![q_obj(), ("U".into(), TDef::Union(vec![]))])));
    v.push(("object-empty", base(vec![q_obj(), obj("O", vec![], vec![])])));
    v.push(("builtin-name", base(vec![q_obj(), ("Int".into(), TDef::Scalar)])));
    v.push(("upload-as-output", base(vec![("Upload".into(), TDef::Upload), ("Q".into(), TDef::Object(vec![fld("u", nm("Upload"))], vec![]))])));
    v.push(("upload-as-arg", base(vec![("Upload".into(), TDef::Upload), ("Q".into(), TDef::Object(vec![flda("u", nm("Int"), vec![arg("f", nn(nm("Upload")))])], vec![]))])));
    v.push(("query-root-interface", TSys { types: vec![q_obj(), iface("I", vec![fld("a", nm("Int"))], vec![])], query: "I".into(), mutation: None, subscription: None }));
    v.push(("same-root-twice", TSys { types: vec![q_obj()], query: "Q".into(), mutation: Some("Q".into()), subscription: None }));
    v
}

/// The builder API cannot express repeated names (it asserts or replaces).
fn well_named(ts: &TSys) -> bool {
    fn uniq<'a>(v: impl Iterator<Item = &'a String>) -> bool {
        let v: Vec<&String> = v.collect();
        let mut s = v.clone();
        s.sort();
        s.dedup();
        s.len() == v.len()
    }
    let fields_ok = |fs: &Vec<Fld>| uniq(fs.iter().map(|f| &f.name)) && fs.iter().all(|f| uniq(f.args.iter().map(|a| &a.name)));
    uniq(ts.types.iter().map(|(n, _)| n))
        && ts.types.iter().all(|(_, d)| match d {
            TDef::Object(fs, im) | TDef::Interface(fs, im) => fields_ok(fs) && uniq(im.iter()),
            TDef::Subscription(fs) => fields_ok(fs),
            TDef::Union(ms) => uniq(ms.iter()),
            TDef::Input(fs, _) => uniq(fs.iter().map(|a| &a.name)),
            _ => true,
        })
}

fn jstr(s: &str) -> String {
    serde_json::to_string(s).unwrap()
}

fn emit(out: &mut String, tag: &str, ts: &TSys, seed: u64) {
    let mut it = Interner::new();
    for (i, s) in ["Boolean", "Int", "Float", "String", "ID", "Upload"].iter().enumerate() {
        assert_eq!(it.id(s), 6 + i as u64);
    }
    // intern everything first so that the reserved-name table is complete
    let _ = ts.g(&mut it);
    let g = ts.g(&mut it);
    let (gi, readable) = run_real(ts, seed);
    let nontrivial = ts.types.len() > 1;
    writeln!(
        out,
        "CASE\t({g}, {gi})\t{{\"text\":{},\"impl\":{},\"tag\":{},\"nontrivial\":{}}}",
        jstr(&ts.show()),
        jstr(&readable),
        jstr(tag),
        nontrivial
    )
    .unwrap();
}

fn main() {
    let a = parse_args();
    // (Rng::new(k) and Rng::new(k+1) are the same stream shifted by one draw; fork() re-keys it)
    let mut rng = Rng::new(a.seed).fork();
    let mut out = String::new();
    let mut n = 0usize;
    for (tag, ts) in corpus() {
        emit(&mut out, tag, &ts, a.seed);
        n += 1;
    }
    while n < a.n {
        let mut g = Gen { r: &mut rng };
        let ts = g.valid();
        let roll = g.r.below(10);
        let (ts, tag) = if roll < 3 {
            (ts, "valid")
        } else if roll < 9 {
            try_mutate(&mut g, &ts)
        } else {
            let (t1, _) = try_mutate(&mut g, &ts);
            let (t2, w) = try_mutate(&mut g, &t1);
            (t2, w)
        };
        let seed = g.r.next();
        if !well_named(&ts) {
            continue;
        }
        emit(&mut out, tag, &ts, seed);
        n += 1;
    }
    std::fs::write(format!("{}/c33.cases", a.out), out).unwrap();
}

//! C07 correspondence: every built-in scalar mapping is driven through the
//! public `InputType::parse` / `InputType::to_value` API of the real library.
//!
//! Streams written to `<out>/c07.cases`:
//!   PARSE    (scalar, offered value (None = absent), what parse answered)
//!   TV       (scalar, Rust value, what to_value produced, what parsing that produced)
//!   SWEEP    (int row id, lo, run-length encoded answers for the integers lo, lo+1, ..)
//!   E2E      (scalar, route, value as the pipeline saw it, what Schema::execute echoed) — static echo schema
//!   SWEEPTV  (int row id, lo, run-length encoded (to_value, parse-back) for all values lo, lo+1, ..)
use std::fmt::Write as _;
use std::num::*;
use std::panic::AssertUnwindSafe;
use std::sync::Arc;

use agv_harness::*;
use async_graphql::resolver_utils::EnumType;
use async_graphql::{EmptyMutation, EmptySubscription, Enum, ID, InputType, InputValueResult, Name, Number, Object, Request, Schema, Value, Variables};

// ------------------------------------------------------------------ printers --
fn g_n(n: u64) -> String {
    format!("{}%N", n)
}

fn g_gv(v: &Value) -> String {
    match v {
        Value::Null => "GNull".into(),
        Value::Number(n) => {
            if let Some(i) = n.as_i64() {
                format!("(GInt {})", g_z(i as i128))
            } else if let Some(u) = n.as_u64() {
                format!("(GInt {})", g_z(u as i128))
            } else {
                format!("(GFloat {})", g_n(n.as_f64().unwrap().to_bits()))
            }
        }
        Value::String(s) => format!("(GStr {})", g_str(s)),
        Value::Boolean(b) => format!("(GBool {})", g_bool(*b)),
        Value::Binary(b) => format!("(GBinary {})", g_list(b.iter(), |x| g_n(*x as u64))),
        Value::Enum(n) => format!("(GEnum {})", g_str(n.as_str())),
        Value::List(l) => format!("(GList {})", g_list(l.iter(), g_gv)),
        Value::Object(m) => format!("(GObj {})", g_list(m.iter(), |(k, x)| format!("({}, {})", g_str(k.as_str()), g_gv(x)))),
    }
}

fn show_gv(v: &Option<Value>) -> String {
    match v {
        None => "<absent>".into(),
        Some(Value::Number(n)) if n.is_f64() => format!("{:e} (float bits {:#x})", n.as_f64().unwrap(), n.as_f64().unwrap().to_bits()),
        Some(Value::String(s)) => format!("{:?}", s),
        Some(v) => v.to_string(),
    }
}

fn jstr(s: &str) -> String {
    serde_json::to_string(s).unwrap()
}

// ------------------------------------------------------------------- scalars --
/// A Rust type behind a built-in scalar mapping: how its values print as `rv`.
trait Sc: InputType + Sized {
    fn rv(&self) -> String;
    fn show(&self) -> String;
}

macro_rules! sc_int {
    ($($t:ty),*) => {$(
        impl Sc for $t {
            fn rv(&self) -> String { format!("(RI {})", g_z(*self as i128)) }
            fn show(&self) -> String { format!("{}", self) }
        }
    )*};
}
macro_rules! sc_nz {
    ($($t:ty),*) => {$(
        impl Sc for $t {
            fn rv(&self) -> String { format!("(RI {})", g_z(self.get() as i128)) }
            fn show(&self) -> String { format!("{}", self) }
        }
    )*};
}
sc_int!(i8, i16, i32, i64, isize, u8, u16, u32, u64, usize);
sc_nz!(NonZeroI8, NonZeroI16, NonZeroI32, NonZeroI64, NonZeroIsize, NonZeroU8, NonZeroU16, NonZeroU32, NonZeroU64, NonZeroUsize);

impl Sc for f32 {
    fn rv(&self) -> String {
        format!("(RF {})", g_n(self.to_bits() as u64))
    }
    fn show(&self) -> String {
        format!("{:e} (bits {:#x})", self, self.to_bits())
    }
}
impl Sc for f64 {
    fn rv(&self) -> String {
        format!("(RF {})", g_n(self.to_bits()))
    }
    fn show(&self) -> String {
        format!("{:e} (bits {:#x})", self, self.to_bits())
    }
}
impl Sc for bool {
    fn rv(&self) -> String {
        format!("(RB {})", g_bool(*self))
    }
    fn show(&self) -> String {
        format!("{}", self)
    }
}
impl Sc for String {
    fn rv(&self) -> String {
        format!("(RS {})", g_str(self))
    }
    fn show(&self) -> String {
        format!("{:?}", self)
    }
}
impl Sc for Box<str> {
    fn rv(&self) -> String {
        format!("(RS {})", g_str(self))
    }
    fn show(&self) -> String {
        format!("{:?}", self)
    }
}
impl Sc for Arc<str> {
    fn rv(&self) -> String {
        format!("(RS {})", g_str(self))
    }
    fn show(&self) -> String {
        format!("{:?}", self)
    }
}
impl Sc for char {
    fn rv(&self) -> String {
        format!("(RC {})", g_n(*self as u64))
    }
    fn show(&self) -> String {
        format!("{:?}", self)
    }
}
impl Sc for ID {
    fn rv(&self) -> String {
        format!("(RS {})", g_str(&self.0))
    }
    fn show(&self) -> String {
        format!("ID({:?})", self.0)
    }
}

#[derive(Enum, Copy, Clone, Eq, PartialEq, Debug)]
enum Color {
    Red,
    Green,
    #[graphql(name = "blue_ish")]
    Blue,
    DarkRed,
}

#[derive(Enum, Copy, Clone, Eq, PartialEq, Debug)]
#[graphql(rename_items = "camelCase")]
enum Mode {
    FastMode,
    Slow,
    #[graphql(name = "A")]
    Weird,
}

const COLORS: [Color; 4] = [Color::Red, Color::Green, Color::Blue, Color::DarkRed];
const MODES: [Mode; 3] = [Mode::FastMode, Mode::Slow, Mode::Weird];

impl Sc for Color {
    fn rv(&self) -> String {
        format!("(RE {})", g_n(*self as u64))
    }
    fn show(&self) -> String {
        format!("{:?}", self)
    }
}
impl Sc for Mode {
    fn rv(&self) -> String {
        format!("(RE {})", g_n(*self as u64))
    }
    fn show(&self) -> String {
        format!("{:?}", self)
    }
}

/// `SEnum [...]` from the real `EnumType::items()` table.
fn g_enum<T: EnumType>(idx: impl Fn(T) -> u64) -> String {
    format!("(SEnum {})", g_list(T::items().iter(), |it| format!("({}, {})", g_str(it.name), g_n(idx(it.value)))))
}

fn out_rv<T: Sc>(r: Option<InputValueResult<T>>) -> (String, String) {
    match r {
        None => ("Panic".into(), "panic".into()),
        Some(Ok(x)) => (format!("(Ok {})", x.rv()), format!("Ok({})", x.show())),
        Some(Err(_)) => ("(Err 0%N)".into(), "Err".into()),
    }
}

fn do_parse<T: Sc>(v: Option<Value>) -> (String, String) {
    out_rv(catch(AssertUnwindSafe(move || <T as InputType>::parse(v))))
}

/// (rv, to_value result, parse-back result, readable)
fn do_tv<T: Sc>(x: &T) -> (String, String, String, String) {
    let v = catch(AssertUnwindSafe(|| <T as InputType>::to_value(x)));
    match v {
        None => (x.rv(), "Panic".into(), "Panic".into(), format!("{} -> panic", x.show())),
        Some(v) => {
            let gv = format!("(Ok {})", g_gv(&v));
            let sv = show_gv(&Some(v.clone()));
            let (b, bs) = do_parse::<T>(Some(v));
            (x.rv(), gv, b, format!("{} -> {} -> {}", x.show(), sv, bs))
        }
    }
}

struct Desc {
    name: &'static str,
    coq: String,
    parse: fn(Option<Value>) -> (String, String),
    /// integer row: (id, MIN, MAX, nonzero)
    int: Option<(u64, i128, i128, bool)>,
}

fn scalars() -> Vec<Desc> {
    let mut v = Vec::new();
    macro_rules! int {
        ($id:expr, $t:ty, $prim:ty, $nz:expr) => {
            v.push(Desc {
                name: stringify!($t),
                coq: format!("(SInt {})", g_n($id)),
                parse: do_parse::<$t>,
                int: Some(($id, <$prim>::MIN as i128, <$prim>::MAX as i128, $nz)),
            });
        };
    }
    int!(0, i8, i8, false);
    int!(1, i16, i16, false);
    int!(2, i32, i32, false);
    int!(3, i64, i64, false);
    int!(4, isize, isize, false);
    int!(5, u8, u8, false);
    int!(6, u16, u16, false);
    int!(7, u32, u32, false);
    int!(8, u64, u64, false);
    int!(9, usize, usize, false);
    int!(10, NonZeroI8, i8, true);
    int!(11, NonZeroI16, i16, true);
    int!(12, NonZeroI32, i32, true);
    int!(13, NonZeroI64, i64, true);
    int!(14, NonZeroIsize, isize, true);
    int!(15, NonZeroU8, u8, true);
    int!(16, NonZeroU16, u16, true);
    int!(17, NonZeroU32, u32, true);
    int!(18, NonZeroU64, u64, true);
    int!(19, NonZeroUsize, usize, true);
    macro_rules! other {
        ($t:ty, $coq:expr) => {
            v.push(Desc { name: stringify!($t), coq: $coq, parse: do_parse::<$t>, int: None });
        };
    }
    other!(f32, "SF32".into());
    other!(f64, "SF64".into());
    other!(bool, "SBool".into());
    other!(String, "SString".into());
    other!(Box<str>, "SBoxStr".into());
    other!(Arc<str>, "SArcStr".into());
    other!(char, "SChar".into());
    other!(ID, "SID".into());
    other!(Color, g_enum::<Color>(|c| c as u64));
    other!(Mode, g_enum::<Mode>(|c| c as u64));
    v
}

// ---------------------------------------------------------------- end to end --
/// One echo field per scalar mapping, in the order of `scalars()`: field `f<i>`.
struct Query;

#[Object]
impl Query {
    async fn f0(&self, v: i8) -> i8 { v }
    async fn f1(&self, v: i16) -> i16 { v }
    async fn f2(&self, v: i32) -> i32 { v }
    async fn f3(&self, v: i64) -> i64 { v }
    async fn f4(&self, v: isize) -> isize { v }
    async fn f5(&self, v: u8) -> u8 { v }
    async fn f6(&self, v: u16) -> u16 { v }
    async fn f7(&self, v: u32) -> u32 { v }
    async fn f8(&self, v: u64) -> u64 { v }
    async fn f9(&self, v: usize) -> usize { v }
    async fn f10(&self, v: NonZeroI8) -> NonZeroI8 { v }
    async fn f11(&self, v: NonZeroI16) -> NonZeroI16 { v }
    async fn f12(&self, v: NonZeroI32) -> NonZeroI32 { v }
    async fn f13(&self, v: NonZeroI64) -> NonZeroI64 { v }
    async fn f14(&self, v: NonZeroIsize) -> NonZeroIsize { v }
    async fn f15(&self, v: NonZeroU8) -> NonZeroU8 { v }
    async fn f16(&self, v: NonZeroU16) -> NonZeroU16 { v }
    async fn f17(&self, v: NonZeroU32) -> NonZeroU32 { v }
    async fn f18(&self, v: NonZeroU64) -> NonZeroU64 { v }
    async fn f19(&self, v: NonZeroUsize) -> NonZeroUsize { v }
    async fn f20(&self, v: f32) -> f32 { v }
    async fn f21(&self, v: f64) -> f64 { v }
    async fn f22(&self, v: bool) -> bool { v }
    async fn f23(&self, v: String) -> String { v }
    async fn f24(&self, v: Box<str>) -> String { v.into() }
    async fn f25(&self, v: Arc<str>) -> String { v.to_string() }
    async fn f26(&self, v: char) -> char { v }
    async fn f27(&self, v: ID) -> ID { v }
    async fn f28(&self, v: Color) -> Color { v }
    async fn f29(&self, v: Mode) -> Mode { v }
}

/// GraphQL type name of the scalar at index `i` of `scalars()`.
fn gql_type(i: usize) -> &'static str {
    match i {
        0..=19 => "Int",
        20 | 21 => "Float",
        22 => "Boolean",
        23..=25 => "String",
        26 => "Char",
        27 => "ID",
        28 => "Color",
        _ => "Mode",
    }
}

/// GraphQL literal text of a value (strings with JSON escapes, which are GraphQL escapes).
fn literal(v: &Value) -> Option<String> {
    Some(match v {
        Value::Null => "null".into(),
        Value::Number(n) if n.is_f64() => format!("{:?}", n.as_f64().unwrap()),
        Value::Number(n) => n.to_string(),
        Value::String(s) => serde_json::to_string(s).unwrap(),
        Value::Boolean(b) => b.to_string(),
        Value::Enum(n) => {
            let ok = !n.is_empty()
                && n.chars().all(|c| c.is_ascii_alphanumeric() || c == '_')
                && !n.chars().next().unwrap().is_ascii_digit()
                && !matches!(n.as_str(), "true" | "false" | "null");
            if !ok {
                return None;
            }
            n.to_string()
        }
        Value::Binary(_) => return None,
        Value::List(l) => format!("[{}]", l.iter().map(literal).collect::<Option<Vec<_>>>()?.join(", ")),
        Value::Object(m) => format!(
            "{{{}}}",
            m.iter().map(|(k, x)| literal(x).map(|t| format!("{}: {}", k, t))).collect::<Option<Vec<_>>>()?.join(", ")
        ),
    })
}

const ROUTES: [&str; 3] = ["literal", "variable", "variable default"];

/// Runs one value through `Schema::execute`.  Returns the case line, or None
/// when the value cannot be supplied by this route (then nothing is claimed).
fn e2e_case(schema: &Schema<Query, EmptyMutation, EmptySubscription>, d: &Desc, idx: usize, route: usize, v: Option<Value>) -> Option<String> {
    use async_graphql::parser::types::{DocumentOperations, Selection};
    let field = format!("f{idx}");
    let ty = gql_type(idx);
    let (query, vars): (String, Variables) = match (route, &v) {
        (0, None) => (format!("{{ {field} }}"), Variables::default()),
        (0, Some(x)) => (format!("{{ {field}(v: {}) }}", literal(x)?), Variables::default()),
        (1, None) => (format!("query($v: {ty}!) {{ {field}(v: $v) }}"), Variables::default()),
        (1, Some(x)) => {
            if matches!(x, Value::Enum(_) | Value::Binary(_)) {
                return None; // not expressible in JSON
            }
            let mut m = indexmap::IndexMap::new();
            m.insert(Name::new("v"), x.clone());
            (format!("query($v: {ty}!) {{ {field}(v: $v) }}"), Variables::from_value(Value::Object(m)))
        }
        (_, None) => return None,
        (_, Some(x)) => (format!("query($v: {ty}! = {}) {{ {field}(v: $v) }}", literal(x)?), Variables::default()),
    };
    // what the pipeline sees is the value as the real parser read it
    let seen: Option<Value> = match route {
        1 => v.clone(),
        _ => {
            let doc = async_graphql::parser::parse_query(&query).ok()?;
            let op = match &doc.operations {
                DocumentOperations::Single(op) => &op.node,
                DocumentOperations::Multiple(m) => &m.values().next()?.node,
            };
            if route == 0 {
                match &op.selection_set.node.items.first()?.node {
                    Selection::Field(f) => match f.node.arguments.first() {
                        Some((_, val)) => Some(val.node.clone().into_const()?),
                        None => None,
                    },
                    _ => return None,
                }
            } else {
                Some(op.variable_definitions.first()?.node.default_value.as_ref()?.node.clone())
            }
        }
    };
    let resp = catch(AssertUnwindSafe(|| block_on(schema.execute(Request::new(query.clone()).variables(vars)))));
    let (r, rs) = match resp {
        None => ("Panic".to_string(), "panic".to_string()),
        Some(resp) if !resp.errors.is_empty() => ("(Err 0%N)".to_string(), format!("Err({})", resp.errors[0].message)),
        Some(resp) => match &resp.data {
            Value::Object(m) => match m.get(field.as_str()) {
                Some(x) => (format!("(Ok {})", g_gv(x)), format!("Ok({})", show_gv(&Some(x.clone())))),
                None => ("Panic".to_string(), "no data".to_string()),
            },
            _ => ("Panic".to_string(), "no data".to_string()),
        },
    };
    let text = format!("{} <- {} via {} [{}]", d.name, show_gv(&seen), ROUTES[route], query);
    Some(format!(
        "E2E\t({}, {}, {}, {})\t{{\"text\":{},\"impl\":{},\"nontrivial\":{}}}\n",
        d.coq,
        g_n(route as u64),
        g_opt(seen.as_ref(), g_gv),
        r,
        jstr(&text),
        jstr(&rs),
        r.starts_with("(Ok")
    ))
}

// -------------------------------------------------------------------- values --
fn vint(z: i128) -> Value {
    if z < 0 { Value::Number(Number::from(z as i64)) } else { Value::Number(Number::from(z as u64)) }
}
fn vfloat(f: f64) -> Option<Value> {
    Number::from_f64(f).map(Value::Number)
}

const P63: i128 = 1i128 << 63;
const P64: i128 = 1i128 << 64;

fn int_corpus() -> Vec<i128> {
    let mut v: Vec<i128> = vec![];
    for k in [0i128, 7, 8, 15, 16, 31, 32, 53, 63] {
        let p = 1i128 << k;
        for d in -2..=2 {
            v.push(p + d);
            v.push(-p + d);
        }
    }
    for d in -2..=2 {
        v.push(d);
        v.push(P64 - 3 + d);
        v.push(24 + d);
        v.push((1 << 24) + d);
    }
    v.retain(|z| *z >= -P63 && *z < P64);
    v.sort();
    v.dedup();
    v
}

fn float_corpus() -> Vec<f64> {
    let f32max = f32::MAX as f64;
    let mid = f64::from_bits(f32max.to_bits() + (1u64 << 28)); // (2 - 2^-24) * 2^127: midpoint of f32::MAX and 2^128
    let sub = (2.0f64).powi(-149);
    let mut v = vec![
        0.0, -0.0, 1.0, -1.0, 0.5, 1.5, 2.0, 127.0, 128.0, 255.0, 256.0, -128.0, -129.0, 65535.0, 65536.0, 2147483647.0, 2147483648.0,
        4294967295.0, 9.007199254740992e15, 9.223372036854775807e18, 1.8446744073709552e19, 1e19, 1e300, -1e300, 1e39, 3.5e38,
        f32max, -f32max, mid, -mid, f64::from_bits(mid.to_bits() - 1), f64::from_bits(mid.to_bits() + 1), (2.0f64).powi(128),
        f64::MAX, f64::MIN, f64::MIN_POSITIVE, 5e-324, -5e-324, f64::from_bits(0x000f_ffff_ffff_ffff),
        sub, sub / 2.0, f64::from_bits((sub / 2.0).to_bits() + 1), f64::from_bits((sub / 2.0).to_bits() - 1), sub * 1.5, sub * 2.5, 1e-46,
        f32::MIN_POSITIVE as f64, f64::from_bits((f32::MIN_POSITIVE as f64).to_bits() - 1), 0.1, 0.3, 1.0000000596046448, 16777217.0, 3.141592653589793,
    ];
    // ties and near-ties at f32 precision
    for m in [1u64, 2, 3, 0x7f_fffe, 0x7f_ffff] {
        let base = f32::from_bits(0x3f80_0000 + m as u32) as f64;
        let half = 1u64 << 28;
        v.push(f64::from_bits(base.to_bits() + half));
        v.push(f64::from_bits(base.to_bits() + half - 1));
        v.push(f64::from_bits(base.to_bits() + half + 1));
    }
    v
}

fn string_corpus() -> Vec<&'static str> {
    vec![
        "", "a", "ab", "abc", "\u{e9}", "\u{1F600}", "a\u{1F600}", "e\u{301}", "\u{0}", " ", "1", "0", "-1", "1.0", "true", "false", "null", "RED", "Red", "red",
        "GREEN", "blue_ish", "BLUE", "DARK_RED", "DarkRed", "fastMode", "FAST_MODE", "slow", "A", "weird", "9223372036854775808", "\u{10FFFF}", "\u{D7FF}\u{E000}",
    ]
}

fn other_corpus() -> Vec<Option<Value>> {
    let mut v: Vec<Option<Value>> = vec![None, Some(Value::Null), Some(Value::Boolean(true)), Some(Value::Boolean(false))];
    v.push(Some(Value::Binary(bytes::Bytes::from_static(b""))));
    v.push(Some(Value::Binary(bytes::Bytes::from_static(b"a"))));
    v.push(Some(Value::Binary(bytes::Bytes::from_static(&[1, 2, 255]))));
    for n in ["RED", "GREEN", "blue_ish", "BLUE", "DARK_RED", "Red", "fastMode", "slow", "A", "a", "x", "true", "null", "_1", "FAST_MODE"] {
        v.push(Some(Value::Enum(Name::new(n))));
    }
    v.push(Some(Value::List(vec![])));
    v.push(Some(Value::List(vec![vint(1)])));
    v.push(Some(Value::List(vec![Value::String("a".into())])));
    v.push(Some(Value::List(vec![Value::Boolean(true)])));
    v.push(Some(Value::List(vec![Value::Enum(Name::new("RED"))])));
    v.push(Some(Value::List(vec![Value::List(vec![vint(0)])])));
    v.push(Some(Value::Object(Default::default())));
    let mut m = indexmap::IndexMap::new();
    m.insert(Name::new("a"), vint(1));
    v.push(Some(Value::Object(m.clone())));
    m.insert(Name::new("b"), Value::String("x".into()));
    v.push(Some(Value::Object(m)));
    v
}

fn rand_string(r: &mut Rng) -> String {
    let n = match r.below(10) {
        0 => 0,
        1..=5 => 1,
        6 | 7 => 2,
        _ => 1 + r.below(6),
    };
    (0..n).map(|_| rand_char(r)).collect()
}

fn rand_char(r: &mut Rng) -> char {
    loop {
        let c = match r.below(6) {
            0 | 1 => r.below(128) as u32,
            2 => r.below(0x800) as u32,
            3 => r.below(0x10000) as u32,
            4 => 0xD7F0 + r.below(0x830) as u32, // around the surrogate gap
            _ => r.below(0x110000) as u32,
        };
        if let Some(c) = char::from_u32(c) {
            return c;
        }
    }
}

fn rand_f64(r: &mut Rng) -> f64 {
    loop {
        let f = match r.below(8) {
            0 => f64::from_bits(r.next()),
            1 => (f32::from_bits(r.next() as u32)) as f64,
            2 => {
                // a finite f32 moved by up to a few f64 ulps around a rounding boundary
                let b = f32::from_bits(r.next() as u32) as f64;
                let off = (1u64 << 28) as i64 + r.range(-2, 2);
                f64::from_bits((b.to_bits() as i64 + if r.chance(1, 2) { off } else { r.range(-3, 3) }) as u64)
            }
            3 => {
                // around the f32 overflow threshold
                let mid = (f32::MAX as f64).to_bits() + (1u64 << 28);
                let f = f64::from_bits((mid as i64 + r.range(-4, 4) * if r.chance(1, 2) { 1 } else { 1 << 20 }) as u64);
                if r.chance(1, 2) { f } else { -f }
            }
            4 => {
                // f32 subnormal range and below
                let e = r.range(-160, -120) as i32;
                (1.0 + (r.below(1 << 20) as f64) / (1u64 << 20) as f64) * (2.0f64).powi(e) * if r.chance(1, 2) { 1.0 } else { -1.0 }
            }
            5 => r.range(-1000, 1000) as f64 / 8.0,
            6 => (r.next() as i64) as f64,
            _ => (r.next() as f64) * if r.chance(1, 2) { 1.0 } else { 1e5 },
        };
        if f.is_finite() {
            return f;
        }
    }
}

fn rand_int(r: &mut Rng, lo: i128, hi: i128) -> i128 {
    let z = match r.below(8) {
        0 => lo + r.range(-3, 3) as i128,
        1 => hi + r.range(-3, 3) as i128,
        2 => r.range(-3, 3) as i128,
        3 => {
            let k = r.below(65);
            (1i128 << k) + r.range(-2, 2) as i128
        }
        4 => {
            let k = r.below(64);
            -(1i128 << k) + r.range(-2, 2) as i128
        }
        5 => (r.next() as i64) as i128,
        6 => r.next() as i128,
        _ => {
            let span = (hi - lo + 1) as u128;
            lo + ((r.next() as u128) % span) as i128
        }
    };
    z.clamp(-P63, P64 - 1)
}

// ---------------------------------------------------------------- generators --
struct Out {
    s: String,
}

impl Out {
    fn parse_case(&mut self, d: &Desc, v: Option<Value>) {
        let gv = g_opt(v.as_ref(), g_gv);
        let text = format!("{} <- {}", d.name, show_gv(&v));
        let (r, rs) = (d.parse)(v);
        let nontrivial = r.starts_with("(Ok");
        writeln!(
            self.s,
            "PARSE\t({}, {}, {})\t{{\"text\":{},\"impl\":{},\"nontrivial\":{}}}",
            d.coq,
            gv,
            r,
            jstr(&text),
            jstr(&rs),
            nontrivial
        )
        .unwrap();
    }

    fn tv_case<T: Sc>(&mut self, name: &str, coq: &str, x: &T) {
        let (rv, gv, back, text) = do_tv(x);
        writeln!(
            self.s,
            "TV\t({}, {}, {}, {})\t{{\"text\":{},\"impl\":{},\"nontrivial\":true}}",
            coq,
            rv,
            gv,
            back,
            jstr(&format!("{}: {}", name, text)),
            jstr(&text)
        )
        .unwrap();
    }
}

fn rle<T: PartialEq + Clone>(items: impl Iterator<Item = T>) -> Vec<(u64, T)> {
    let mut runs: Vec<(u64, T)> = vec![];
    for it in items {
        match runs.last_mut() {
            Some((c, x)) if *x == it => *c += 1,
            _ => runs.push((1, it)),
        }
    }
    runs
}

fn delta(z: i128, r: &str) -> String {
    // r is "(Ok (RI (x)%Z))" | "(Err 0%N)" | "Panic"
    if let Some(rest) = r.strip_prefix("(Ok (RI (") {
        let x: i128 = rest.trim_end_matches(")%Z))").parse().unwrap();
        format!("Ok {}", g_z(x - z))
    } else if r == "Panic" {
        "Panic".into()
    } else {
        "Err 0%N".into()
    }
}

fn sweep(out: &mut Out, d: &Desc, lo: i128, hi: i128) {
    let (id, ..) = d.int.unwrap();
    let lo = lo.max(-P63);
    let hi = hi.min(P64 - 1);
    if lo > hi {
        return;
    }
    let runs = rle((lo..=hi).map(|z| delta(z, &(d.parse)(Some(vint(z))).0)));
    let accepted: u64 = runs.iter().filter(|(_, r)| r.starts_with("Ok")).map(|(c, _)| *c).sum();
    writeln!(
        out.s,
        "SWEEP\t({}, {}, {})\t{{\"text\":{},\"impl\":{},\"nontrivial\":true}}",
        g_n(id),
        g_z(lo),
        g_list(runs.iter(), |(c, r)| format!("({}, {})", g_n(*c), r)),
        jstr(&format!("{} <- every integer in [{}, {}]", d.name, lo, hi)),
        jstr(&format!("{} accepted of {}, {} runs", accepted, hi - lo + 1, runs.len()))
    )
    .unwrap();
}

fn sweep_tv<T: Sc>(out: &mut Out, id: u64, name: &str, lo: i128, hi: i128, mk: impl Fn(i128) -> T) {
    if lo > hi {
        return;
    }
    let runs = rle((lo..=hi).map(|x| {
        let t = mk(x);
        let (_, gv, back, _) = do_tv(&t);
        let dv = if let Some(rest) = gv.strip_prefix("(Ok (GInt (") {
            let y: i128 = rest.trim_end_matches(")%Z))").parse().unwrap();
            format!("Ok {}", g_z(y - x))
        } else if gv == "Panic" {
            "Panic".to_string()
        } else {
            "Err 0%N".to_string() // to_value produced something that is not an integer
        };
        format!("({}, {})", dv, delta(x, &back))
    }));
    writeln!(
        out.s,
        "SWEEPTV\t({}, {}, {})\t{{\"text\":{},\"impl\":{},\"nontrivial\":true}}",
        g_n(id),
        g_z(lo),
        g_list(runs.iter(), |(c, r)| format!("({}, {})", g_n(*c), r)),
        jstr(&format!("{}: to_value and back for every value in [{}, {}]", name, lo, hi)),
        jstr(&format!("{} runs", runs.len()))
    )
    .unwrap();
}

fn main() {
    let a = parse_args();
    assert!(usize::BITS == 64, "the model fixes isize/usize to 64 bits");
    let thorough = a.n >= 20000;
    let mut rng = Rng::new(a.seed);
    let mut out = Out { s: String::new() };
    let scs = scalars();

    // ---- fixed corpus: every value kind offered to every scalar
    let ints = int_corpus();
    let floats = float_corpus();
    let strings = string_corpus();
    let others = other_corpus();
    for d in &scs {
        // numeric scalars (and ID) see every boundary number, the others a thinned selection
        let numeric = d.int.is_some() || matches!(d.name, "f32" | "f64" | "ID");
        for z in ints.iter().step_by(if numeric { 1 } else { 7 }) {
            out.parse_case(d, Some(vint(*z)));
        }
        for f in floats.iter().step_by(if numeric { 1 } else { 5 }) {
            out.parse_case(d, vfloat(*f));
        }
        for s in &strings {
            out.parse_case(d, Some(Value::String((*s).into())));
        }
        for v in &others {
            out.parse_case(d, v.clone());
        }
    }
    // every ASCII character, alone and doubled, for char
    let chard = scs.iter().find(|d| d.name == "char").unwrap();
    for c in 0u8..128 {
        out.parse_case(chard, Some(Value::String((c as char).to_string())));
        out.parse_case(chard, Some(Value::String(format!("{}{}", c as char, c as char))));
    }

    // ---- exhaustive sweeps of the integer rows
    let w_main: i128 = 70000;
    let w_edge: i128 = if thorough { 70000 } else { 3000 };
    for d in scs.iter().filter(|d| d.int.is_some()) {
        sweep(&mut out, d, -w_main, w_main);
        for c in [-P63, -(1i128 << 31), 1i128 << 31, 1i128 << 32, P63, P64 - 1] {
            sweep(&mut out, d, c - w_edge, c + w_edge);
        }
    }
    macro_rules! stv {
        ($id:expr, $t:ty, $prim:ty) => {
            sweep_tv::<$t>(&mut out, $id, stringify!($t), <$prim>::MIN as i128, <$prim>::MAX as i128, |x| x as $t);
        };
    }
    macro_rules! stv_nz {
        ($id:expr, $t:ty, $prim:ty) => {
            sweep_tv::<$t>(&mut out, $id, stringify!($t), <$prim>::MIN as i128, -1, |x| <$t>::new(x as $prim).unwrap());
            sweep_tv::<$t>(&mut out, $id, stringify!($t), 1, <$prim>::MAX as i128, |x| <$t>::new(x as $prim).unwrap());
        };
    }
    stv!(0, i8, i8);
    stv!(1, i16, i16);
    stv!(5, u8, u8);
    stv!(6, u16, u16);
    stv_nz!(10, NonZeroI8, i8);
    stv_nz!(11, NonZeroI16, i16);
    stv_nz!(15, NonZeroU8, u8);
    stv_nz!(16, NonZeroU16, u16);

    // ---- to_value / round trip: fixed values
    macro_rules! tv_ints {
        ($id:expr, $t:ty, $prim:ty, $mk:expr, $nz:expr) => {{
            let coq = format!("(SInt {})", g_n($id));
            let lo = <$prim>::MIN as i128;
            let hi = <$prim>::MAX as i128;
            let mut xs: Vec<i128> = vec![lo, lo + 1, hi - 1, hi, -1, 0, 1, 2, 127, 128, 255, 256, 32767, 32768, 65535, 65536];
            for _ in 0..(if thorough { 200 } else { 24 }) {
                xs.push(rand_int(&mut rng, lo, hi));
            }
            for x in xs {
                if x < lo || x > hi || ($nz && x == 0) {
                    continue;
                }
                let f: fn(i128) -> $t = $mk;
                out.tv_case::<$t>(stringify!($t), &coq, &f(x));
            }
        }};
    }
    tv_ints!(2, i32, i32, |x| x as i32, false);
    tv_ints!(3, i64, i64, |x| x as i64, false);
    tv_ints!(4, isize, isize, |x| x as isize, false);
    tv_ints!(7, u32, u32, |x| x as u32, false);
    tv_ints!(8, u64, u64, |x| x as u64, false);
    tv_ints!(9, usize, usize, |x| x as usize, false);
    tv_ints!(12, NonZeroI32, i32, |x| NonZeroI32::new(x as i32).unwrap(), true);
    tv_ints!(13, NonZeroI64, i64, |x| NonZeroI64::new(x as i64).unwrap(), true);
    tv_ints!(14, NonZeroIsize, isize, |x| NonZeroIsize::new(x as isize).unwrap(), true);
    tv_ints!(17, NonZeroU32, u32, |x| NonZeroU32::new(x as u32).unwrap(), true);
    tv_ints!(18, NonZeroU64, u64, |x| NonZeroU64::new(x as u64).unwrap(), true);
    tv_ints!(19, NonZeroUsize, usize, |x| NonZeroUsize::new(x as usize).unwrap(), true);

    // all float classes
    let f64s = [
        0.0, -0.0, 1.0, -1.0, 0.1, f64::MAX, f64::MIN, f64::MIN_POSITIVE, 5e-324, -5e-324, f64::EPSILON, 1e300, 1.5, 9.007199254740993e15,
        f64::INFINITY, f64::NEG_INFINITY, f64::NAN, f64::from_bits(0x7ff0_0000_0000_0001), f64::from_bits(0xfff8_0000_0000_0000), f64::from_bits(0x000f_ffff_ffff_ffff),
    ];
    for x in f64s {
        out.tv_case::<f64>("f64", "SF64", &x);
    }
    let f32s = [
        0.0f32, -0.0, 1.0, -1.0, 0.1, f32::MAX, f32::MIN, f32::MIN_POSITIVE, f32::from_bits(1), f32::from_bits(0x8000_0001), f32::from_bits(0x007f_ffff), f32::EPSILON, 1.5, 16777216.0,
        f32::INFINITY, f32::NEG_INFINITY, f32::NAN, f32::from_bits(0x7f80_0001), f32::from_bits(0xffc0_0000), f32::from_bits(0x0080_0001),
    ];
    for x in f32s {
        out.tv_case::<f32>("f32", "SF32", &x);
    }
    for b in [true, false] {
        out.tv_case::<bool>("bool", "SBool", &b);
    }
    for s in string_corpus() {
        out.tv_case::<String>("String", "SString", &s.to_string());
        out.tv_case::<Box<str>>("Box<str>", "SBoxStr", &Box::<str>::from(s));
        out.tv_case::<Arc<str>>("Arc<str>", "SArcStr", &Arc::<str>::from(s));
        out.tv_case::<ID>("ID", "SID", &ID(s.to_string()));
    }
    for z in [0i64, 1, -1, 10, -10, 99, 100, 1234567890, i64::MAX, i64::MIN] {
        out.tv_case::<ID>("ID", "SID", &ID::from(z));
    }
    for c in 0u8..128 {
        out.tv_case::<char>("char", "SChar", &(c as char));
    }
    for c in ['\u{80}', '\u{7ff}', '\u{800}', '\u{d7ff}', '\u{e000}', '\u{ffff}', '\u{10000}', '\u{10ffff}'] {
        out.tv_case::<char>("char", "SChar", &c);
    }
    let color = g_enum::<Color>(|c| c as u64);
    let mode = g_enum::<Mode>(|c| c as u64);
    for c in COLORS {
        out.tv_case::<Color>("Color", &color, &c);
    }
    for c in MODES {
        out.tv_case::<Mode>("Mode", &mode, &c);
    }

    // ---- random cases
    let n = a.n;
    for i in 0..n {
        let d = &scs[if i % 3 == 0 { rng.below(scs.len()) } else { i % scs.len() }];
        let v: Option<Value> = match (d.int, d.name) {
            (Some((_, lo, hi, _)), _) => match rng.below(10) {
                0..=6 => Some(vint(rand_int(&mut rng, lo, hi))),
                7 => {
                    // the same number as a float (integral floats do not denote integers)
                    let z = rand_int(&mut rng, lo, hi);
                    vfloat(z as f64)
                }
                8 => vfloat(rand_f64(&mut rng)),
                _ => Some(Value::String(rand_int(&mut rng, lo, hi).to_string())),
            },
            (None, "f32") | (None, "f64") => match rng.below(10) {
                0..=5 => vfloat(rand_f64(&mut rng)),
                6..=8 => Some(vint(rand_int(&mut rng, -P63, P64 - 1))),
                _ => Some(Value::String(format!("{}", rand_f64(&mut rng)))),
            },
            (None, "bool") => match rng.below(4) {
                0 => Some(Value::Boolean(rng.chance(1, 2))),
                1 => Some(vint(rng.range(0, 1) as i128)),
                2 => Some(Value::String((*rng.pick(&["true", "false", "1", "0"])).into())),
                _ => Some(Value::Enum(Name::new(*rng.pick(&["true", "false", "TRUE", "t"])))),
            },
            (None, "Color") | (None, "Mode") => {
                let names = ["RED", "GREEN", "blue_ish", "DARK_RED", "fastMode", "slow", "A", "BLUE", "red", "FAST_MODE", "WEIRD", "weird", "DARKRED", "RED ", ""];
                let s = if rng.chance(4, 5) { (*rng.pick(&names)).to_string() } else { rand_string(&mut rng) };
                match rng.below(5) {
                    0 | 1 => match catch(AssertUnwindSafe(|| Name::new(&s))) {
                        Some(n) => Some(Value::Enum(n)),
                        None => Some(Value::String(s)),
                    },
                    2 | 3 => Some(Value::String(s)),
                    _ => Some(vint(rng.range(-1, 4) as i128)),
                }
            }
            _ => match rng.below(10) {
                0..=6 => Some(Value::String(rand_string(&mut rng))),
                7 | 8 => Some(vint(rand_int(&mut rng, -P63, P64 - 1))),
                _ => vfloat(rand_f64(&mut rng)),
            },
        };
        out.parse_case(d, v);
        // a random Rust value of a random wide / non-integer type through to_value and back
        if i % 2 == 0 {
            match rng.below(8) {
                0 => out.tv_case::<f64>("f64", "SF64", &f64::from_bits(rng.next())),
                1 => out.tv_case::<f32>("f32", "SF32", &f32::from_bits(rng.next() as u32)),
                2 => out.tv_case::<char>("char", "SChar", &rand_char(&mut rng)),
                3 => out.tv_case::<String>("String", "SString", &rand_string(&mut rng)),
                4 => out.tv_case::<ID>("ID", "SID", &ID(rand_string(&mut rng))),
                5 => out.tv_case::<i64>("i64", "(SInt 3%N)", &(rng.next() as i64)),
                6 => out.tv_case::<u64>("u64", "(SInt 8%N)", &rng.next()),
                _ => out.tv_case::<f32>("f32", "SF32", &(rand_f64(&mut rng) as f32)),
            }
        }
    }
    // ---- end to end: the same values through Schema::execute, three supply routes
    let schema = Schema::build(Query, EmptyMutation, EmptySubscription).finish();
    let extra_strings = ["\u{e9}", "\u{df}", "\u{416}", "\u{20ac}", "\u{4e2d}", "\u{1F600}", "\u{10FFFF}", "\u{80}", "\u{7f}", "\u{7ff}", "\u{800}", "\u{ffff}", "\u{10000}", "e\u{301}", "\u{e9}\u{e9}", "\u{1F1E9}\u{1F1EA}", "\u{200d}", "ab\u{e9}"];
    for (idx, d) in scs.iter().enumerate() {
        let numeric = d.int.is_some() || matches!(d.name, "f32" | "f64");
        let is_float = matches!(d.name, "f32" | "f64");
        // few values: every route; the other scalars rotate the route over their corpus
        let all_routes = matches!(d.name, "char" | "ID" | "String");
        let mut vals: Vec<Option<Value>> = vec![];
        for z in ints.iter().step_by(if d.int.is_some() { 1 } else if is_float { 3 } else if d.name == "ID" { 2 } else { 11 }) {
            vals.push(Some(vint(*z)));
        }
        for f in floats.iter().step_by(if is_float { 1 } else if numeric { 4 } else { 9 }) {
            vals.push(vfloat(*f));
        }
        for s in strings.iter().step_by(if numeric { 6 } else { 1 }) {
            vals.push(Some(Value::String((*s).into())));
        }
        if !numeric {
            for s in extra_strings {
                vals.push(Some(Value::String(s.into())));
            }
        }
        for v in others.iter().step_by(if numeric { 4 } else { 1 }) {
            vals.push(v.clone());
        }
        if d.name == "char" {
            for c in (0u8..128).step_by(3) {
                vals.push(Some(Value::String((c as char).to_string())));
            }
            for _ in 0..40 {
                vals.push(Some(Value::String(rand_char(&mut rng).to_string())));
            }
        }
        for (k, v) in vals.into_iter().enumerate() {
            for route in 0..3 {
                if all_routes || (k + idx) % 3 == route {
                    if let Some(line) = e2e_case(&schema, d, idx, route, v.clone()) {
                        out.s.push_str(&line);
                    }
                }
            }
        }
    }
    // random values, random route
    for i in 0..(n / 3) {
        let idx = if i % 4 == 0 { 26 } else { rng.below(scs.len()) };
        let d = &scs[idx];
        let v: Option<Value> = match d.int {
            Some((_, lo, hi, _)) => {
                if rng.chance(4, 5) { Some(vint(rand_int(&mut rng, lo, hi))) } else { vfloat(rand_int(&mut rng, lo, hi) as f64) }
            }
            None if idx == 20 || idx == 21 => {
                if rng.chance(2, 3) { vfloat(rand_f64(&mut rng)) } else { Some(vint(rand_int(&mut rng, -P63, P64 - 1))) }
            }
            None if idx == 27 => {
                if rng.chance(1, 2) { Some(vint(rand_int(&mut rng, -P63, P64 - 1))) } else { Some(Value::String(rand_string(&mut rng))) }
            }
            None => Some(Value::String(if idx == 26 && rng.chance(2, 3) { rand_char(&mut rng).to_string() } else { rand_string(&mut rng) })),
        };
        if let Some(line) = e2e_case(&schema, d, idx, rng.below(3), v) {
            out.s.push_str(&line);
        }
    }
    std::fs::write(format!("{}/c07.cases", a.out), out.s).unwrap();
}

//! C07 correspondence: every built-in scalar mapping is driven through the
//! public `InputType::parse` / `InputType::to_value` API of the real library.
//!
//! Streams written to `<out>/c07.cases`:
//!   PARSE    (scalar, offered value (None = absent), what parse answered)
//!   TV       (scalar, Rust value, what to_value produced, what parsing that produced)
//!   SWEEP    (int row id, lo, run-length encoded answers for the integers lo, lo+1, ..)
//!   SWEEPTV  (int row id, lo, run-length encoded (to_value, parse-back) for all values lo, lo+1, ..)
use std::fmt::Write as _;
use std::num::*;
use std::panic::AssertUnwindSafe;
use std::sync::Arc;

use agv_harness::*;
use async_graphql::resolver_utils::EnumType;
use async_graphql::{Enum, ID, InputType, InputValueResult, Name, Number, Value};

// ------------------------------------------------------------------ printers --
fn g_n(n: u64) -> String {
    format!("{}%N", n)
}

fn g_gv(v: &Value) -> String {
    match v {
        Value::Null => "GNull".into(),
        Value::Number(n) => {
            if let Some(i) = n.as_i64() {
                format!("(GInt {})", g_z(i as i128))
            } else if let Some(u) = n.as_u64() {
                format!("(GInt {})", g_z(u as i128))
            } else {
                format!("(GFloat {})", g_n(n.as_f64().unwrap().to_bits()))
            }
        }
        Value::String(s) => format!("(GStr {})", g_str(s)),
        Value::Boolean(b) => format!("(GBool {})", g_bool(*b)),
        Value::Binary(b) => format!("(GBinary {})", g_list(b.iter(), |x| g_n(*x as u64))),
        Value::Enum(n) => format!("(GEnum {})", g_str(n.as_str())),
        Value::List(l) => format!("(GList {})", g_list(l.iter(), g_gv)),
        Value::Object(m) => format!("(GObj {})", g_list(m.iter(), |(k, x)| format!("({}, {})", g_str(k.as_str()), g_gv(x)))),
    }
}

fn show_gv(v: &Option<Value>) -> String {
    match v {
        None => "<absent>".into(),
        Some(Value::Number(n)) if n.is_f64() => format!("{:e} (float bits {:#x})", n.as_f64().unwrap(), n.as_f64().unwrap().to_bits()),
        Some(Value::String(s)) => format!("{:?}", s),
        Some(v) => v.to_string(),
    }
}

fn jstr(s: &str) -> String {
    serde_json::to_string(s).unwrap()
}

// ------------------------------------------------------------------- scalars --
/// A Rust type behind a built-in scalar mapping: how its values print as `rv`.
trait Sc: InputType + Sized {
    fn rv(&self) -> String;
    fn show(&self) -> String;
}

macro_rules! sc_int {
    ($($t:ty),*) => {$(
        impl Sc for $t {
            fn rv(&self) -> String { format!("(RI {})", g_z(*self as i128)) }
            fn show(&self) -> String { format!("{}", self) }
        }
    )*};
}
macro_rules! sc_nz {
    ($($t:ty),*) => {$(
        impl Sc for $t {
            fn rv(&self) -> String { format!("(RI {})", g_z(self.get() as i128)) }
            fn show(&self) -> String { format!("{}", self) }
        }
    )*};
}
sc_int!(i8, i16, i32, i64, isize, u8, u16, u32, u64, usize);
sc_nz!(NonZeroI8, NonZeroI16, NonZeroI32, NonZeroI64, NonZeroIsize, NonZeroU8, NonZeroU16, NonZeroU32, NonZeroU64, NonZeroUsize);

impl Sc for f32 {
    fn rv(&self) -> String {
        format!("(RF {})", g_n(self.to_bits() as u64))
    }
    fn show(&self) -> String {
        format!("{:e} (bits {:#x})", self, self.to_bits())
    }
}
impl Sc for f64 {
    fn rv(&self) -> String {
        format!("(RF {})", g_n(self.to_bits()))
    }
    fn show(&self) -> String {
        format!("{:e} (bits {:#x})", self, self.to_bits())
    }
}
impl Sc for bool {
    fn rv(&self) -> String {
        format!("(RB {})", g_bool(*self))
    }
    fn show(&self) -> String {
        format!("{}", self)
    }
}
impl Sc for String {
    fn rv(&self) -> String {
        format!("(RS {})", g_str(self))
    }
    fn show(&self) -> String {
        format!("{:?}", self)
    }
}
impl Sc for Box<str> {
    fn rv(&self) -> String {
        format!("(RS {})", g_str(self))
    }
    fn show(&self) -> String {
        format!("{:?}", self)
    }
}
impl Sc for Arc<str> {
    fn rv(&self) -> String {
        format!("(RS {})", g_str(self))
    }
    fn show(&self) -> String {
        format!("{:?}", self)
    }
}
impl Sc for char {
    fn rv(&self) -> String {
        format!("(RC {})", g_n(*self as u64))
    }
    fn show(&self) -> String {
        format!("{:?}", self)
    }
}
impl Sc for ID {
    fn rv(&self) -> String {
        format!("(RS {})", g_str(&self.0))
    }
    fn show(&self) -> String {
        format!("ID({:?})", self.0)
    }
}

#[derive(Enum, Copy, Clone, Eq, PartialEq, Debug)]
enum Color {
    Red,
    Green,
    #[graphql(name = "blue_ish")]
    Blue,
    DarkRed,
}

#[derive(Enum, Copy, Clone, Eq, PartialEq, Debug)]
#[graphql(rename_items = "camelCase")]
enum Mode {
    FastMode,
    Slow,
    #[graphql(name = "A")]
    Weird,
}

const COLORS: [Color; 4] = [Color::Red, Color::Green, Color::Blue, Color::DarkRed];
const MODES: [Mode; 3] = [Mode::FastMode, Mode::Slow, Mode::Weird];

impl Sc for Color {
    fn rv(&self) -> String {
        format!("(RE {})", g_n(*self as u64))
    }
    fn show(&self) -> String {
        format!("{:?}", self)
    }
}
impl Sc for Mode {
    fn rv(&self) -> String {
        format!("(RE {})", g_n(*self as u64))
    }
    fn show(&self) -> String {
        format!("{:?}", self)
    }
}

/// `SEnum [...]` from the real `EnumType::items()` table.
fn g_enum<T: EnumType>(idx: impl Fn(T) -> u64) -> String {
    format!("(SEnum {})", g_list(T::items().iter(), |it| format!("({}, {})", g_str(it.name), g_n(idx(it.value)))))
}

fn out_rv<T: Sc>(r: Option<InputValueResult<T>>) -> (String, String) {
    match r {
        None => ("Panic".into(), "panic".into()),
        Some(Ok(x)) => (format!("(Ok {})", x.rv()), format!("Ok({})", x.show())),
        Some(Err(_)) => ("(Err 0%N)".into(), "Err".into()),
    }
}

fn do_parse<T: Sc>(v: Option<Value>) -> (String, String) {
    out_rv(catch(AssertUnwindSafe(move || <T as InputType>::parse(v))))
}

/// (rv, to_value result, parse-back result, readable)
fn do_tv<T: Sc>(x: &T) -> (String, String, String, String) {
    let v = catch(AssertUnwindSafe(|| <T as InputType>::to_value(x)));
    match v {
        None => (x.rv(), "Panic".into(), "Panic".into(), format!("{} -> panic", x.show())),
        Some(v) => {
            let gv = format!("(Ok {})", g_gv(&v));
            let sv = show_gv(&Some(v.clone()));
            let (b, bs) = do_parse::<T>(Some(v));
            (x.rv(), gv, b, format!("{} -> {} -> {}", x.show(), sv, bs))
        }
    }
}

struct Desc {
    name: &'static str,
    coq: String,
    parse: fn(Option<Value>) -> (String, String),
    /// integer row: (id, MIN, MAX, nonzero)
    int: Option<(u64, i128, i128, bool)>,
}

fn scalars() -> Vec<Desc> {
    let mut v = Vec::new();
    macro_rules! int {
        ($id:expr, $t:ty, $prim:ty, $nz:expr) => {
            v.push(Desc {
                name: stringify!($t),
                coq: format!("(SInt {})", g_n($id)),
                parse: do_parse::<$t>,
                int: Some(($id, <$prim>::MIN as i128, <$prim>::MAX as i128, $nz)),
            });
        };
    }
    int!(0, i8, i8, false);
    int!(1, i16, i16, false);
    int!(2, i32, i32, false);
    int!(3, i64, i64, false);
    int!(4, isize, isize, false);
    int!(5, u8, u8, false);
    int!(6, u16, u16, false);
    int!(7, u32, u32, false);
    int!(8, u64, u64, false);
    int!(9, usize, usize, false);
    int!(10, NonZeroI8, i8, true);
    int!(11, NonZeroI16, i16, true);
    int!(12, NonZeroI32, i32, true);
    int!(13, NonZeroI64, i64, true);
    int!(14, NonZeroIsize, isize, true);
    int!(15, NonZeroU8, u8, true);
    int!(16, NonZeroU16, u16, true);
    int!(17, NonZeroU32, u32, true);
    int!(18, NonZeroU64, u64, true);
    int!(19, NonZeroUsize, usize, true);
    macro_rules! other {
        ($t:ty, $coq:expr) => {
            v.push(Desc { name: stringify!($t), coq: $coq, parse: do_parse::<$t>, int: None });
        };
    }
    other!(f32, "SF32".into());
    other!(f64, "SF64".into());
    other!(bool, "SBool".into());
    other!(String, "SString".into());
    other!(Box<str>, "SBoxStr".into());
    other!(Arc<str>, "SArcStr".into());
    other!(char, "SChar".into());
    other!(ID, "SID".into());
    other!(Color, g_enum::<Color>(|c| c as u64));
    other!(Mode, g_enum::<Mode>(|c| c as u64));
    v
}

// -------------------------------------------------------------------- values --
fn vint(z: i128) -> Value {
    if z < 0 { Value::Number(Number::from(z as i64)) } else { Value::Number(Number::from(z as u64)) }
}
fn vfloat(f: f64) -> Option<Value> {
    Number::from_f64(f).map(Value::Number)
}

const P63: i128 = 1i128 << 63;
const P64: i128 = 1i128 << 64;

fn int_corpus() -> Vec<i128> {
    let mut v: Vec<i128> = vec![];
    for k in [0i128, 7, 8, 15, 16, 31, 32, 53, 63] {
        let p = 1i128 << k;
        for d in -2..=2 {
            v.push(p + d);
            v.push(-p + d);
        }
    }
    for d in -2..=2 {
        v.push(d);
        v.push(P64 - 3 + d);
        v.push(24 + d);
        v.push((1 << 24) + d);
    }
    v.retain(|z| *z >= -P63 && *z < P64);
    v.sort();
    v.dedup();
    v
}

fn float_corpus() -> Vec<f64> {
    let f32max = f32::MAX as f64;
    let mid = f64::from_bits(f32max.to_bits() + (1u64 << 28)); // (2 - 2^-24) * 2^127: midpoint of f32::MAX and 2^128
    let sub = (2.0f64).powi(-149);
    let mut v = vec![
        0.0, -0.0, 1.0, -1.0, 0.5, 1.5, 2.0, 127.0, 128.0, 255.0, 256.0, -128.0, -129.0, 65535.0, 65536.0, 2147483647.0, 2147483648.0,
        4294967295.0, 9.007199254740992e15, 9.223372036854775807e18, 1.8446744073709552e19, 1e19, 1e300, -1e300, 1e39, 3.5e38,
        f32max, -f32max, mid, -mid, f64::from_bits(mid.to_bits() - 1), f64::from_bits(mid.to_bits() + 1), (2.0f64).powi(128),
        f64::MAX, f64::MIN, f64::MIN_POSITIVE, 5e-324, -5e-324, f64::from_bits(0x000f_ffff_ffff_ffff),
        sub, sub / 2.0, f64::from_bits((sub / 2.0).to_bits() + 1), f64::from_bits((sub / 2.0).to_bits() - 1), sub * 1.5, sub * 2.5, 1e-46,
        f32::MIN_POSITIVE as f64, f64::from_bits((f32::MIN_POSITIVE as f64).to_bits() - 1), 0.1, 0.3, 1.0000000596046448, 16777217.0, 3.141592653589793,
    ];
    // ties and near-ties at f32 precision
    for m in [1u64, 2, 3, 0x7f_fffe, 0x7f_ffff] {
        let base = f32::from_bits(0x3f80_0000 + m as u32) as f64;
        let half = 1u64 << 28;
        v.push(f64::from_bits(base.to_bits() + half));
        v.push(f64::from_bits(base.to_bits() + half - 1));
        v.push(f64::from_bits(base.to_bits() + half + 1));
    }
    v
}

fn string_corpus() -> Vec<&'static str> {
    vec![
        "", "a", "ab", "abc", "\u{e9}", "\u{1F600}", "a\u{1F600}", "e\u{301}", "\u{0}", " ", "1", "0", "-1", "1.0", "true", "false", "null", "RED", "Red", "red",
        "GREEN", "blue_ish", "BLUE", "DARK_RED", "DarkRed", "fastMode", "FAST_MODE", "slow", "A", "weird", "9223372036854775808", "\u{10FFFF}", "\u{D7FF}\u{E000}",
    ]
}

fn other_corpus() -> Vec<Option<Value>> {
    let mut v: Vec<Option<Value>> = vec![None, Some(Value::Null), Some(Value::Boolean(true)), Some(Value::Boolean(false))];
    v.push(Some(Value::Binary(bytes::Bytes::from_static(b""))));
    v.push(Some(Value::Binary(bytes::Bytes::from_static(b"a"))));
    v.push(Some(Value::Binary(bytes::Bytes::from_static(&[1, 2, 255]))));
    for n in ["RED", "GREEN", "blue_ish", "BLUE", "DARK_RED", "Red", "fastMode", "slow", "A", "a", "x", "true", "null", "_1", "FAST_MODE"] {
        v.push(Some(Value::Enum(Name::new(n))));
    }
    v.push(Some(Value::List(vec![])));
    v.push(Some(Value::List(vec![vint(1)])));
    v.push(Some(Value::List(vec![Value::String("a".into())])));
    v.push(Some(Value::List(vec![Value::Boolean(true)])));
    v.push(Some(Value::List(vec![Value::Enum(Name::new("RED"))])));
    v.push(Some(Value::List(vec![Value::List(vec![vint(0)])])));
    v.push(Some(Value::Object(Default::default())));
    let mut m = indexmap::IndexMap::new();
    m.insert(Name::new("a"), vint(1));
    v.push(Some(Value::Object(m.clone())));
    m.insert(Name::new("b"), Value::String("x".into()));
    v.push(Some(Value::Object(m)));
    v
}

fn rand_string(r: &mut Rng) -> String {
    let n = match r.below(10) {
        0 => 0,
        1..=5 => 1,
        6 | 7 => 2,
        _ => 1 + r.below(6),
    };
    (0..n).map(|_| rand_char(r)).collect()
}

fn rand_char(r: &mut Rng) -> char {
    loop {
        let c = match r.below(6) {
            0 | 1 => r.below(128) as u32,
            2 => r.below(0x800) as u32,
            3 => r.below(0x10000) as u32,
            4 => 0xD7F0 + r.below(0x830) as u32, // around the surrogate gap
            _ => r.below(0x110000) as u32,
        };
        if let Some(c) = char::from_u32(c) {
            return c;
        }
    }
}

fn rand_f64(r: &mut Rng) -> f64 {
    loop {
        let f = match r.below(8) {
            0 => f64::from_bits(r.next()),
            1 => (f32::from_bits(r.next() as u32)) as f64,
            2 => {
                // a finite f32 moved by up to a few f64 ulps around a rounding boundary
                let b = f32::from_bits(r.next() as u32) as f64;
                let off = (1u64 << 28) as i64 + r.range(-2, 2);
                f64::from_bits((b.to_bits() as i64 + if r.chance(1, 2) { off } else { r.range(-3, 3) }) as u64)
            }
            3 => {
                // around the f32 overflow threshold
                let mid = (f32::MAX as f64).to_bits() + (1u64 << 28);
                let f = f64::from_bits((mid as i64 + r.range(-4, 4) * if r.chance(1, 2) { 1 } else { 1 << 20 }) as u64);
                if r.chance(1, 2) { f } else { -f }
            }
            4 => {
                // f32 subnormal range and below
                let e = r.range(-160, -120) as i32;
                (1.0 + (r.below(1 << 20) as f64) / (1u64 << 20) as f64) * (2.0f64).powi(e) * if r.chance(1, 2) { 1.0 } else { -1.0 }
            }
            5 => r.range(-1000, 1000) as f64 / 8.0,
            6 => (r.next() as i64) as f64,
            _ => (r.next() as f64) * if r.chance(1, 2) { 1.0 } else { 1e5 },
        };
        if f.is_finite() {
            return f;
        }
    }
}

fn rand_int(r: &mut Rng, lo: i128, hi: i128) -> i128 {
    let z = match r.below(8) {
        0 => lo + r.range(-3, 3) as i128,
        1 => hi + r.range(-3, 3) as i128,
        2 => r.range(-3, 3) as i128,
        3 => {
            let k = r.below(65);
            (1i128 << k) + r.range(-2, 2) as i128
        }
        4 => {
            let k = r.below(64);
            -(1i128 << k) + r.range(-2, 2) as i128
        }
        5 => (r.next() as i64) as i128,
        6 => r.next() as i128,
        _ => {
            let span = (hi - lo + 1) as u128;
            lo + ((r.next() as u128) % span) as i128
        }
    };
    z.clamp(-P63, P64 - 1)
}

// ---------------------------------------------------------------- generators --
struct Out {
    s: String,
}

impl Out {
    fn parse_case(&mut self, d: &Desc, v: Option<Value>) {
        let gv = g_opt(v.as_ref(), g_gv);
        let text = format!("{} <- {}", d.name, show_gv(&v));
        let (r, rs) = (d.parse)(v);
        let nontrivial = r.starts_with("(Ok");
        writeln!(
            self.s,
            "PARSE\t({}, {}, {})\t{{\"text\":{},\"impl\":{},\"nontrivial\":{}}}",
            d.coq,
            gv,
            r,
            jstr(&text),
            jstr(&rs),
            nontrivial
        )
        .unwrap();
    }

    fn tv_case<T: Sc>(&mut self, name: &str, coq: &str, x: &T) {
        let (rv, gv, back, text) = do_tv(x);
        writeln!(
            self.s,
            "TV\t({}, {}, {}, {})\t{{\"text\":{},\"impl\":{},\"nontrivial\":true}}",
            coq,
            rv,
            gv,
            back,
            jstr(&format!("{}: {}", name, text)),
            jstr(&text)
        )
        .unwrap();
    }
}

fn rle<T: PartialEq + Clone>(items: impl Iterator<Item = T>) -> Vec<(u64, T)> {
    let mut runs: Vec<(u64, T)> = vec![];
    for it in items {
        match runs.last_mut() {
            Some((c, x)) if *x == it => *c += 1,
            _ => runs.push((1, it)),
        }
    }
    runs
}

fn delta(z: i128, r: &str) -> String {
    // r is "(Ok (RI (x)%Z))" | "(Err 0%N)" | "Panic"
    if let Some(rest) = r.strip_prefix("(Ok (RI (") {
        let x: i128 = rest.trim_end_matches(")%Z))").parse().unwrap();
        format!("Ok {}", g_z(x - z))
    } else if r == "Panic" {
        "Panic".into()
    } else {
        "Err 0%N".into()
    }
}

fn sweep(out: &mut Out, d: &Desc, lo: i128, hi: i128) {
    let (id, ..) = d.int.unwrap();
    let lo = lo.max(-P63);
    let hi = hi.min(P64 - 1);
    if lo > hi {
        return;
    }
    let runs = rle((lo..=hi).map(|z| delta(z, &(d.parse)(Some(vint(z))).0)));
    let accepted: u64 = runs.iter().filter(|(_, r)| r.starts_with("Ok")).map(|(c, _)| *c).sum();
    writeln!(
        out.s,
        "SWEEP\t({}, {}, {})\t{{\"text\":{},\"impl\":{},\"nontrivial\":true}}",
        g_n(id),
        g_z(lo),
        g_list(runs.iter(), |(c, r)| format!("({}, {})", g_n(*c), r)),
        jstr(&format!("{} <- every integer in [{}, {}]", d.name, lo, hi)),
        jstr(&format!("{} accepted of {}, {} runs", accepted, hi - lo + 1, runs.len()))
    )
    .unwrap();
}

fn sweep_tv<T: Sc>(out: &mut Out, id: u64, name: &str, lo: i128, hi: i128, mk: impl Fn(i128) -> T) {
    if lo > hi {
        return;
    }
    let runs = rle((lo..=hi).map(|x| {
        let t = mk(x);
        let (_, gv, back, _) = do_tv(&t);
        let dv = if let Some(rest) = gv.strip_prefix("(Ok (GInt (") {
            let y: i128 = rest.trim_end_matches(")%Z))").parse().unwrap();
            format!("Ok {}", g_z(y - x))
        } else if gv == "Panic" {
            "Panic".to_string()
        } else {
            "Err 0%N".to_string() // to_value produced something that is not an integer
        };
        format!("({}, {})", dv, delta(x, &back))
    }));
    writeln!(
        out.s,
        "SWEEPTV\t({}, {}, {})\t{{\"text\":{},\"impl\":{},\"nontrivial\":true}}",
        g_n(id),
        g_z(lo),
        g_list(runs.iter(), |(c, r)| format!("({}, {})", g_n(*c), r)),
        jstr(&format!("{}: to_value and back for every value in [{}, {}]", name, lo, hi)),
        jstr(&format!("{} runs", runs.len()))
    )
    .unwrap();
}

fn main() {
    let a = parse_args();
    assert!(usize::BITS == 64, "the model fixes isize/usize to 64 bits");
    let thorough = a.n >= 20000;
    let mut rng = Rng::new(a.seed);
    let mut out = Out { s: String::new() };
    let scs = scalars();

    // ---- fixed corpus: every value kind offered to every scalar
    let ints = int_corpus();
    let floats = float_corpus();
    let strings = string_corpus();
    let others = other_corpus();
    for d in &scs {
        // numeric scalars (and ID) see every boundary number, the others a thinned selection
        let numeric = d.int.is_some() || matches!(d.name, "f32" | "f64" | "ID");
        for z in ints.iter().step_by(if numeric { 1 } else { 7 }) {
            out.parse_case(d, Some(vint(*z)));
        }
        for f in floats.iter().step_by(if numeric { 1 } else { 5 }) {
            out.parse_case(d, vfloat(*f));
        }
        for s in &strings {
            out.parse_case(d, Some(Value::String((*s).into())));
        }
        for v in &others {
            out.parse_case(d, v.clone());
        }
    }
    // every ASCII character, alone and doubled, for char
    let chard = scs.iter().find(|d| d.name == "char").unwrap();
    for c in 0u8..128 {
        out.parse_case(chard, Some(Value::String((c as char).to_string())));
        out.parse_case(chard, Some(Value::String(format!("{}{}", c as char, c as char))));
    }

    // ---- exhaustive sweeps of the integer rows
    let w_main: i128 = 70000;
    let w_edge: i128 = if thorough { 70000 } else { 3000 };
    for d in scs.iter().filter(|d| d.int.is_some()) {
        sweep(&mut out, d, -w_main, w_main);
        for c in [-P63, -(1i128 << 31), 1i128 << 31, 1i128 << 32, P63, P64 - 1] {
            sweep(&mut out, d, c - w_edge, c + w_edge);
        }
    }
    macro_rules! stv {
        ($id:expr, $t:ty, $prim:ty) => {
            sweep_tv::<$t>(&mut out, $id, stringify!($t), <$prim>::MIN as i128, <$prim>::MAX as i128, |x| x as $t);
        };
    }
    macro_rules! stv_nz {
        ($id:expr, $t:ty, $prim:ty) => {
            sweep_tv::<$t>(&mut out, $id, stringify!($t), <$prim>::MIN as i128, -1, |x| <$t>::new(x as $prim).unwrap());
            sweep_tv::<$t>(&mut out, $id, stringify!($t), 1, <$prim>::MAX as i128, |x| <$t>::new(x as $prim).unwrap());
        };
    }
    stv!(0, i8, i8);
    stv!(1, i16, i16);
    stv!(5, u8, u8);
    stv!(6, u16, u16);
    stv_nz!(10, NonZeroI8, i8);
    stv_nz!(11, NonZeroI16, i16);
    stv_nz!(15, NonZeroU8, u8);
    stv_nz!(16, NonZeroU16, u16);

    // ---- to_value / round trip: fixed values
    macro_rules! tv_ints {
        ($id:expr, $t:ty, $prim:ty, $mk:expr, $nz:expr) => {{
            let coq = format!("(SInt {})", g_n($id));
            let lo = <$prim>::MIN as i128;
            let hi = <$prim>::MAX as i128;
            let mut xs: Vec<i128> = vec![lo, lo + 1, hi - 1, hi, -1, 0, 1, 2, 127, 128, 255, 256, 32767, 32768, 65535, 65536];
            for _ in 0..(if thorough { 200 } else { 24 }) {
                xs.push(rand_int(&mut rng, lo, hi));
            }
            for x in xs {
                if x < lo || x > hi || ($nz && x == 0) {
                    continue;
                }
                let f: fn(i128) -> $t = $mk;
                out.tv_case::<$t>(stringify!($t), &coq, &f(x));
            }
        }};
    }
    tv_ints!(2, i32, i32, |x| x as i32, false);
    tv_ints!(3, i64, i64, |x| x as i64, false);
    tv_ints!(4, isize, isize, |x| x as isize, false);
    tv_ints!(7, u32, u32, |x| x as u32, false);
    tv_ints!(8, u64, u64, |x| x as u64, false);
    tv_ints!(9, usize, usize, |x| x as usize, false);
    tv_ints!(12, NonZeroI32, i32, |x| NonZeroI32::new(x as i32).unwrap(), true);
    tv_ints!(13, NonZeroI64, i64, |x| NonZeroI64::new(x as i64).unwrap(), true);
    tv_ints!(14, NonZeroIsize, isize, |x| NonZeroIsize::new(x as isize).unwrap(), true);
    tv_ints!(17, NonZeroU32, u32, |x| NonZeroU32::new(x as u32).unwrap(), true);
    tv_ints!(18, NonZeroU64, u64, |x| NonZeroU64::new(x as u64).unwrap(), true);
    tv_ints!(19, NonZeroUsize, usize, |x| NonZeroUsize::new(x as usize).unwrap(), true);

    // all float classes
    let f64s = [
        0.0, -0.0, 1.0, -1.0, 0.1, f64::MAX, f64::MIN, f64::MIN_POSITIVE, 5e-324, -5e-324, f64::EPSILON, 1e300, 1.5, 9.007199254740993e15,
        f64::INFINITY, f64::NEG_INFINITY, f64::NAN, f64::from_bits(0x7ff0_0000_0000_0001), f64::from_bits(0xfff8_0000_0000_0000), f64::from_bits(0x000f_ffff_ffff_ffff),
    ];
    for x in f64s {
        out.tv_case::<f64>("f64", "SF64", &x);
    }
    let f32s = [
        0.0f32, -0.0, 1.0, -1.0, 0.1, f32::MAX, f32::MIN, f32::MIN_POSITIVE, f32::from_bits(1), f32::from_bits(0x8000_0001), f32::from_bits(0x007f_ffff), f32::EPSILON, 1.5, 16777216.0,
        f32::INFINITY, f32::NEG_INFINITY, f32::NAN, f32::from_bits(0x7f80_0001), f32::from_bits(0xffc0_0000), f32::from_bits(0x0080_0001),
    ];
    for x in f32s {
        out.tv_case::<f32>("f32", "SF32", &x);
    }
    for b in [true, false] {
        out.tv_case::<bool>("bool", "SBool", &b);
    }
    for s in string_corpus() {
        out.tv_case::<String>("String", "SString", &s.to_string());
        out.tv_case::<Box<str>>("Box<str>", "SBoxStr", &Box::<str>::from(s));
        out.tv_case::<Arc<str>>("Arc<str>", "SArcStr", &Arc::<str>::from(s));
        out.tv_case::<ID>("ID", "SID", &ID(s.to_string()));
    }
    for z in [0i64, 1, -1, 10, -10, 99, 100, 1234567890, i64::MAX, i64::MIN] {
        out.tv_case::<ID>("ID", "SID", &ID::from(z));
    }
    for c in 0u8..128 {
        out.tv_case::<char>("char", "SChar", &(c as char));
    }
    for c in ['\u{80}', '\u{7ff}', '\u{800}', '\u{d7ff}', '\u{e000}', '\u{ffff}', '\u{10000}', '\u{10ffff}'] {
        out.tv_case::<char>("char", "SChar", &c);
    }
    let color = g_enum::<Color>(|c| c as u64);
    let mode = g_enum::<Mode>(|c| c as u64);
    for c in COLORS {
        out.tv_case::<Color>("Color", &color, &c);
    }
    for c in MODES {
        out.tv_case::<Mode>("Mode", &mode, &c);
    }

    // ---- random cases
    let n = a.n;
    for i in 0..n {
        let d = &scs[if i % 3 == 0 { rng.below(scs.len()) } else { i % scs.len() }];
        let v: Option<Value> = match (d.int, d.name) {
            (Some((_, lo, hi, _)), _) => match rng.below(10) {
                0..=6 => Some(vint(rand_int(&mut rng, lo, hi))),
                7 => {
                    // the same number as a float (integral floats do not denote integers)
                    let z = rand_int(&mut rng, lo, hi);
                    vfloat(z as f64)
                }
                8 => vfloat(rand_f64(&mut rng)),
                _ => Some(Value::String(rand_int(&mut rng, lo, hi).to_string())),
            },
            (None, "f32") | (None, "f64") => match rng.below(10) {
                0..=5 => vfloat(rand_f64(&mut rng)),
                6..=8 => Some(vint(rand_int(&mut rng, -P63, P64 - 1))),
                _ => Some(Value::String(format!("{}", rand_f64(&mut rng)))),
            },
            (None, "bool") => match rng.below(4) {
                0 => Some(Value::Boolean(rng.chance(1, 2))),
                1 => Some(vint(rng.range(0, 1) as i128)),
                2 => Some(Value::String((*rng.pick(&["true", "false", "1", "0"])).into())),
                _ => Some(Value::Enum(Name::new(*rng.pick(&["true", "false", "TRUE", "t"])))),
            },
            (None, "Color") | (None, "Mode") => {
                let names = ["RED", "GREEN", "blue_ish", "DARK_RED", "fastMode", "slow", "A", "BLUE", "red", "FAST_MODE", "WEIRD", "weird", "DARKRED", "RED ", ""];
                let s = if rng.chance(4, 5) { (*rng.pick(&names)).to_string() } else { rand_string(&mut rng) };
                match rng.below(5) {
                    0 | 1 => match catch(AssertUnwindSafe(|| Name::new(&s))) {
                        Some(n) => Some(Value::Enum(n)),
                        None => Some(Value::String(s)),
                    },
                    2 | 3 => Some(Value::String(s)),
                    _ => Some(vint(rng.range(-1, 4) as i128)),
                }
            }
            _ => match rng.below(10) {
                0..=6 => Some(Value::String(rand_string(&mut rng))),
                7 | 8 => Some(vint(rand_int(&mut rng, -P63, P64 - 1))),
                _ => vfloat(rand_f64(&mut rng)),
            },
        };
        out.parse_case(d, v);
        // a random Rust value of a random wide / non-integer type through to_value and back
        if i % 2 == 0 {
            match rng.below(8) {
                0 => out.tv_case::<f64>("f64", "SF64", &f64::from_bits(rng.next())),
                1 => out.tv_case::<f32>("f32", "SF32", &f32::from_bits(rng.next() as u32)),
                2 => out.tv_case::<char>("char", "SChar", &rand_char(&mut rng)),
                3 => out.tv_case::<String>("String", "SString", &rand_string(&mut rng)),
                4 => out.tv_case::<ID>("ID", "SID", &ID(rand_string(&mut rng))),
                5 => out.tv_case::<i64>("i64", "(SInt 3%N)", &(rng.next() as i64)),
                6 => out.tv_case::<u64>("u64", "(SInt 8%N)", &rng.next()),
                _ => out.tv_case::<f32>("f32", "SF32", &(rand_f64(&mut rng) as f32)),
            }
        }
    }
    std::fs::write(format!("{}/c07.cases", a.out), out.s).unwrap();
}

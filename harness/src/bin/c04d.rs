//! C04 (second half) and C05 on the DYNAMIC executor, plus the same runs on the
//! static derive schema: generated mutations and queries whose resolvers
//! suspend on gates, driven under every order of gate openings (exhaustive up
//! to a bound, random beyond) by manual polling with a no-op waker.
//! Output stream DSCHED, one case per (document, schedule):
//!   (is_mutation, root response keys in document order, Start/End event log,
//!    data of the all-ready run, data of this run)
//! checked by SchedCheck.check_dsched: the data does not depend on the order;
//! in a mutation every event of a root field (or beneath it) comes before every
//! event of the next root field.  `c04d <seed> <n docs> <out> [maxgates] [cap] [max lines]`.
use std::collections::{BTreeSet, HashMap, HashSet};
use std::fmt::Write as _;
use std::future::Future;
use std::pin::Pin;
use std::sync::Arc;
use std::task::{Context as TaskContext, Poll};

use agv_harness::family::{self, Event, NodeTy, Out, World};
use agv_harness::*;
use async_graphql::dynamic::{Field, FieldFuture, FieldValue, Object, ResolverContext, Schema as DynSchema, TypeRef};
use async_graphql::parser::types::{ExecutableDocument, OperationType, Selection, SelectionSet};
use async_graphql::{Request, Response, Value};
use futures_channel::oneshot;

// ------------------------------------------------------------ dynamic schema
// Objects carry a small integer; every resolver logs Start, waits for its gate
// if its response path is gated, logs End.
async fn gate(ctx: &ResolverContext<'_>, field: &str) {
    let w = ctx.data_unchecked::<Arc<World>>().clone();
    let path = family::path_of(ctx.ctx);
    w.trace.lock().unwrap().push(Event::Start(path.clone(), 0, field.to_string()));
    if w.gated.contains(&path) {
        let (tx, rx) = oneshot::channel();
        w.waiting.lock().unwrap().push((path.clone(), tx));
        let _ = rx.await;
    }
    w.trace.lock().unwrap().push(Event::End(path));
}

fn parent_id(ctx: &ResolverContext<'_>) -> i32 {
    ctx.parent_value.try_downcast_ref::<i32>().copied().unwrap_or(0)
}

fn int_field(name: &'static str, k: i32) -> Field {
    Field::new(name, TypeRef::named(TypeRef::INT), move |ctx| {
        FieldFuture::new(async move {
            gate(&ctx, name).await;
            Ok(Some(FieldValue::value(Value::from(parent_id(&ctx) * 10 + k))))
        })
    })
}

fn obj_field(name: &'static str, k: i32) -> Field {
    Field::new(name, TypeRef::named("T"), move |ctx| {
        FieldFuture::new(async move {
            gate(&ctx, name).await;
            Ok(Some(FieldValue::owned_any(parent_id(&ctx) * 10 + k)))
        })
    })
}

fn list_field(name: &'static str, k: i32, len: i32, nn_items: bool) -> Field {
    let ty = if nn_items { TypeRef::named_nn_list("T") } else { TypeRef::named_list("T") };
    Field::new(name, ty, move |ctx| {
        FieldFuture::new(async move {
            gate(&ctx, name).await;
            let base = parent_id(&ctx) * 10 + k;
            Ok(Some(FieldValue::list((0..len).map(move |i| FieldValue::owned_any(base * 10 + i)))))
        })
    })
}

fn with_fields(mut o: Object) -> Object {
    o = o.field(int_field("x", 1)).field(int_field("y", 2)).field(int_field("z", 3));
    o = o.field(obj_field("t", 4)).field(obj_field("u", 5));
    o.field(list_field("ts", 6, 3, false)).field(list_field("us", 7, 4, true))
}

fn dyn_schema() -> DynSchema {
    DynSchema::build("Query", Some("Mutation"), None)
        .register(with_fields(Object::new("Query")))
        .register(with_fields(Object::new("Mutation")))
        .register(with_fields(Object::new("T")))
        .finish()
        .expect("dynamic schema")
}

// ------------------------------------------------------------ documents
struct Shape {
    root_q: &'static str,
    root_m: &'static str,
    scalars: &'static [&'static str],
    objects: &'static [(&'static str, &'static str)], // field, type
    lists: &'static [(&'static str, &'static str)],
}

const DYN: Shape = Shape { root_q: "Query", root_m: "Mutation", scalars: &["x", "y", "z"], objects: &[("t", "T"), ("u", "T")], lists: &[("ts", "T"), ("us", "T")] };
// the derive family: object fields a: A, b: B!; lists bs: [B!]!, aList: [A]!; (type B has no usable b, see the world below)
const FAM: Shape = Shape { root_q: "Query", root_m: "Mutation", scalars: &["id", "name", "score"], objects: &[("a", "A"), ("b", "B")], lists: &[("bs", "B"), ("aList", "A")] };

struct DocGen<'a> {
    r: Rng,
    sh: &'a Shape,
    frags: Vec<(String, String, String)>,
}

impl DocGen<'_> {
    fn alias(&mut self) -> String {
        if self.r.chance(1, 5) { format!("k{}: ", self.r.below(3)) } else { String::new() }
    }
    fn sub(&mut self, ty: &str, depth: usize) -> String {
        let mut out = String::from("{");
        let n = 1 + self.r.below(3);
        for _ in 0..n {
            let k = self.r.below(10);
            let family_b = ty == "B"; // B.b fails by default in the family world: no object fields below B
            if k < 6 || depth == 0 || family_b {
                let f = *self.r.pick(self.sh.scalars);
                write!(out, " {}{f}", self.alias()).unwrap();
            } else if k < 8 {
                let (f, t) = *self.r.pick(self.sh.objects);
                let s = self.sub(t, depth - 1);
                write!(out, " {}{f} {s}", self.alias()).unwrap();
            } else {
                let (f, t) = *self.r.pick(self.sh.lists);
                let s = self.sub(t, depth - 1);
                write!(out, " {}{f} {s}", self.alias()).unwrap();
            }
        }
        out.push_str(" }");
        out
    }
    fn root_item(&mut self, root: &str, depth: usize, last: &mut Option<String>) -> String {
        let k = self.r.below(12);
        if k < 3 {
            let f = *self.r.pick(self.sh.scalars);
            let s = format!("{}{f}", self.alias());
            *last = Some(s.clone());
            s
        } else if k < 7 {
            let (f, t) = *self.r.pick(self.sh.objects);
            let sub = self.sub(t, 2);
            let s = format!("{}{f} {sub}", self.alias());
            *last = Some(s.clone());
            s
        } else if k < 9 {
            let (f, t) = *self.r.pick(self.sh.lists);
            let sub = self.sub(t, 1);
            let s = format!("{}{f} {sub}", self.alias());
            *last = Some(s.clone());
            s
        } else if k == 9 && last.is_some() {
            last.clone().unwrap() // repeated response key
        } else if k == 10 && depth > 0 {
            let n = 1 + self.r.below(2);
            let items: Vec<String> = (0..n).map(|_| self.root_item(root, depth - 1, last)).collect();
            format!("... on {root} {{ {} }}", items.join(" "))
        } else if depth > 0 {
            let name = format!("F{}", self.frags.len());
            self.frags.push((name.clone(), root.to_string(), String::new()));
            let idx = self.frags.len() - 1;
            let n = 1 + self.r.below(2);
            let items: Vec<String> = (0..n).map(|_| self.root_item(root, depth - 1, last)).collect();
            self.frags[idx].2 = format!("{{ {} }}", items.join(" "));
            format!("...{name}")
        } else {
            let f = *self.r.pick(self.sh.scalars);
            format!("{}{f}", self.alias())
        }
    }
    fn document(&mut self, mutation: bool) -> String {
        let root = if mutation { self.sh.root_m } else { self.sh.root_q };
        let n = 2 + self.r.below(3);
        let mut last = None;
        let items: Vec<String> = (0..n).map(|_| self.root_item(root, 2, &mut last)).collect();
        let mut s = format!("{}{{ {} }}\n", if mutation { "mutation " } else { "" }, items.join(" "));
        for (n, c, b) in &self.frags {
            writeln!(s, "fragment {n} on {c} {b}").unwrap();
        }
        s
    }
}

/// response keys of the root fields in document order (fragments expanded in place)
fn root_keys(doc: &ExecutableDocument) -> (bool, Vec<String>) {
    fn go(doc: &ExecutableDocument, ss: &SelectionSet, depth: usize, acc: &mut Vec<String>) {
        if depth > 10 {
            return;
        }
        for s in &ss.items {
            match &s.node {
                Selection::Field(f) => acc.push(f.node.response_key().node.to_string()),
                Selection::FragmentSpread(sp) => {
                    if let Some(fr) = doc.fragments.get(&sp.node.fragment_name.node) {
                        go(doc, &fr.node.selection_set.node, depth + 1, acc);
                    }
                }
                Selection::InlineFragment(fr) => go(doc, &fr.node.selection_set.node, depth + 1, acc),
            }
        }
    }
    let mut acc = vec![];
    let mut is_mut = false;
    for (_, op) in doc.operations.iter() {
        is_mut = op.node.ty == OperationType::Mutation;
        go(doc, &op.node.selection_set.node, 0, &mut acc);
    }
    (is_mut, acc)
}

// ------------------------------------------------------------ scheduler
struct RunOut {
    resp: Response,
    events: Vec<Event>,
    sched: Vec<usize>,
    widths: Vec<usize>,
}

fn drive(mut fut: Pin<Box<dyn Future<Output = Response> + '_>>, w: &Arc<World>, choose: &mut dyn FnMut(usize, &[usize]) -> usize) -> Option<RunOut> {
    let waker = futures_util::task::noop_waker();
    let mut cx = TaskContext::from_waker(&waker);
    let mut opened: HashSet<usize> = HashSet::new();
    let mut sched = vec![];
    let mut widths = vec![];
    loop {
        match fut.as_mut().poll(&mut cx) {
            Poll::Ready(resp) => {
                let events = w.trace.lock().unwrap().clone();
                return Some(RunOut { resp, events, sched, widths });
            }
            Poll::Pending => {
                let mut wt = w.waiting.lock().unwrap();
                let alive: Vec<usize> = (0..wt.len()).filter(|i| !opened.contains(i) && !wt[*i].1.is_canceled()).collect();
                if alive.is_empty() {
                    return None;
                }
                let k = choose(sched.len(), &alive).min(alive.len() - 1);
                let id = alive[k];
                widths.push(alive.len());
                sched.push(id);
                opened.insert(id);
                let (dummy, _rx) = oneshot::channel::<()>();
                let tx = std::mem::replace(&mut wt[id].1, dummy);
                let _ = tx.send(());
            }
        }
    }
}

enum Engine {
    Dynamic(DynSchema),
    Static(family::FamilySchema),
}

type Nodes = Vec<(Option<NodeTy>, HashMap<String, Out>)>;

/// fault-free family world: 0 Query, 1 Mutation, 2/5 A, 3/4/6/7 B
fn family_nodes() -> Nodes {
    let mut nodes: Nodes = vec![
        (Some(NodeTy::Query), HashMap::new()),
        (Some(NodeTy::Mutation), HashMap::new()),
        (Some(NodeTy::A), HashMap::new()),
        (Some(NodeTy::B), HashMap::new()),
        (Some(NodeTy::B), HashMap::new()),
        (Some(NodeTy::A), HashMap::new()),
        (Some(NodeTy::B), HashMap::new()),
        (Some(NodeTy::B), HashMap::new()),
    ];
    for i in [0usize, 1, 2, 5] {
        nodes[i].1.insert("a".into(), Out::Ref(if i == 2 { 5 } else { 2 }));
        nodes[i].1.insert("b".into(), Out::Ref(3));
        nodes[i].1.insert("bs".into(), Out::List(vec![Out::Ref(3), Out::Ref(4), Out::Ref(6), Out::Ref(7)]));
        nodes[i].1.insert("aList".into(), Out::List(vec![Out::Ref(2), Out::Null, Out::Ref(5)]));
    }
    for (i, n) in nodes.iter_mut().enumerate() {
        n.1.insert("name".into(), Out::Str(format!("n{i}")));
        n.1.insert("score".into(), Out::Float(i as f64 + 0.5));
    }
    nodes
}

impl Engine {
    fn run(&self, text: &str, gated: &HashSet<String>, choose: &mut dyn FnMut(usize, &[usize]) -> usize) -> Option<RunOut> {
        let nodes = match self {
            Engine::Dynamic(_) => vec![],
            Engine::Static(_) => family_nodes(),
        };
        let w = Arc::new(World { nodes, gated: gated.clone(), ..Default::default() });
        let req = Request::new(text.to_string()).data(w.clone());
        match self {
            Engine::Dynamic(s) => drive(Box::pin(s.execute(req)), &w, choose),
            Engine::Static(s) => drive(Box::pin(s.execute(req)), &w, choose),
        }
    }
}

fn start_paths(o: &RunOut) -> Vec<String> {
    let mut seen = BTreeSet::new();
    let mut v = vec![];
    for e in &o.events {
        if let Event::Start(p, _, _) = e {
            if seen.insert(p.clone()) {
                v.push(p.clone());
            }
        }
    }
    v
}

fn jstr(s: &str) -> String {
    serde_json::to_string(s).unwrap()
}

fn g_strpath(it: &mut Interner, p: &str) -> String {
    g_list(p.split('/').filter(|s| !s.is_empty()), |s| match s.parse::<usize>() {
        Ok(i) => format!("PI {}%N", i),
        Err(_) => format!("PF {}", it.n(s)),
    })
}

fn main() {
    let a = parse_args();
    let maxg: usize = a.rest.first().and_then(|s| s.parse().ok()).unwrap_or(4);
    let cap: usize = a.rest.get(1).and_then(|s| s.parse().ok()).unwrap_or(30);
    let max_lines: usize = a.rest.get(2).and_then(|s| s.parse().ok()).unwrap_or(1500);
    let mut rng = Rng::new(a.seed ^ 0xC04D);
    let mut it = Interner::new();
    let mut out = String::new();
    let engines = [("dynamic", Engine::Dynamic(dyn_schema())), ("static", Engine::Static(family::build().finish()))];

    // fixed corpus first: (engine, document, gates)
    let corpus: Vec<(usize, &str, Vec<&str>)> = vec![
        (0, "mutation { x y }", vec!["x"]),
        (0, "mutation { t { x } y }", vec!["t/x"]),
        (0, "mutation { a: t { x y } ... F } fragment F on Mutation { b: y }", vec!["a/x", "a/y", "b"]),
        (0, "mutation { t { x u { y } } ... on Mutation { k0: u { z } } z t { y } }", vec!["t", "t/x", "t/u/y", "k0/z", "z"]),
        (0, "mutation { ts { x } us { y } z }", vec!["ts/0/x", "ts/1/x", "ts/2/x", "us/1/y"]),
        (0, "{ ts { x } }", vec!["ts/0/x", "ts/1/x", "ts/2/x"]),
        (0, "{ us { x y } t { x } }", vec!["us/0/x", "us/1/x", "us/2/x", "us/3/x"]),
        (0, "{ x t { y } u { z } }", vec!["x", "t", "t/y", "u/z"]),
        (1, "mutation { name score }", vec!["name"]),
        (1, "mutation { a { id name } b { id } name }", vec!["a/id", "a/name", "b/id"]),
        (1, "mutation { k0: a { b { score } id } ...F score } fragment F on Mutation { bs { id } }", vec!["k0/b/score", "k0/id", "bs/0/id", "bs/2/id"]),
        (1, "{ bs { id } aList { id } }", vec!["bs/0/id", "bs/1/id", "bs/2/id", "bs/3/id"]),
    ];
    let mut corpus_iter = corpus.into_iter();

    let mut docs = 0usize;
    let mut lines = 0usize;
    let mut attempts = 0usize;
    let mut stats = [0usize; 4]; // dynamic docs, static docs, exhaustive, sampled
    while docs < a.n && lines < max_lines && attempts < a.n * 20 + 50 {
        attempts += 1;
        let (ei, text, fixed): (usize, String, Option<Vec<String>>) = match corpus_iter.next() {
            Some((e, d, g)) => (e, d.to_string(), Some(g.iter().map(|s| s.to_string()).collect())),
            None => {
                let ei = if rng.chance(2, 3) { 0 } else { 1 };
                let mut dg = DocGen { r: rng.fork(), sh: if ei == 0 { &DYN } else { &FAM }, frags: vec![] };
                (ei, dg.document(rng.chance(3, 4)), None)
            }
        };
        let (ename, eng) = &engines[ei];
        let Ok(parsed) = async_graphql::parser::parse_query(&text) else { continue };
        let (is_mut, keys) = root_keys(&parsed);
        let none = HashSet::new();
        let Some(ready) = eng.run(&text, &none, &mut |_, _| 0) else { continue };
        if !ready.resp.errors.is_empty() {
            // rejected by validation (conflicting aliases) or a failing resolver: not part of this stream
            writeln!(out, "DREJ\t\t{}", jstr(&format!("{} -> {}", text.trim(), ready.resp.errors[0].message))).unwrap();
            continue;
        }
        let cands = start_paths(&ready);
        if cands.is_empty() || ready.events.len() > 120 {
            continue;
        }
        let gates: Vec<String> = match fixed {
            Some(g) => g,
            None => {
                let k = (1 + rng.below(maxg)).min(cands.len());
                let mut c = cands.clone();
                // prefer resolvers below the first root fields (the slow sub-selection) and items of one list
                let first_key = keys.first().cloned().unwrap_or_default();
                let mut near: Vec<String> = c.iter().filter(|p| p.starts_with(&format!("{first_key}/")) || **p == first_key).cloned().collect();
                rng.shuffle(&mut near);
                rng.shuffle(&mut c);
                if rng.chance(1, 2) {
                    near.truncate(1 + rng.below(2));
                    for p in c {
                        if !near.contains(&p) {
                            near.push(p);
                        }
                    }
                    near.truncate(k);
                    near
                } else {
                    c.truncate(k);
                    c
                }
            }
        };
        let gset: HashSet<String> = gates.iter().cloned().collect();
        // exhaustive depth-first search over the choices when small, random otherwise
        let mut runs: Vec<RunOut> = vec![];
        let mut exhaustive = true;
        let mut prefix: Vec<usize> = vec![];
        loop {
            let pf = prefix.clone();
            let Some(o) = eng.run(&text, &gset, &mut |i, _| pf.get(i).copied().unwrap_or(0)) else { break };
            let mut taken: Vec<usize> = (0..o.widths.len()).map(|i| pf.get(i).copied().unwrap_or(0)).collect();
            let widths = o.widths.clone();
            runs.push(o);
            let mut i = taken.len();
            let mut found = false;
            while i > 0 {
                i -= 1;
                if taken[i] + 1 < widths[i] {
                    taken[i] += 1;
                    taken.truncate(i + 1);
                    found = true;
                    break;
                }
            }
            if !found {
                break;
            }
            if runs.len() >= cap {
                exhaustive = false;
                break;
            }
            prefix = taken;
        }
        if !exhaustive {
            runs.truncate(1);
            let mut seen: HashSet<Vec<usize>> = runs.iter().map(|r| r.sched.clone()).collect();
            let mut tries = 0;
            while runs.len() < cap && tries < cap * 3 {
                tries += 1;
                let mut r = rng.fork();
                if let Some(o) = eng.run(&text, &gset, &mut |_, alive| if r.chance(1, 2) { alive.len() - 1 - r.below(alive.len().min(2)) } else { r.below(alive.len()) }) {
                    if seen.insert(o.sched.clone()) {
                        runs.push(o);
                    }
                }
            }
            stats[3] += 1;
        } else {
            stats[2] += 1;
        }
        if runs.is_empty() {
            writeln!(out, "DSTUCK\t\t{}", jstr(text.trim())).unwrap();
            continue;
        }
        stats[ei] += 1;
        let gkeys = g_list(keys.iter(), |k| it.n(k));
        let gready = g_const(&mut it, &ready.resp.data);
        for o in &runs {
            let gev = g_list(o.events.iter(), |e| match e {
                Event::Start(p, _, _) => format!("IStart {}", g_strpath(&mut it, p)),
                Event::End(p) => format!("IEnd {}", g_strpath(&mut it, p)),
            });
            let log: Vec<String> = o.events.iter().map(|e| match e { Event::Start(p, _, _) => format!("+{p}"), Event::End(p) => format!("-{p}") }).collect();
            let meta = format!(
                "{{\"text\":{},\"impl\":{},\"nontrivial\":{}}}",
                jstr(&format!("[{ename} gates={} order={:?}] {}", gates.join(","), o.sched, text.trim())),
                jstr(&format!("log={} data={}{}", log.join(" "), serde_json::to_string(&o.resp.data).unwrap().chars().take(120).collect::<String>(), if o.resp.errors.is_empty() { "" } else { " ERRORS" })),
                !o.sched.is_empty()
            );
            let data = if o.resp.errors.is_empty() { g_const(&mut it, &o.resp.data) } else { "(VStr [])".to_string() };
            writeln!(out, "DSCHED\t({}, {gkeys}, {gev}, {gready}, {data})\t{meta}", g_bool(is_mut)).unwrap();
            lines += 1;
        }
        docs += 1;
    }
    writeln!(out, "DSTATS\t\t{}", jstr(&format!("docs={docs} dynamic={} static={} exhaustive={} sampled={} lines={lines}", stats[0], stats[1], stats[2], stats[3]))).unwrap();
    std::fs::write(format!("{}/c04d.cases", a.out), out).unwrap();
}

//! C22 correspondence: look-ahead and selection-field views versus the
//! sub-fields the executor really resolves.
//!
//! One derive-built schema (objects, an interface, a union, list fields,
//! nullable fields, raw and typed arguments with schema defaults).  EVERY
//! resolver records, at the start of its body,
//!   * its container type, the arguments it received,
//!   * `ctx.field()` as a recursive view (alias, name, `arguments()`,
//!     `directives()`, `selection_set()`),
//!   * `ctx.look_ahead()` answers for a fixed family of probe chains
//!     (`field(a)`, `field(c).field(a)`, `field(c).field(c').field(a)`):
//!     the `selection_fields()` of the result (alias, name, arguments),
//!   * the runtime type(s) of the value it returns.
//! The events are turned into the tree of resolver invocations (an event is a
//! child of the latest earlier event whose path is its parent path; all
//! resolvers are immediately ready, so a field future runs to completion
//! before its sibling starts).  Printed per case: the parsed ORIGINAL document,
//! the operation name, the request variables, the pruned operation/fragments
//! the executor holds (`QueryEnv`), and the invocation tree.
use std::fmt::Write as _;
use std::sync::Mutex;

use agv_harness::*;
use async_graphql::parser::types::*;
use async_graphql::registry::{MetaType, MetaTypeName, Registry};
use async_graphql::*;

// ------------------------------------------------------------------ events --
#[derive(Clone, Debug)]
struct SView {
    alias: Option<String>,
    name: String,
    args: Option<Vec<(String, Value)>>,
    dirs: Option<Vec<(String, Vec<(String, Value)>)>>,
    sub: Vec<SView>,
}

type PEntry = (Option<String>, String, Option<Vec<(String, Value)>>);

#[derive(Clone, Debug)]
enum Seg {
    Name(String),
    Index(usize),
}

#[derive(Clone, Debug)]
struct Event {
    path: Vec<Seg>,
    container: String,
    recv: Vec<(String, Option<Value>)>,
    view: SView,
    probes: Vec<(Vec<String>, Vec<PEntry>)>,
    exists_ok: bool,
    ret: Vec<String>,
}

static LOG: Mutex<Vec<Event>> = Mutex::new(Vec::new());
/// pruned operation selections + fragments, printed by the first resolver of a request
static PRUNED: Mutex<Option<(SelectionSet, Vec<(String, FragmentDefinition)>)>> = Mutex::new(None);
static REGISTRY: Mutex<Option<RegDump>> = Mutex::new(None);

#[derive(Clone, Debug, Default)]
struct RegDump {
    query: String,
    mutation: String,
    ftype: Vec<((String, String), String)>,
    implements: Vec<(String, Vec<String>)>,
    unions: Vec<(String, Vec<String>)>,
    args: Vec<((String, String), Vec<(String, Option<String>)>)>,
}

const VOC_ALL: &[&str] = &[
    "id", "next", "label", "onlyA", "leaf", "pet", "onlyB", "nodes", "meow", "friend", "name", "bark", "owner", "v", "w", "me", "node", "pets",
    "maybe", "val", "__typename",
];
const VOC_COMP: &[&str] = &["next", "leaf", "pet", "nodes", "friend", "owner", "me", "node", "pets", "maybe"];
const VOC_LAST: &[&str] = &["id", "name", "v"];

fn chains() -> Vec<Vec<&'static str>> {
    let mut v = vec![];
    for a in VOC_ALL {
        v.push(vec![*a]);
    }
    for c in VOC_COMP {
        for a in VOC_ALL {
            v.push(vec![*c, *a]);
        }
    }
    for c in VOC_COMP {
        for c2 in VOC_COMP {
            for a in VOC_LAST {
                v.push(vec![*c, *c2, *a]);
            }
        }
    }
    v
}

fn args_of(f: &SelectionField<'_>) -> Option<Vec<(String, Value)>> {
    f.arguments().ok().map(|v| v.into_iter().map(|(n, x)| (n.to_string(), x)).collect())
}

fn sview(f: SelectionField<'_>) -> SView {
    SView {
        alias: f.alias().map(|s| s.to_string()),
        name: f.name().to_string(),
        args: args_of(&f),
        dirs: f.directives().ok().map(|ds| {
            ds.into_iter()
                .map(|d| (d.name.node.to_string(), d.arguments.into_iter().map(|(n, v)| (n.node.to_string(), v.node)).collect()))
                .collect()
        }),
        sub: f.selection_set().map(sview).collect(),
    }
}

fn dump_registry(r: &Registry) -> RegDump {
    let mut d = RegDump { query: r.query_type.clone(), mutation: r.mutation_type.clone().unwrap_or_default(), ..Default::default() };
    let mut names: Vec<&String> = r.types.keys().filter(|k| !k.starts_with("__")).collect();
    names.sort();
    for k in names {
        let fs = match &r.types[k] {
            MetaType::Object { fields, .. } | MetaType::Interface { fields, .. } => fields,
            MetaType::Union { possible_types, .. } => {
                let mut p: Vec<String> = possible_types.iter().cloned().collect();
                p.sort();
                d.unions.push((k.clone(), p));
                continue;
            }
            _ => continue,
        };
        for (fname, f) in fs.iter() {
            d.ftype.push(((k.clone(), fname.clone()), MetaTypeName::concrete_typename(&f.ty).to_string()));
            let args: Vec<(String, Option<String>)> = f
                .args
                .iter()
                .map(|(an, a)| (an.clone(), if MetaTypeName::concrete_typename(&a.ty) == "Any" { None } else { Some(a.default_value.clone().unwrap_or_else(|| "null".into())) }))
                .collect();
            d.args.push(((k.clone(), fname.clone()), args));
        }
    }
    let mut im: Vec<(String, Vec<String>)> = r.implements.iter().map(|(k, v)| (k.clone(), v.iter().cloned().collect())).collect();
    im.sort();
    d.implements = im;
    d
}

fn rec(ctx: &Context<'_>, container: &str, recv: Vec<(&str, Option<Value>)>, ret: Vec<&str>) {
    {
        let mut p = PRUNED.lock().unwrap();
        if p.is_none() {
            let mut frags: Vec<(String, FragmentDefinition)> = ctx.query_env.fragments.iter().map(|(k, v)| (k.to_string(), v.node.clone())).collect();
            frags.sort_by(|a, b| a.0.cmp(&b.0));
            *p = Some((ctx.query_env.operation.node.selection_set.node.clone(), frags));
        }
        let mut r = REGISTRY.lock().unwrap();
        if r.is_none() {
            *r = Some(dump_registry(&ctx.schema_env.registry));
        }
    }
    let mut path = vec![];
    let mut segs = vec![];
    let node = ctx.path_node.as_ref().unwrap();
    segs.push(node.segment);
    for p in node.parents() {
        segs.push(p.segment);
    }
    for s in segs.into_iter().rev() {
        path.push(match s {
            QueryPathSegment::Name(n) => Seg::Name(n.to_string()),
            QueryPathSegment::Index(i) => Seg::Index(i),
        });
    }
    let mut probes = vec![];
    let mut exists_ok = true;
    for ch in chains() {
        let mut la = ctx.look_ahead();
        for n in &ch {
            la = la.field(n);
        }
        let res: Vec<PEntry> = la.selection_fields().iter().map(|f| (f.alias().map(|s| s.to_string()), f.name().to_string(), args_of(f))).collect();
        if la.exists() == res.is_empty() {
            exists_ok = false;
        }
        if !res.is_empty() {
            probes.push((ch.iter().map(|s| s.to_string()).collect(), res));
        }
    }
    // Lookahead built from the selection field must be the same view
    let la2: Lookahead<'_> = ctx.field().into();
    if la2.selection_fields().len() != 1 {
        exists_ok = false;
    }
    LOG.lock().unwrap().push(Event {
        path,
        container: container.to_string(),
        recv: recv.into_iter().map(|(n, v)| (n.to_string(), v)).collect(),
        view: sview(ctx.field()),
        probes,
        exists_ok,
        ret: ret.into_iter().map(|s| s.to_string()).collect(),
    });
}

// ------------------------------------------------------------------ schema --
#[derive(Clone, Debug)]
pub struct Any(pub Value);

#[Scalar(name = "Any")]
impl ScalarType for Any {
    fn parse(value: Value) -> InputValueResult<Self> {
        Ok(Any(value))
    }
    fn to_value(&self) -> Value {
        self.0.clone()
    }
}

type Raw = MaybeUndefined<Any>;

fn raw(v: &Raw) -> Option<Value> {
    match v {
        MaybeUndefined::Undefined => None,
        MaybeUndefined::Null => Some(Value::Null),
        MaybeUndefined::Value(a) => Some(a.0.clone()),
    }
}
fn num(v: &Raw) -> i64 {
    match v {
        MaybeUndefined::Value(Any(Value::Number(n))) => n.as_i64().unwrap_or(0),
        _ => 0,
    }
}
fn node_of(k: i64) -> Node {
    if k.rem_euclid(2) == 0 { Node::A(A) } else { Node::B(B) }
}
fn node_ty(k: i64) -> &'static str {
    if k.rem_euclid(2) == 0 { "A" } else { "B" }
}
fn pet_of(k: i64) -> Pet {
    if k.rem_euclid(2) == 0 { Pet::Cat(Cat) } else { Pet::Dog(Dog) }
}
fn pet_ty(k: i64) -> &'static str {
    if k.rem_euclid(2) == 0 { "Cat" } else { "Dog" }
}
fn int(n: i32) -> Option<Value> {
    Some(Value::Number(n.into()))
}

pub struct A;
pub struct B;
pub struct Cat;
pub struct Dog;
pub struct Leaf;
pub struct Query;

#[derive(Interface)]
#[graphql(
    field(name = "id", ty = "i32", arg(name = "pad", ty = "Raw")),
    field(name = "next", ty = "Option<Node>", arg(name = "k", ty = "Raw")),
    field(name = "label", ty = "String", arg(name = "s", ty = "String", default = "d"))
)]
pub enum Node {
    A(A),
    B(B),
}

#[derive(Union)]
pub enum Pet {
    Cat(Cat),
    Dog(Dog),
}

#[Object]
impl A {
    async fn id(&self, ctx: &Context<'_>, pad: Raw) -> i32 {
        rec(ctx, "A", vec![("pad", raw(&pad))], vec![]);
        1
    }
    async fn next(&self, ctx: &Context<'_>, k: Raw) -> Option<Node> {
        let n = num(&k);
        if n == 9 {
            rec(ctx, "A", vec![("k", raw(&k))], vec![]);
            None
        } else {
            rec(ctx, "A", vec![("k", raw(&k))], vec![node_ty(n)]);
            Some(node_of(n))
        }
    }
    async fn label(&self, ctx: &Context<'_>, #[graphql(default = "d")] s: String) -> String {
        rec(ctx, "A", vec![("s", Some(Value::String(s.clone())))], vec![]);
        s
    }
    async fn only_a(&self, ctx: &Context<'_>, x: Raw) -> i32 {
        rec(ctx, "A", vec![("x", raw(&x))], vec![]);
        2
    }
    async fn leaf(&self, ctx: &Context<'_>, x: Raw, y: Raw) -> Leaf {
        rec(ctx, "A", vec![("x", raw(&x)), ("y", raw(&y))], vec!["Leaf"]);
        Leaf
    }
    async fn pet(&self, ctx: &Context<'_>, k: Raw) -> Pet {
        rec(ctx, "A", vec![("k", raw(&k))], vec![pet_ty(num(&k))]);
        pet_of(num(&k))
    }
}

#[Object]
impl B {
    async fn id(&self, ctx: &Context<'_>, pad: Raw) -> i32 {
        rec(ctx, "B", vec![("pad", raw(&pad))], vec![]);
        1
    }
    async fn next(&self, ctx: &Context<'_>, k: Raw) -> Option<Node> {
        let n = num(&k);
        if n == 9 {
            rec(ctx, "B", vec![("k", raw(&k))], vec![]);
            None
        } else {
            rec(ctx, "B", vec![("k", raw(&k))], vec![node_ty(n)]);
            Some(node_of(n))
        }
    }
    async fn label(&self, ctx: &Context<'_>, #[graphql(default = "d")] s: String) -> String {
        rec(ctx, "B", vec![("s", Some(Value::String(s.clone())))], vec![]);
        s
    }
    async fn only_b(&self, ctx: &Context<'_>) -> i32 {
        rec(ctx, "B", vec![], vec![]);
        3
    }
    async fn nodes(&self, ctx: &Context<'_>, #[graphql(default = 2)] n: i32, k: Raw) -> Vec<Node> {
        let c = n.clamp(0, 3) as i64;
        rec(ctx, "B", vec![("n", int(n)), ("k", raw(&k))], (0..c).map(|i| node_ty(num(&k) + i)).collect());
        (0..c).map(|i| node_of(num(&k) + i)).collect()
    }
}

#[Object]
impl Cat {
    async fn meow(&self, ctx: &Context<'_>, v: Raw) -> i32 {
        rec(ctx, "Cat", vec![("v", raw(&v))], vec![]);
        4
    }
    async fn friend(&self, ctx: &Context<'_>, k: Raw) -> Pet {
        rec(ctx, "Cat", vec![("k", raw(&k))], vec![pet_ty(num(&k))]);
        pet_of(num(&k))
    }
    async fn name(&self, ctx: &Context<'_>) -> String {
        rec(ctx, "Cat", vec![], vec![]);
        "cat".into()
    }
}

#[Object]
impl Dog {
    async fn bark(&self, ctx: &Context<'_>) -> i32 {
        rec(ctx, "Dog", vec![], vec![]);
        5
    }
    async fn owner(&self, ctx: &Context<'_>, k: Raw) -> Node {
        rec(ctx, "Dog", vec![("k", raw(&k))], vec![node_ty(num(&k))]);
        node_of(num(&k))
    }
    async fn name(&self, ctx: &Context<'_>) -> String {
        rec(ctx, "Dog", vec![], vec![]);
        "dog".into()
    }
}

#[Object]
impl Leaf {
    async fn v(&self, ctx: &Context<'_>, x: Raw) -> i32 {
        rec(ctx, "Leaf", vec![("x", raw(&x))], vec![]);
        6
    }
    async fn w(&self, ctx: &Context<'_>, #[graphql(default = 7)] m: i32) -> i32 {
        rec(ctx, "Leaf", vec![("m", int(m))], vec![]);
        m
    }
    async fn me(&self, ctx: &Context<'_>) -> Leaf {
        rec(ctx, "Leaf", vec![], vec!["Leaf"]);
        Leaf
    }
}

#[Object]
impl Query {
    async fn node(&self, ctx: &Context<'_>, k: Raw) -> Node {
        rec(ctx, "Query", vec![("k", raw(&k))], vec![node_ty(num(&k))]);
        node_of(num(&k))
    }
    async fn nodes(&self, ctx: &Context<'_>, #[graphql(default = 2)] n: i32, k: Raw) -> Vec<Node> {
        let c = n.clamp(0, 3) as i64;
        rec(ctx, "Query", vec![("n", int(n)), ("k", raw(&k))], (0..c).map(|i| node_ty(num(&k) + i)).collect());
        (0..c).map(|i| node_of(num(&k) + i)).collect()
    }
    async fn pet(&self, ctx: &Context<'_>, k: Raw) -> Pet {
        rec(ctx, "Query", vec![("k", raw(&k))], vec![pet_ty(num(&k))]);
        pet_of(num(&k))
    }
    async fn pets(&self, ctx: &Context<'_>, #[graphql(default = 2)] n: i32) -> Vec<Pet> {
        let c = n.clamp(0, 3) as i64;
        rec(ctx, "Query", vec![("n", int(n))], (0..c).map(pet_ty).collect());
        (0..c).map(pet_of).collect()
    }
    async fn leaf(&self, ctx: &Context<'_>, x: Raw, y: Raw) -> Leaf {
        rec(ctx, "Query", vec![("x", raw(&x)), ("y", raw(&y))], vec!["Leaf"]);
        Leaf
    }
    async fn maybe(&self, ctx: &Context<'_>, k: Raw) -> Option<Node> {
        let n = num(&k);
        if n == 9 {
            rec(ctx, "Query", vec![("k", raw(&k))], vec![]);
            None
        } else {
            rec(ctx, "Query", vec![("k", raw(&k))], vec![node_ty(n)]);
            Some(node_of(n))
        }
    }
    async fn val(&self, ctx: &Context<'_>, x: Raw) -> i32 {
        rec(ctx, "Query", vec![("x", raw(&x))], vec![]);
        0
    }
}

struct Noop;

#[async_trait::async_trait]
impl CustomDirective for Noop {
    async fn resolve_field(&self, _ctx: &Context<'_>, resolve: ResolveFut<'_>) -> ServerResult<Option<Value>> {
        resolve.await
    }
}

/// a directive that survives pruning: SelectionField::directives must list it
#[Directive(location = "Field")]
fn tag(x: Option<Any>) -> impl CustomDirective {
    let _ = x;
    Noop
}

pub struct Mutation;

#[Object]
impl Mutation {
    async fn node(&self, ctx: &Context<'_>, k: Raw) -> Node {
        rec(ctx, "Mutation", vec![("k", raw(&k))], vec![node_ty(num(&k))]);
        node_of(num(&k))
    }
    async fn leaf(&self, ctx: &Context<'_>, x: Raw, y: Raw) -> Leaf {
        rec(ctx, "Mutation", vec![("x", raw(&x)), ("y", raw(&y))], vec!["Leaf"]);
        Leaf
    }
    async fn val(&self, ctx: &Context<'_>, x: Raw) -> i32 {
        rec(ctx, "Mutation", vec![("x", raw(&x))], vec![]);
        0
    }
}

// --------------------------------------------------------------- generator --
#[derive(Clone, Copy, PartialEq)]
enum AK {
    Raw,
    Int,
    Str,
}
struct FD {
    name: &'static str,
    args: &'static [(&'static str, AK)],
    ret: &'static str, // "" = leaf
}
const NODE_F: [FD; 3] = [
    FD { name: "id", args: &[("pad", AK::Raw)], ret: "" },
    FD { name: "next", args: &[("k", AK::Raw)], ret: "Node" },
    FD { name: "label", args: &[("s", AK::Str)], ret: "" },
];
fn fields_of(ty: &str) -> Vec<&'static FD> {
    static A_F: [FD; 3] = [
        FD { name: "onlyA", args: &[("x", AK::Raw)], ret: "" },
        FD { name: "leaf", args: &[("x", AK::Raw), ("y", AK::Raw)], ret: "Leaf" },
        FD { name: "pet", args: &[("k", AK::Raw)], ret: "Pet" },
    ];
    static B_F: [FD; 2] = [FD { name: "onlyB", args: &[], ret: "" }, FD { name: "nodes", args: &[("n", AK::Int), ("k", AK::Raw)], ret: "Node" }];
    static CAT_F: [FD; 3] = [
        FD { name: "meow", args: &[("v", AK::Raw)], ret: "" },
        FD { name: "friend", args: &[("k", AK::Raw)], ret: "Pet" },
        FD { name: "name", args: &[], ret: "" },
    ];
    static DOG_F: [FD; 3] = [FD { name: "bark", args: &[], ret: "" }, FD { name: "owner", args: &[("k", AK::Raw)], ret: "Node" }, FD { name: "name", args: &[], ret: "" }];
    static LEAF_F: [FD; 3] = [FD { name: "v", args: &[("x", AK::Raw)], ret: "" }, FD { name: "w", args: &[("m", AK::Int)], ret: "" }, FD { name: "me", args: &[], ret: "Leaf" }];
    static Q_F: [FD; 7] = [
        FD { name: "node", args: &[("k", AK::Raw)], ret: "Node" },
        FD { name: "nodes", args: &[("n", AK::Int), ("k", AK::Raw)], ret: "Node" },
        FD { name: "pet", args: &[("k", AK::Raw)], ret: "Pet" },
        FD { name: "pets", args: &[("n", AK::Int)], ret: "Pet" },
        FD { name: "leaf", args: &[("x", AK::Raw), ("y", AK::Raw)], ret: "Leaf" },
        FD { name: "maybe", args: &[("k", AK::Raw)], ret: "Node" },
        FD { name: "val", args: &[("x", AK::Raw)], ret: "" },
    ];
    static NODE_S: [FD; 3] = NODE_F;
    match ty {
        "Node" => NODE_S.iter().collect(),
        "A" => NODE_S.iter().chain(A_F.iter()).collect(),
        "B" => NODE_S.iter().chain(B_F.iter()).collect(),
        "Cat" => CAT_F.iter().collect(),
        "Dog" => DOG_F.iter().collect(),
        "Leaf" => LEAF_F.iter().collect(),
        "Query" => Q_F.iter().collect(),
        "Mutation" => vec![&Q_F[0], &Q_F[4], &Q_F[6]],
        _ => vec![],
    }
}
fn conds_for(ty: &str) -> Vec<&'static str> {
    match ty {
        "Node" => vec!["Node", "A", "B", "A", "B"],
        "A" => vec!["A", "Node", "A"],
        "B" => vec!["B", "Node", "B"],
        "Pet" => vec!["Pet", "Cat", "Dog", "Cat", "Dog"],
        "Cat" => vec!["Cat", "Pet", "Cat"],
        "Dog" => vec!["Dog", "Pet", "Dog"],
        "Leaf" => vec!["Leaf"],
        "Query" => vec!["Query"],
        "Mutation" => vec!["Mutation"],
        _ => vec![],
    }
}

#[derive(Clone)]
struct VarD {
    name: String,
    decl: String,
    value: Option<serde_json::Value>,
}

struct DocGen {
    r: Rng,
    frags: Vec<(String, String, String)>,
    vars: Vec<VarD>,
    alias_no: usize,
    /// probability (x/20) of a directive on a selection
    dir_rate: u64,
    /// documents only the Fast validation mode accepts: repeated / malformed
    /// @skip/@include, unknown directives, undeclared variables in conditions,
    /// fragments on unrelated types
    wild: bool,
    zvars: Vec<(String, Option<bool>)>,
}

impl DocGen {
    fn json(&mut self, depth: usize) -> serde_json::Value {
        use serde_json::json;
        match self.r.below(if depth == 0 { 5 } else { 7 }) {
            0 => json!(self.r.range(-3, 12)),
            1 => json!(["s", "", "x y", "é"][self.r.below(4)]),
            2 => json!(self.r.chance(1, 2)),
            3 => serde_json::Value::Null,
            4 => json!(self.r.range(0, 3)),
            5 => {
                let n = self.r.below(3);
                serde_json::Value::Array((0..n).map(|_| self.json(depth - 1)).collect())
            }
            _ => {
                let n = self.r.below(3);
                let mut m = serde_json::Map::new();
                for i in 0..n {
                    m.insert(format!("k{i}"), self.json(depth - 1));
                }
                serde_json::Value::Object(m)
            }
        }
    }
    fn lit_of(v: &serde_json::Value) -> String {
        match v {
            serde_json::Value::Object(m) => format!("{{{}}}", m.iter().map(|(k, x)| format!("{k}: {}", Self::lit_of(x))).collect::<Vec<_>>().join(", ")),
            serde_json::Value::Array(l) => format!("[{}]", l.iter().map(Self::lit_of).collect::<Vec<_>>().join(", ")),
            other => other.to_string(),
        }
    }
    /// pick or create a variable of the given kind ('b', 'i', 'a'); returns "$name"
    fn var(&mut self, kind: char) -> String {
        let existing: Vec<String> = self.vars.iter().filter(|v| v.name.starts_with(kind)).map(|v| v.name.clone()).collect();
        if !existing.is_empty() && (existing.len() >= 3 || self.r.chance(1, 2)) {
            return format!("${}", self.r.pick(&existing));
        }
        let name = format!("{kind}{}", existing.len());
        let (decl, value) = match kind {
            'b' => {
                let d = self.r.chance(1, 2);
                let v = self.r.chance(1, 2);
                match self.r.below(5) {
                    0 | 1 => ("Boolean!".to_string(), Some(serde_json::json!(v))),
                    2 => (format!("Boolean! = {d}"), None),
                    3 => (format!("Boolean = {d}"), None),
                    _ => (format!("Boolean = {d}"), Some(serde_json::json!(v))),
                }
            }
            'i' => {
                let d = self.r.range(0, 4);
                let v = self.r.range(0, 4);
                match self.r.below(4) {
                    0 | 1 => ("Int!".to_string(), Some(serde_json::json!(v))),
                    2 => (format!("Int = {d}"), None),
                    _ => (format!("Int = {d}"), Some(serde_json::json!(v))),
                }
            }
            _ => {
                let d = self.json(1);
                let v = self.json(2);
                match self.r.below(5) {
                    0 | 1 => ("Any".to_string(), Some(v)),
                    2 => ("Any".to_string(), None),
                    3 => (format!("Any = {}", Self::lit_of(&d)), None),
                    _ => (format!("Any = {}", Self::lit_of(&d)), Some(v)),
                }
            }
        };
        self.vars.push(VarD { name: name.clone(), decl, value });
        format!("${name}")
    }
    fn raw_lit(&mut self, depth: usize) -> String {
        match self.r.below(if depth == 0 { 7 } else { 10 }) {
            0 | 1 => format!("{}", self.r.range(-2, 12)),
            2 => ["\"s\"", "\"\"", "\"a b\""][self.r.below(3)].to_string(),
            3 => if self.r.chance(1, 2) { "true".into() } else { "null".into() },
            4 => "RED".to_string(),
            5 | 6 => self.var('a'),
            7 => {
                let n = self.r.below(3);
                format!("[{}]", (0..n).map(|_| self.raw_lit(depth - 1)).collect::<Vec<_>>().join(", "))
            }
            8 => {
                let n = 1 + self.r.below(2);
                format!("{{{}}}", (0..n).map(|i| format!("k{i}: {}", self.raw_lit(depth - 1))).collect::<Vec<_>>().join(", "))
            }
            _ => self.var('i'),
        }
    }
    fn dirs(&mut self, allow_var: bool) -> String {
        let mut s = String::new();
        if self.r.next() % 20 < self.dir_rate {
            if self.wild {
                let k = 1 + self.r.below(3);
                for _ in 0..k {
                    let d = ["skip", "include", "skip", "include", "foo"][self.r.below(5)];
                    let c = match self.r.below(12) {
                        0 | 1 => "(if: true)".to_string(),
                        2 | 3 => "(if: false)".to_string(),
                        4 => "(if: \"true\")".to_string(),
                        5 => "(if: 1)".to_string(),
                        6 => "(if: null)".to_string(),
                        7 => "(if: [true])".to_string(),
                        8 => String::new(),
                        9 => "(x: true)".to_string(),
                        10 if allow_var => {
                            // undeclared variable, looked up in the request variables only
                            let name = format!("z{}", self.r.below(3));
                            if !self.zvars.iter().any(|(n, _)| *n == name) {
                                let v = [Some(true), Some(false), None][self.r.below(3)];
                                self.zvars.push((name.clone(), v));
                            }
                            format!("(if: ${name})")
                        }
                        _ if allow_var => format!("(if: {})", if self.r.chance(1, 2) { self.var('b') } else { self.var('a') }),
                        _ => "(if: true)".to_string(),
                    };
                    write!(s, " @{d}{c}").unwrap();
                }
                return s;
            }
            let two = self.r.chance(1, 6);
            let first_skip = self.r.chance(1, 2);
            for i in 0..(if two { 2 } else { 1 }) {
                let d = if first_skip == (i == 0) { "skip" } else { "include" };
                let c = match self.r.below(4) {
                    0 => "true".to_string(),
                    1 => "false".to_string(),
                    _ if allow_var => self.var('b'),
                    _ => if self.r.chance(1, 2) { "true".to_string() } else { "false".to_string() },
                };
                write!(s, " @{d}(if: {c})").unwrap();
            }
        }
        s
    }
    fn cond_for(&mut self, ty: &str) -> &'static str {
        if self.wild && self.r.chance(1, 3) {
            ["Node", "A", "B", "Pet", "Cat", "Dog", "Leaf"][self.r.below(7)]
        } else {
            let conds = conds_for(ty);
            *self.r.pick(&conds)
        }
    }
    fn sels(&mut self, ty: &str, depth: usize) -> String {
        let mut out = String::from("{");
        let n = 1 + self.r.below(4);
        let fields = fields_of(ty);
        let mut emitted = 0;
        for _ in 0..n {
            let k = self.r.below(20);
            if k < 11 && !fields.is_empty() {
                let f = *self.r.pick(&fields);
                if !f.ret.is_empty() && depth == 0 {
                    continue;
                }
                let mut args = vec![];
                for (an, ak) in f.args {
                    if self.r.chance(3, 5) {
                        let v = match ak {
                            AK::Raw => self.raw_lit(2),
                            AK::Int => if self.r.chance(1, 3) { self.var('i') } else { format!("{}", self.r.range(0, 4)) },
                            AK::Str => ["\"p\"", "\"\"", "\"q r\""][self.r.below(3)].to_string(),
                        };
                        args.push(format!("{an}: {v}"));
                    }
                }
                let alias = if (!args.is_empty() && self.r.chance(9, 10)) || (!f.ret.is_empty() && self.r.chance(7, 10)) {
                    self.alias_no += 1;
                    format!("x{}: ", self.alias_no)
                } else if self.r.chance(1, 10) {
                    format!("y{}: ", self.r.below(2))
                } else {
                    String::new()
                };
                let args = if args.is_empty() { String::new() } else { format!("({})", args.join(", ")) };
                let mut dirs = self.dirs(true);
                if self.r.chance(1, 12) {
                    let t = if self.r.chance(1, 3) { " @tag".to_string() } else { format!(" @tag(x: {})", self.raw_lit(1)) };
                    dirs = if self.r.chance(1, 2) { format!("{t}{dirs}") } else { format!("{dirs}{t}") };
                }
                if f.ret.is_empty() {
                    write!(out, " {alias}{}{args}{dirs}", f.name).unwrap();
                } else {
                    let sub = self.sels(f.ret, depth - 1);
                    write!(out, " {alias}{}{args}{dirs} {sub}", f.name).unwrap();
                }
                emitted += 1;
            } else if k < 12 {
                // the validator does not count variable uses in directives on __typename
                let dirs = self.dirs(false);
                write!(out, " __typename{dirs}").unwrap();
                emitted += 1;
            } else if k < 16 && depth > 0 {
                let c = self.cond_for(ty);
                let dirs = self.dirs(true);
                if self.r.chance(1, 4) {
                    let sub = self.sels(ty, depth - 1);
                    write!(out, " ...{dirs} {sub}").unwrap();
                } else {
                    let sub = self.sels(c, depth - 1);
                    write!(out, " ... on {c}{dirs} {sub}").unwrap();
                }
                emitted += 1;
            } else if depth > 0 {
                let c = self.cond_for(ty).to_string();
                let reuse: Vec<String> = self.frags.iter().filter(|f| f.1 == c && !f.2.is_empty()).map(|f| f.0.clone()).collect();
                let dirs = self.dirs(true);
                if !reuse.is_empty() && self.r.chance(1, 2) {
                    write!(out, " ...{}{dirs}", self.r.pick(&reuse)).unwrap();
                } else {
                    let name = format!("F{}", self.frags.len());
                    self.frags.push((name.clone(), c.clone(), String::new()));
                    let idx = self.frags.len() - 1;
                    let body = self.sels(&c, depth - 1);
                    self.frags[idx].2 = body;
                    write!(out, " ...{name}{dirs}").unwrap();
                }
                emitted += 1;
            }
        }
        if emitted == 0 {
            out.push_str(" __typename");
        }
        out.push_str(" }");
        out
    }
    fn document(&mut self) -> (String, serde_json::Value, Option<String>) {
        let depth = 1 + self.r.below(4);
        let mutation = !self.wild && self.r.chance(1, 8);
        let body = self.sels(if mutation { "Mutation" } else { "Query" }, depth);
        let mut vars = serde_json::Map::new();
        let mut decls = vec![];
        for v in &self.vars {
            decls.push(format!("${}: {}", v.name, v.decl));
            if let Some(x) = &v.value {
                vars.insert(v.name.clone(), x.clone());
            }
        }
        for (n, v) in &self.zvars {
            if let Some(b) = v {
                vars.insert(n.clone(), serde_json::json!(b));
            }
        }
        let vd = if decls.is_empty() { String::new() } else { format!("({})", decls.join(", ")) };
        let mut s = String::new();
        let mut opn = None;
        if mutation {
            writeln!(s, "mutation Op0{vd} {body}").unwrap();
        } else if vd.is_empty() && self.r.chance(1, 3) {
            writeln!(s, "{body}").unwrap();
        } else if self.r.chance(1, 6) {
            writeln!(s, "query Op0{vd} {body}").unwrap();
            writeln!(s, "query Op1 {{ __typename val }}").unwrap();
            opn = Some("Op0".to_string());
        } else {
            writeln!(s, "query Op0{vd} {body}").unwrap();
            if self.r.chance(1, 3) {
                opn = Some("Op0".to_string());
            }
        }
        for (n, c, b) in &self.frags {
            writeln!(s, "fragment {n} on {c} {b}").unwrap();
        }
        (s, serde_json::Value::Object(vars), opn)
    }
}

// ---------------------------------------------------------------- printing --
fn g_args(it: &mut Interner, a: &[(String, Value)]) -> String {
    g_list(a.iter(), |(n, v)| format!("({}, {})", it.n(n), g_const(it, v)))
}
fn g_oargs(it: &mut Interner, a: &Option<Vec<(String, Value)>>) -> String {
    g_opt(a.as_ref(), |a| g_args(it, a))
}
fn g_sview(it: &mut Interner, v: &SView) -> String {
    format!(
        "(SV {} {} {} {} {})",
        g_opt(v.alias.as_ref(), |a| it.n(a)),
        it.n(&v.name),
        g_oargs(it, &v.args),
        g_opt(v.dirs.as_ref(), |ds| g_list(ds.iter(), |(n, a)| format!("({}, {})", it.n(n), g_args(it, a)))),
        g_list(v.sub.iter(), |s| g_sview(it, s))
    )
}

struct TNode {
    ev: Event,
    groups: Vec<Vec<TNode>>,
}

fn g_tnode(it: &mut Interner, n: &TNode) -> String {
    format!(
        "(TN {} {} {} {} {})",
        it.n(&n.ev.container),
        g_sview(it, &n.ev.view),
        g_list(n.ev.recv.iter(), |(k, v)| format!("({}, {})", it.n(k), g_opt(v.as_ref(), |v| g_const(it, v)))),
        g_list(n.ev.probes.iter(), |(ch, res)| format!(
            "({}, {})",
            g_list(ch.iter(), |c| it.n(c)),
            g_list(res.iter(), |(a, nm, args)| format!("({}, {}, {})", g_opt(a.as_ref(), |a| it.n(a)), it.n(nm), g_oargs(it, args)))
        )),
        g_list(n.groups.iter().enumerate(), |(i, g)| format!("({}, {})", it.n(&n.ev.ret[i]), g_list(g.iter(), |c| g_tnode(it, c))))
    )
}

/// (parent path, list index) of an event path
fn parent_of(p: &[Seg]) -> (Vec<Seg>, Option<usize>) {
    let mut q = p[..p.len() - 1].to_vec();
    if let Some(Seg::Index(i)) = q.last().cloned() {
        q.pop();
        (q, Some(i))
    } else {
        (q, None)
    }
}
fn same_path(a: &[Seg], b: &[Seg]) -> bool {
    a.len() == b.len()
        && a.iter().zip(b).all(|(x, y)| match (x, y) {
            (Seg::Name(p), Seg::Name(q)) => p == q,
            (Seg::Index(p), Seg::Index(q)) => p == q,
            _ => false,
        })
}

/// Builds the invocation forest; None if the log is not well nested.
fn build(events: Vec<Event>) -> Option<Vec<TNode>> {
    // arena of nodes with child index lists, then convert
    struct Tmp {
        ev: Event,
        groups: Vec<Vec<usize>>,
    }
    let mut arena: Vec<Tmp> = vec![];
    let mut roots: Vec<usize> = vec![];
    let mut stack: Vec<usize> = vec![];
    for ev in events {
        let (pp, idx) = parent_of(&ev.path);
        while let Some(&top) = stack.last() {
            if same_path(&arena[top].ev.path, &pp) {
                break;
            }
            stack.pop();
        }
        let me = arena.len();
        let ngroups = ev.ret.len();
        match stack.last() {
            Some(&top) => {
                let g = idx.unwrap_or(0);
                if g >= arena[top].groups.len() {
                    return None;
                }
                arena[top].groups[g].push(me);
            }
            None => {
                if !pp.is_empty() || idx.is_some() {
                    return None;
                }
                roots.push(me);
            }
        }
        arena.push(Tmp { ev, groups: vec![vec![]; ngroups] });
        stack.push(me);
    }
    fn conv(arena: &mut Vec<Option<(Event, Vec<Vec<usize>>)>>, i: usize) -> TNode {
        let (ev, groups) = arena[i].take().unwrap();
        TNode { ev, groups: groups.into_iter().map(|g| g.into_iter().map(|c| conv(arena, c)).collect()).collect() }
    }
    let mut a2: Vec<Option<(Event, Vec<Vec<usize>>)>> = arena.into_iter().map(|t| Some((t.ev, t.groups))).collect();
    Some(roots.into_iter().map(|r| conv(&mut a2, r)).collect())
}

fn g_regdump(it: &mut Interner, d: &RegDump) -> String {
    let defv = |it: &mut Interner, s: &str| -> String {
        let j: serde_json::Value = serde_json::from_str(s).unwrap_or(serde_json::Value::Null);
        g_const(it, &Value::from_json(j).unwrap_or(Value::Null))
    };
    format!(
        "{{| ls_query := {}; ls_mutation := {}; ls_ftype := {}; ls_impl := {}; ls_unions := {}; ls_args := {}; ls_voc_all := {}; ls_voc_comp := {}; ls_voc_last := {} |}}",
        it.n(&d.query),
        it.n(&d.mutation),
        g_list(d.ftype.iter(), |((c, f), t)| format!("(({}, {}), {})", it.n(c), it.n(f), it.n(t))),
        g_list(d.implements.iter(), |(o, l)| format!("({}, {})", it.n(o), g_list(l.iter(), |i| it.n(i)))),
        g_list(d.unions.iter(), |(o, l)| format!("({}, {})", it.n(o), g_list(l.iter(), |i| it.n(i)))),
        g_list(d.args.iter(), |((c, f), l)| format!(
            "(({}, {}), {})",
            it.n(c),
            it.n(f),
            g_list(l.iter(), |(a, k)| format!("({}, {})", it.n(a), g_opt(k.as_ref(), |s| defv(it, s))))
        )),
        g_list(VOC_ALL.iter(), |s| it.n(s)),
        g_list(VOC_COMP.iter(), |s| it.n(s)),
        g_list(VOC_LAST.iter(), |s| it.n(s)),
    )
}

fn jstr(s: &str) -> String {
    serde_json::to_string(s).unwrap()
}

fn count_nodes(n: &[TNode]) -> usize {
    n.iter().map(|x| 1 + x.groups.iter().map(|g| count_nodes(g)).sum::<usize>()).sum()
}

struct Stats {
    not_nested: usize,
    rejected: usize,
    errored: usize,
    emitted: usize,
}

#[allow(clippy::too_many_arguments)]
fn run_case(schema: &Schema<Query, Mutation, EmptySubscription>, it: &mut Interner, out: &mut String, st: &mut Stats, text: &str, vars: &serde_json::Value, opn: Option<&str>, label: &str) -> bool {
    let Ok(parsed) = async_graphql::parser::parse_query(text) else {
        st.rejected += 1;
        return false;
    };
    LOG.lock().unwrap().clear();
    *PRUNED.lock().unwrap() = None;
    let variables = Variables::from_json(vars.clone());
    let mut req = Request::new(text).variables(variables.clone());
    if let Some(o) = opn {
        req = req.operation_name(o);
    }
    let resp = block_on(schema.execute(req));
    let events: Vec<Event> = std::mem::take(&mut *LOG.lock().unwrap());
    let pruned = PRUNED.lock().unwrap().take();
    if !resp.errors.is_empty() {
        if events.is_empty() {
            st.rejected += 1;
            if std::env::var("C22_DEBUG").is_ok() {
                eprintln!("REJ {:?} :: {}", resp.errors.iter().map(|e| e.message.clone()).collect::<Vec<_>>(), text.trim());
            }
        } else {
            st.errored += 1;
            writeln!(out, "SKIP\t0\t{{\"text\":{}}}", jstr(&format!("{text} errors={:?}", resp.errors.iter().map(|e| e.message.clone()).collect::<Vec<_>>()))).unwrap();
        }
        return false;
    }
    let exists_ok = events.iter().all(|e| e.exists_ok);
    let nev = events.len();
    let Some(forest) = build(events) else {
        st.not_nested += 1;
        writeln!(out, "SKIP\t1\t{{\"text\":{}}}", jstr(&format!("log not well nested: {text}"))).unwrap();
        return false;
    };
    assert_eq!(count_nodes(&forest), nev);
    let gdoc = g_document(it, &parsed);
    let gvars = g_list(variables.iter(), |(k, v)| format!("({}, {})", it.n(k), g_const(it, v)));
    let gpruned = g_opt(pruned.as_ref(), |(ss, frags)| {
        format!(
            "({}, {})",
            g_selections(it, ss),
            g_list(frags.iter(), |(n, fr)| format!(
                "({}, {{| fr_cond := {}; fr_dirs := {}; fr_sels := {} |}})",
                it.n(n),
                it.n(&fr.type_condition.node.on.node),
                g_directives(it, &fr.directives),
                g_selections(it, &fr.selection_set.node)
            ))
        )
    });
    let gforest = g_list(forest.iter(), |n| g_tnode(it, n));
    let has_dir = text.contains('@');
    let has_frag = text.contains("...");
    let meta = format!(
        "{{\"uses\":[\"sch\"],\"text\":{},\"impl\":{},\"nontrivial\":{}}}",
        jstr(&format!("[{label} op={opn:?} vars={vars}] {}", text.trim())),
        jstr(&format!("resolvers={nev} exists_consistent={exists_ok} data={}", serde_json::to_string(&resp.data).unwrap_or_default().chars().take(200).collect::<String>())),
        nev > 1 && (has_dir || has_frag)
    );
    writeln!(out, "CASE\t(sch, {gdoc}, {}, {gvars}, {gpruned}, {gforest}, {})\t{meta}", g_opt(opn, |o| it.n(o)), g_bool(exists_ok)).unwrap();
    st.emitted += 1;
    true
}

fn main() {
    let a = parse_args();
    let mut rng = Rng::new(a.seed);
    let mut out = String::new();
    let mut it = Interner::new();
    let schema = Schema::build(Query, Mutation, EmptySubscription).directive(tag).finish();
    // same schema with an extension installed: add_set then takes the ResolveInfo branch
    // Fast validation: only fragment cycles are rejected
    let schema_fast = Schema::build(Query, Mutation, EmptySubscription).directive(tag).validation_mode(ValidationMode::Fast).finish();
    let schema_ext = Schema::build(Query, Mutation, EmptySubscription).directive(tag).extension(extensions::Analyzer).finish();
    let mut st = Stats { not_nested: 0, rejected: 0, errored: 0, emitted: 0 };

    // registry dump through a first request
    let _ = block_on(schema.execute("{ val }"));
    let reg = REGISTRY.lock().unwrap().clone().expect("registry probe did not run");
    for ((ty, f), _) in reg.ftype.iter() {
        assert!(f.starts_with("__") || VOC_ALL.contains(&f.as_str()), "field {ty}.{f} is not in the probe vocabulary");
    }
    let mut body = String::new();

    // fixed corpus: boundary cases first
    let j = |s: &str| -> serde_json::Value { serde_json::from_str(s).unwrap() };
    let corpus: Vec<(&str, serde_json::Value, Option<&str>)> = vec![
        ("{ val }", j("{}"), None),
        ("{ node { id } }", j("{}"), None),
        ("{ node(k: 1) { id ... on A { onlyA } ... on B { onlyB } } }", j("{}"), None),
        ("{ node(k: 0) { id ... on A { onlyA } ... on B { onlyB } } }", j("{}"), None),
        ("{ node { id @skip(if: true) label @include(if: false) next @skip(if: false) { id } } }", j("{}"), None),
        ("query Q($b: Boolean = true) { node { id @skip(if: $b) label } }", j("{}"), None),
        ("query Q($b: Boolean = true) { node { id @skip(if: $b) label } }", j("{\"b\": true}"), None),
        ("query Q($b: Boolean!) { node { id @include(if: $b) label @skip(if: $b) } }", j("{\"b\": false}"), None),
        ("{ node { ...F } } fragment F on Node { id ... on A { leaf { v w } } ...G } fragment G on B { nodes(n: 3, k: 1) { id } }", j("{}"), None),
        ("{ node(k: 1) { ...F } } fragment F on Node { id ... on A { leaf { v w } } ...G } fragment G on B { nodes(n: 3, k: 1) { id } }", j("{}"), None),
        ("{ pet { __typename ... on Cat { meow friend(k: 1) { ... on Dog { bark } } } ... on Dog { bark } } }", j("{}"), None),
        ("{ pet(k: 1) { ... on Pet { ... on Dog { owner { id } } } } }", j("{}"), None),
        // union / interface condition reached from a concrete object
        ("{ node { ... on A { ... on Node { id } pet { ... on Cat { ... on Pet { ... on Cat { name } } } } } } }", j("{}"), None),
        ("{ node { id } node { label } }", j("{}"), None),
        ("{ node { a: id(pad: 1) b: id(pad: 2) } }", j("{}"), None),
        ("query Q($a: Any, $c: Any = 5, $i: Int = 3) { leaf(x: $a, y: [$a, $c, {k: $a}]) { v(x: $c) w(m: $i) } }", j("{}"), None),
        ("query Q($a: Any, $c: Any = 5, $i: Int = 3) { leaf(x: $a, y: [$a, $c, {k: $a}]) { v(x: $c) w(m: $i) } }", j("{\"a\": {\"z\": [1, null]}, \"i\": 1}"), None),
        ("{ nodes(n: 3) { id ... on A { onlyA } ... on B { onlyB nodes { id } } } }", j("{}"), None),
        ("{ nodes(n: 0) { id } pets { ... on Cat { name } ... on Dog { name } } }", j("{}"), None),
        ("{ maybe(k: 9) { id } maybe2: maybe(k: 1) { id } }", j("{}"), None),
        ("{ leaf { me { me { v } } } }", j("{}"), None),
        ("{ node { next { next(k: 1) { id } } } }", j("{}"), None),
        ("{ node { ... @skip(if: true) { id } ... @include(if: true) { label } ...F @skip(if: true) ...G } } fragment F on Node { id } fragment G on Node { x: id }", j("{}"), None),
        ("query Op0 { val } query Op1 { node { id } }", j("{}"), Some("Op1")),
        ("{ node { id @skip(if: false) @include(if: false) } }", j("{}"), None),
        ("{ node { id @skip(if: true) @include(if: true) y: id } }", j("{}"), None),
        ("query Q($a: Any) { node @tag(x: [1, $a]) @skip(if: false) { id @include(if: true) @tag label @tag(x: $a) } }", j("{}"), None),
        ("mutation { node(k: 1) { id ... on B { onlyB } } leaf { v } val }", j("{}"), None),
        ("mutation M($b: Boolean!) { a: val(x: 1) @skip(if: $b) b: val(x: 2) @include(if: $b) }", j("{\"b\": true}"), None),
    ];
    for (text, vars, opn) in corpus.iter() {
        run_case(&schema, &mut it, &mut body, &mut st, text, vars, *opn, "corpus");
    }
    let wild_corpus: Vec<(&str, serde_json::Value)> = vec![
        ("{ node { id @skip label @skip(x: true) next @include { id } } }", j("{}")),
        ("{ node { id @skip(if: \"true\") label @include(if: 1) a: id @include(if: null) b: id @skip(if: [true]) } }", j("{}")),
        ("{ node { id @skip(if: $z) label @include(if: $z) } }", j("{\"z\": true}")),
        ("{ node { id @skip(if: $z) label @include(if: $z) } }", j("{}")),
        ("{ node { id @skip(if: false) @skip(if: true) label @include(if: true) @include(if: false) a: id @skip(if: false) @include(if: true) } }", j("{}")),
        ("{ node { id @foo(a: 1) @skip(if: false) ... on Leaf { v } ... on Pet { ... on Cat { name } } ... on A { ... on Node { label } } } }", j("{}")),
        ("query Q($a: Any) { node { id @skip(if: $a) label @include(if: $a) } }", j("{\"a\": true}")),
        ("query Q($a: Any = true) { node { id @skip(if: $a) label @include(if: $a) } }", j("{}")),
        ("query Q($a: Any) { node { id @skip(if: $a) label @include(if: $a) } }", j("{\"a\": \"true\"}")),
        ("{ pet { ... on Node { id } ... on Dog { bark ... on Cat { meow } } ... on Cat { meow } } }", j("{}")),
    ];
    for (text, vars) in wild_corpus.iter() {
        run_case(&schema_fast, &mut it, &mut body, &mut st, text, vars, None, "corpus fast");
    }
    for (text, vars, opn) in corpus.iter().skip(2).step_by(3) {
        run_case(&schema_ext, &mut it, &mut body, &mut st, text, vars, *opn, "corpus ext");
    }
    let mut attempts = 0usize;
    while st.emitted < a.n && attempts < a.n * 20 {
        attempts += 1;
        let wild = attempts % 4 == 1;
        let mut dg = DocGen { r: rng.fork(), frags: vec![], vars: vec![], alias_no: 0, dir_rate: if wild { 10 } else { [0, 4, 6, 10][rng.below(4)] }, wild, zvars: vec![] };
        let (text, vars, opn) = dg.document();
        if wild {
            run_case(&schema_fast, &mut it, &mut body, &mut st, &text, &vars, opn.as_deref(), "gen fast");
        } else if attempts % 3 == 0 {
            run_case(&schema_ext, &mut it, &mut body, &mut st, &text, &vars, opn.as_deref(), "gen ext");
        } else {
            run_case(&schema, &mut it, &mut body, &mut st, &text, &vars, opn.as_deref(), "gen");
        }
    }
    writeln!(out, "DEF\tsch\t{}", g_regdump(&mut it, &reg)).unwrap();
    out.push_str(&body);
    writeln!(out, "STATS\t0\t{{\"text\":\"emitted={} rejected_by_validation={} execution_errors={} attempts={}\"}}", st.emitted, st.rejected, st.errored, attempts).unwrap();
    writeln!(out, "NAMES\t\t{}", serde_json::to_string(&it.names).unwrap()).unwrap();
    std::fs::write(format!("{}/c22.cases", a.out), out).unwrap();
    eprintln!("c22: emitted={} rejected={} errored={} not_nested={} attempts={}", st.emitted, st.rejected, st.errored, st.not_nested, attempts);
    // a run that could not observe the executor must not pass silently
    if st.not_nested > 0 || st.errored * 10 > st.emitted || st.emitted < a.n.min(corpus.len()) {
        eprintln!("c22: the resolver log could not be turned into invocation trees (not_nested={}, errored={}, emitted={})", st.not_nested, st.errored, st.emitted);
        std::process::exit(2);
    }
}

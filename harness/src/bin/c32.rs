//! C32 correspondence: every `CursorType` impl of the real library (encode /
//! decode of values and of arbitrary strings), the real `base64` crate
//! (URL_SAFE_NO_PAD) against the Coq codec, `OpaqueCursor` over a nested serde
//! type, `connection::query_with` with a recording closure and a recording
//! cursor type, and executed connection fields (pageInfo / edges.cursor).
use std::cell::RefCell;
use std::collections::BTreeMap;
use std::fmt::Write as _;

use agv_harness::*;
use async_graphql::connection::*;
use async_graphql::*;
use base64::Engine;
use serde::{Deserialize, Serialize};

fn jstr(s: &str) -> String {
    serde_json::to_string(s).unwrap()
}

fn g_bytes(b: &[u8]) -> String {
    let mut o = String::from("[");
    for (i, x) in b.iter().enumerate() {
        if i > 0 {
            o.push(';');
        }
        write!(o, "{x}").unwrap();
    }
    o.push_str("]%N");
    o
}

fn g_ty(signed: bool, bits: u32) -> String {
    format!("{{| it_signed := {}; it_bits := {} |}}", g_bool(signed), bits)
}

fn g_cint(signed: bool, bits: u32, v: &str) -> String {
    format!("(CInt {} ({})%Z)", g_ty(signed, bits), v)
}

fn emit(out: &mut String, kind: &str, term: String, text: String, imp: String, nontrivial: bool) {
    writeln!(
        out,
        "{kind}\t{term}\t{{\"text\":{},\"impl\":{},\"nontrivial\":{}}}",
        jstr(&text),
        jstr(&imp),
        nontrivial
    )
    .unwrap();
}

// ------------------------------------------------------------------ strings
const NASTY: &[&str] = &[
    "", " ", "0", "-0", "+0", "+", "-", "--1", "+-1", "-+1", "++1", "1 ", " 1", "1_000", "0x10", "1e3", "1.0", "١٢", "１２", "true", "false", "True", "TRUE",
    "false ", "t", "a", "ab", "é", "😀", "😀😀", "\u{0}", "\n", "NaN", "inf", "-inf", "infinity", "00000000000000000000000000000000000000000000000007",
    "-00000000000000000000000000000000000000000000000000128", "+127", "+128", "255", "256", "-129", "-128", "9223372036854775807", "9223372036854775808",
    "-9223372036854775808", "-9223372036854775809", "18446744073709551615", "18446744073709551616", "340282366920938463463374607431768211455",
    "340282366920938463463374607431768211456", "170141183460469231731687303715884105727", "170141183460469231731687303715884105728",
    "-170141183460469231731687303715884105728", "-170141183460469231731687303715884105729", "99999999999999999999999999999999999999999999", "2147483647",
    "2147483648", "-2147483648", "-2147483649", "4294967295", "4294967296", "32767", "32768", "-32768", "-32769", "65535", "65536",
];

fn rand_string(r: &mut Rng) -> String {
    if r.chance(1, 4) {
        return (*r.pick(NASTY)).to_string();
    }
    let pools: [&[char]; 4] = [
        &['0', '1', '2', '3', '4', '5', '6', '7', '8', '9'],
        &['0', '9', '+', '-', ' ', '_', '.', 'e', '1'],
        &['a', 'b', 'Z', 'é', 'ß', '漢', '😀', '\'', '"', '\\', '\n', '\u{0}', '-', '_', '=', '/'],
        &['t', 'r', 'u', 'e', 'f', 'a', 'l', 's'],
    ];
    let pool = pools[r.below(4)];
    let n = r.below(8);
    (0..n).map(|_| *r.pick(pool)).collect()
}

fn mutate_int_text(r: &mut Rng, s: &str) -> String {
    match r.below(8) {
        0 => format!("+{s}"),
        1 => {
            // leading zeros after the sign
            let z = "0".repeat(1 + r.below(45));
            if let Some(rest) = s.strip_prefix('-') { format!("-{z}{rest}") } else { format!("{z}{s}") }
        }
        2 => {
            // bump the last digit (MAX -> MAX+1, MIN -> MIN-1)
            let mut b: Vec<char> = s.chars().collect();
            if let Some(l) = b.last_mut() {
                if *l != '9' {
                    *l = char::from_digit(l.to_digit(10).unwrap_or(0) + 1, 10).unwrap();
                }
            }
            b.into_iter().collect()
        }
        3 => format!("{s}{}", r.below(10)),
        4 => format!("-{s}"),
        5 => {
            let mut b: Vec<char> = s.chars().collect();
            let i = r.below(b.len() + 1);
            b.insert(i, *r.pick(&[' ', '_', '+', '-', 'a', '.', '٣']));
            b.into_iter().collect()
        }
        6 => s.chars().take(r.below(s.chars().count() + 1)).collect(),
        _ => s.to_string(),
    }
}

macro_rules! int_stream {
    ($t:ty, $signed:expr, $bits:expr, $out:expr, $rng:expr, $n:expr) => {{
        let name = stringify!($t);
        let mut vals: Vec<$t> = vec![<$t>::MIN, <$t>::MAX, 0 as $t, 1 as $t, <$t>::MAX - 1, <$t>::MIN + 1, 9 as $t, 10 as $t, 99 as $t, 100 as $t];
        if $signed {
            vals.push((0 as $t).wrapping_sub(1));
            vals.push((0 as $t).wrapping_sub(10));
        }
        for _ in 0..$n {
            let k = $rng.below($bits as usize + 1) as u32;
            let raw = (($rng.next() as u128) << 64) | ($rng.next() as u128);
            let m = if k == 0 { 0 } else if k >= 128 { raw } else { raw & ((1u128 << k) - 1) };
            let mut v = m as $t;
            if $signed && $rng.chance(1, 2) {
                v = (0 as $t).wrapping_sub(v);
            }
            vals.push(v);
        }
        let mut texts: Vec<String> = vec![];
        for v in &vals {
            let s = <$t as CursorType>::encode_cursor(v);
            emit(
                $out,
                "ENC",
                format!("({}, {})", g_cint($signed, $bits, &v.to_string()), g_str(&s)),
                format!("{name} {v}"),
                s.clone(),
                true,
            );
            texts.push(s);
        }
        let mut inputs: Vec<String> = texts.clone();
        for s in &texts {
            inputs.push(mutate_int_text($rng, s));
        }
        for s in NASTY {
            inputs.push(s.to_string());
        }
        for _ in 0..$n {
            inputs.push(rand_string($rng));
        }
        for s in inputs {
            let got = <$t as CursorType>::decode_cursor(&s);
            let g = g_opt(got.as_ref().ok(), |v| g_cint($signed, $bits, &v.to_string()));
            emit(
                $out,
                "DEC",
                format!("(KInt {}, {}, {})", g_ty($signed, $bits), g_str(&s), g),
                format!("{name} {s:?}"),
                format!("{:?}", got.as_ref().ok()),
                got.is_ok(),
            );
        }
    }};
}

// --------------------------------------------------------------- opaque type
#[derive(Serialize, Deserialize, PartialEq, Debug, Clone)]
enum Tree {
    Unit,
    B(bool),
    I(i64),
    U(u64),
    F(f64),
    S(String),
    L(Vec<Tree>),
    M(BTreeMap<String, Tree>),
    P(i32, String),
    R { a: Option<i32>, b: Vec<u8> },
}

fn rand_f64(r: &mut Rng, special: bool) -> f64 {
    if special && r.chance(1, 3) {
        return *r.pick(&[f64::NAN, f64::INFINITY, f64::NEG_INFINITY]);
    }
    match r.below(5) {
        0 => *r.pick(&[0.0, -0.0, 1.0, -1.5, 0.1, 1e300, 5e-324, f64::MAX, f64::MIN_POSITIVE, 123456.789]),
        1 => r.range(-1000, 1000) as f64 / 8.0,
        2 => (r.range(-1_000_000, 1_000_000) as f64) * 1e-3,
        _ => {
            let mut x = f64::from_bits(r.next());
            while !x.is_finite() {
                x = f64::from_bits(r.next());
            }
            x
        }
    }
}

fn rand_tree(r: &mut Rng, depth: usize, special: bool) -> Tree {
    let k = if depth == 0 { r.below(7) } else { r.below(10) };
    match k {
        0 => Tree::Unit,
        1 => Tree::B(r.chance(1, 2)),
        2 => Tree::I(*r.pick(&[0, -1, i64::MIN, i64::MAX, 42])),
        3 => Tree::U(*r.pick(&[0, u64::MAX, 7])),
        4 => Tree::F(rand_f64(r, special)),
        5 => Tree::S(rand_string(r)),
        6 => Tree::P(r.range(-5, 5) as i32, rand_string(r)),
        7 => Tree::L((0..r.below(4)).map(|_| rand_tree(r, depth - 1, special)).collect()),
        8 => Tree::M((0..r.below(3)).map(|_| (rand_string(r), rand_tree(r, depth - 1, special))).collect()),
        _ => Tree::R { a: if r.chance(1, 2) { Some(r.range(-9, 9) as i32) } else { None }, b: (0..r.below(4)).map(|_| r.below(256) as u8).collect() },
    }
}

fn has_nonfinite(t: &Tree) -> bool {
    match t {
        Tree::F(x) => !x.is_finite(),
        Tree::L(l) => l.iter().any(has_nonfinite),
        Tree::M(m) => m.values().any(has_nonfinite),
        _ => false,
    }
}

/// a finite float that serde_json itself does not reproduce exactly
fn has_lossy_float(t: &Tree) -> bool {
    match t {
        Tree::F(x) => x.is_finite() && serde_json::from_str::<f64>(&serde_json::to_string(x).unwrap()).ok().map(|y| y.to_bits()) != Some(x.to_bits()),
        Tree::L(l) => l.iter().any(has_lossy_float),
        Tree::M(m) => m.values().any(has_lossy_float),
        _ => false,
    }
}

fn opaque_rt<T: Serialize + serde::de::DeserializeOwned + PartialEq + Clone>(out: &mut String, v: &T, cls: u32, text: String) {
    let ser = serde_json::to_vec(v).ok();
    let json_rt = serde_json::from_slice::<T>(&serde_json::to_vec(v).unwrap_or_default()).ok().as_ref() == Some(v);
    let enc = OpaqueCursor(v.clone()).encode_cursor();
    let back = OpaqueCursor::<T>::decode_cursor(&enc);
    let impl_rt = matches!(&back, Ok(b) if b.0 == *v);
    emit(
        out,
        "OPQE",
        format!("({}, {}, {}%N, {}, {})", g_opt(ser.as_ref(), |b| g_bytes(b)), g_bool(json_rt), cls, g_str(&enc), g_bool(impl_rt)),
        text,
        format!("{enc} roundtrip={impl_rt}"),
        true,
    );
}

// ------------------------------------------------------------ recording type
thread_local! {
    static TRACE: RefCell<Vec<String>> = const { RefCell::new(Vec::new()) };
}

struct Rec(i64);
impl CursorType for Rec {
    type Error = std::num::ParseIntError;
    fn decode_cursor(s: &str) -> Result<Self, Self::Error> {
        TRACE.with(|t| t.borrow_mut().push(s.to_string()));
        s.parse().map(Rec)
    }
    fn encode_cursor(&self) -> String {
        self.0.to_string()
    }
}

const MSG_FIRST: &str = "The \"first\" parameter must be a non-negative number";
const MSG_LAST: &str = "The \"last\" parameter must be a non-negative number";

#[allow(clippy::too_many_arguments)]
fn run_qw<C>(after: Option<String>, before: Option<String>, first: Option<i32>, last: Option<i32>, cl_ok: bool, to_g: impl Fn(&C) -> String) -> (String, String)
where
    C: CursorType + Send + Sync,
    <C as CursorType>::Error: std::fmt::Display + Send + Sync + 'static,
{
    let seen: RefCell<Option<String>> = RefCell::new(None);
    let res: Result<u8> = block_on(query_with::<C, u8, _, _, Error>(after, before, first, last, |a, b, f, l| {
        let g = format!(
            "{} {} {} {}",
            g_opt(a.as_ref(), &to_g),
            g_opt(b.as_ref(), &to_g),
            g_opt(f, |x| g_z(x as i128)),
            g_opt(l, |x| g_z(x as i128))
        );
        *seen.borrow_mut() = Some(g);
        async move { if cl_ok { Ok(7u8) } else { Err(Error::new("closure-err")) } }
    }));
    let called = seen.borrow().is_some();
    match (&res, seen.borrow().as_ref()) {
        (Ok(7), Some(g)) => (format!("(ICalled {g} true)"), "Ok(closure value)".into()),
        (Err(e), Some(g)) if e.message == "closure-err" => (format!("(ICalled {g} false)"), "Err(closure error)".into()),
        (Err(e), _) => {
            let code = if e.message == MSG_FIRST { 1 } else if e.message == MSG_LAST { 2 } else if e.message == "closure-err" { 5 } else { 3 };
            (format!("(IErr {code}%N {})", g_bool(called)), format!("Err({})", e.message))
        }
        (Ok(x), _) => (format!("(IErr 9%N {})", g_bool(called)), format!("Ok({x}) without the closure's value")),
    }
}

// --------------------------------------------------------- executed schema
#[derive(Clone)]
enum Edges {
    I(Vec<i64>),
    U(Vec<usize>),
    S(Vec<String>),
    C(Vec<char>),
    B(Vec<bool>),
    D(Vec<ID>),
    N(Vec<i32>),
}

struct Q;

macro_rules! node_types {
    ($($n:ident)*) => {$(
        #[derive(SimpleObject)]
        struct $n {
            v: i32,
        }
        impl From<i32> for $n {
            fn from(v: i32) -> Self {
                $n { v }
            }
        }
    )*};
}
node_types! { N1 N2 N3 N4 N5 N6 N7 }

type NoNodes<C> = Connection<C, N7, EmptyFields, EmptyFields, DefaultConnectionName, DefaultEdgeName, DisableNodesField>;

macro_rules! fill {
    ($ctx:expr, $var:path, $conn:expr) => {{
        let mut c = $conn;
        if let $var(v) = $ctx.data_unchecked::<Edges>() {
            c.edges.extend(v.iter().enumerate().map(|(i, x)| Edge::new(x.clone(), (i as i32).into())));
        }
        c
    }};
}

#[Object]
impl Q {
    async fn ci(&self, ctx: &Context<'_>) -> Connection<i64, N1> {
        fill!(ctx, Edges::I, Connection::new(false, true))
    }
    async fn cu(&self, ctx: &Context<'_>) -> Connection<usize, N2> {
        fill!(ctx, Edges::U, Connection::new(true, true))
    }
    async fn cs(&self, ctx: &Context<'_>) -> Connection<String, N3> {
        fill!(ctx, Edges::S, Connection::new(false, false))
    }
    async fn cc(&self, ctx: &Context<'_>) -> Connection<char, N4> {
        fill!(ctx, Edges::C, Connection::new(false, false))
    }
    async fn cb(&self, ctx: &Context<'_>) -> Connection<bool, N5> {
        fill!(ctx, Edges::B, Connection::new(false, false))
    }
    async fn cd(&self, ctx: &Context<'_>) -> Connection<ID, N6> {
        fill!(ctx, Edges::D, Connection::new(false, false))
    }
    async fn cn(&self, ctx: &Context<'_>) -> NoNodes<i32> {
        fill!(ctx, Edges::N, NoNodes::<i32>::new(true, false))
    }
}

fn main() {
    let a = parse_args();
    let mut rng = Rng::new(a.seed);
    let mut out = String::new();
    let n = a.n.max(4);
    let per = (n / 24).max(3);

    // ---- integers: every impl of cursor_type_int_impl! (isize/usize are 64 bit here)
    assert_eq!(std::mem::size_of::<usize>(), 8);
    int_stream!(i8, true, 8u32, &mut out, &mut rng, per);
    int_stream!(i16, true, 16u32, &mut out, &mut rng, per);
    int_stream!(i32, true, 32u32, &mut out, &mut rng, per);
    int_stream!(i64, true, 64u32, &mut out, &mut rng, per);
    int_stream!(i128, true, 128u32, &mut out, &mut rng, per);
    int_stream!(isize, true, 64u32, &mut out, &mut rng, per);
    int_stream!(u8, false, 8u32, &mut out, &mut rng, per);
    int_stream!(u16, false, 16u32, &mut out, &mut rng, per);
    int_stream!(u32, false, 32u32, &mut out, &mut rng, per);
    int_stream!(u64, false, 64u32, &mut out, &mut rng, per);
    int_stream!(u128, false, 128u32, &mut out, &mut rng, per);
    int_stream!(usize, false, 64u32, &mut out, &mut rng, per);

    // ---- bool, char, String, ID
    for b in [true, false] {
        let s = b.encode_cursor();
        emit(&mut out, "ENC", format!("(CBool {}, {})", g_bool(b), g_str(&s)), format!("bool {b}"), s, true);
    }
    let mut chars = vec!['a', '0', '\u{0}', '\n', '\'', '\\', 'é', '漢', '😀', '\u{10FFFF}', '\u{D7FF}', '\u{E000}', '+', '-'];
    for _ in 0..per * 2 {
        chars.push(loop {
            if let Some(c) = char::from_u32((rng.next() % 0x110000) as u32) {
                break c;
            }
        });
    }
    for c in &chars {
        let s = c.encode_cursor();
        emit(&mut out, "ENC", format!("(CChar {}%N, {})", *c as u32, g_str(&s)), format!("char {c:?}"), s, true);
    }
    let mut strs: Vec<String> = NASTY.iter().map(|s| s.to_string()).collect();
    for _ in 0..per * 4 {
        strs.push(rand_string(&mut rng));
    }
    for s in &strs {
        let e = s.encode_cursor();
        emit(&mut out, "ENC", format!("(CStr {}, {})", g_str(s), g_str(&e)), format!("String {s:?}"), e, true);
        let e = ID(s.clone()).encode_cursor();
        emit(&mut out, "ENC", format!("(CId {}, {})", g_str(s), g_str(&e)), format!("ID {s:?}"), e, true);
        let d = bool::decode_cursor(s).ok();
        emit(&mut out, "DEC", format!("(KBool, {}, {})", g_str(s), g_opt(d, |b| format!("(CBool {})", g_bool(b)))), format!("bool {s:?}"), format!("{d:?}"), d.is_some());
        let d = char::decode_cursor(s).ok();
        emit(&mut out, "DEC", format!("(KChar, {}, {})", g_str(s), g_opt(d, |c| format!("(CChar {}%N)", c as u32))), format!("char {s:?}"), format!("{d:?}"), d.is_some());
        let d = String::decode_cursor(s).ok();
        emit(&mut out, "DEC", format!("(KStr, {}, {})", g_str(s), g_opt(d.as_ref(), |x| format!("(CStr {})", g_str(x)))), format!("String {s:?}"), format!("{d:?}"), true);
        let d = ID::decode_cursor(s).ok();
        emit(&mut out, "DEC", format!("(KId, {}, {})", g_str(s), g_opt(d.as_ref(), |x| format!("(CId {})", g_str(&x.0)))), format!("ID {s:?}"), format!("{d:?}"), true);
    }
    for c in &chars {
        let s = c.to_string();
        let d = char::decode_cursor(&s).ok();
        emit(&mut out, "DEC", format!("(KChar, {}, {})", g_str(&s), g_opt(d, |c| format!("(CChar {}%N)", c as u32))), format!("char {s:?}"), format!("{d:?}"), d.is_some());
    }

    // ---- floats (assumed law of to_string/parse, tested only)
    {
        let mut f64s = vec![0.0, -0.0, 1.0, -1.0, 0.1, 1e300, 1e-300, 5e-324, f64::MAX, f64::MIN, f64::MIN_POSITIVE, f64::EPSILON, f64::INFINITY, f64::NEG_INFINITY, f64::NAN, -f64::NAN, f64::from_bits(0x7ff0000000000001), 1e21, 1e-7, 123456789.123456789];
        let mut f32s = vec![0.0f32, -0.0, 1.0, 0.1, f32::MAX, f32::MIN, f32::MIN_POSITIVE, 1e-45, f32::INFINITY, f32::NEG_INFINITY, f32::NAN, -f32::NAN, 16777217.0, 1e38];
        for _ in 0..per * 6 {
            f64s.push(f64::from_bits(rng.next()));
            f32s.push(f32::from_bits(rng.next() as u32));
        }
        for x in f64s {
            let s = x.encode_cursor();
            let back = f64::decode_cursor(&s).ok();
            emit(
                &mut out,
                "FLT",
                format!("({}%N, {}, {})", x.to_bits(), g_bool(x.is_nan()), g_opt(back, |y| format!("({}%N, {})", y.to_bits(), g_bool(y.is_nan())))),
                format!("f64 {:#x} {s}", x.to_bits()),
                format!("{back:?}"),
                true,
            );
        }
        for x in f32s {
            let s = x.encode_cursor();
            let back = f32::decode_cursor(&s).ok();
            emit(
                &mut out,
                "FLT",
                format!("({}%N, {}, {})", x.to_bits(), g_bool(x.is_nan()), g_opt(back, |y| format!("({}%N, {})", y.to_bits(), g_bool(y.is_nan())))),
                format!("f32 {:#x} {s}", x.to_bits()),
                format!("{back:?}"),
                true,
            );
        }
    }

    // ---- base64 crate vs model
    let eng = &base64::engine::general_purpose::URL_SAFE_NO_PAD;
    let mut blobs: Vec<Vec<u8>> = vec![vec![], vec![0], vec![255], vec![0, 0], vec![255, 255], vec![0, 0, 0], vec![255, 255, 255], vec![251, 255, 191], b"null".to_vec(), b"{\"a\":1}".to_vec(), (0..=255u8).collect()];
    for _ in 0..per * 8 {
        let len = rng.below(14);
        blobs.push((0..len).map(|_| if rng.chance(1, 4) { *rng.pick(&[0u8, 255, 3, 252, 15, 240, 63]) } else { rng.below(256) as u8 }).collect());
    }
    let mut b64_inputs: Vec<String> = vec!["", "A", "AA", "AAA", "AAAA", "AB", "AQ", "AAB", "AAE", "AA==", "AAA=", "A===", "=", "+/+/", "-_-_", "A A", "AA\n", "QUJD", "QUJDRA", "QUJDRA==", "QUJDRB", "é", "AAé", "ĀA", "AA\u{0}A"]
        .into_iter()
        .map(String::from)
        .collect();
    for b in &blobs {
        let e = eng.encode(b);
        emit(&mut out, "B64E", format!("({}, {})", g_bytes(b), g_str(&e)), format!("{b:?}"), e.clone(), !b.is_empty());
        b64_inputs.push(e.clone());
        // mutate the last symbol (trailing bits), append/remove symbols, foreign symbols
        let mut cs: Vec<char> = e.chars().collect();
        match rng.below(6) {
            0 => {
                if let Some(l) = cs.last_mut() {
                    *l = *rng.pick(&['B', 'C', 'E', 'I', 'Q', 'g', 'w', '_', '-', '9']);
                }
            }
            1 => cs.push(*rng.pick(&['A', 'B', 'Q', 'w', '='])),
            2 => {
                cs.pop();
            }
            3 => {
                let i = rng.below(cs.len() + 1);
                cs.insert(i, *rng.pick(&['+', '/', '=', ' ', '.', 'é', '\n']));
            }
            4 => {
                while cs.len() % 4 != 0 {
                    cs.push('=');
                }
            }
            _ => {
                cs = (0..rng.below(9)).map(|_| *rng.pick(&['A', 'B', 'Q', 'g', 'w', 'z', '0', '9', '-', '_'])).collect();
            }
        }
        b64_inputs.push(cs.into_iter().collect());
    }
    for s in &b64_inputs {
        let d = eng.decode(s).ok();
        emit(&mut out, "B64D", format!("({}, {})", g_str(s), g_opt(d.as_ref(), |b| g_bytes(b))), format!("{s:?}"), format!("{d:?}"), d.is_some());
    }

    // ---- OpaqueCursor over a nested serde type
    {
        // witnesses of the known classes first
        opaque_rt(&mut out, &Tree::F(f64::INFINITY), 1, "Tree::F(inf)".into());
        opaque_rt(&mut out, &f64::NAN, 1, "f64 NaN".into());
        opaque_rt(&mut out, &f64::NEG_INFINITY, 1, "f64 -inf".into());
        opaque_rt(&mut out, &vec![1.5f64, f64::INFINITY], 1, "vec![1.5, inf]".into());
        let mut m: BTreeMap<(i32, i32), i32> = BTreeMap::new();
        opaque_rt(&mut out, &m, 0, "BTreeMap<(i32,i32),i32> {}".into());
        m.insert((1, 2), 3);
        opaque_rt(&mut out, &m, 2, "BTreeMap<(i32,i32),i32> {(1,2):3}".into());
        opaque_rt(&mut out, &0.1f64, 0, "f64 0.1".into());
        for x in [-3.052374130368751e-194_f64, -1.9390287200549742e-69_f64] {
            let lossy = serde_json::from_str::<f64>(&serde_json::to_string(&x).unwrap()).ok().map(|y| y.to_bits()) != Some(x.to_bits());
            opaque_rt(&mut out, &x, if lossy { 3 } else { 0 }, format!("f64 {x:e}"));
        }
        opaque_rt(&mut out, &(1i32, "x".to_string()), 0, "(1,\"x\")".into());
        let mut trees = vec![];
        for i in 0..per * 6 {
            let t = rand_tree(&mut rng, 3, i % 4 == 0);
            let cls = if has_nonfinite(&t) { 1 } else if has_lossy_float(&t) { 3 } else { 0 };
            opaque_rt(&mut out, &t, cls, format!("{t:?}"));
            trees.push(t);
        }
        // decode of arbitrary strings
        let mut inputs: Vec<String> = b64_inputs.iter().take(30).cloned().collect();
        for t in &trees {
            let e = OpaqueCursor(t.clone()).encode_cursor();
            inputs.push(e.clone());
            let js = serde_json::to_string(t).unwrap_or_default();
            match rng.below(5) {
                0 => inputs.push(eng.encode(&js.as_bytes()[..rng.below(js.len() + 1)])),
                1 => inputs.push(eng.encode(format!("{js} "))),
                2 => inputs.push(eng.encode(*rng.pick(&["null", "\"Unit\"", "{\"I\":1}", "{\"I\":1.0}", "{\"F\":1}", "{\"F\":null}", "{\"X\":1}", "[]", "{\"B\":true} x", "\u{feff}\"Unit\""]))),
                3 => inputs.push(e.chars().rev().collect()),
                _ => inputs.push(base64::engine::general_purpose::STANDARD.encode(js)),
            }
        }
        for s in &inputs {
            let crate_bytes = eng.decode(s).ok();
            let json = crate_bytes.as_ref().and_then(|b| serde_json::from_slice::<Tree>(b).ok()).map(|t| serde_json::to_vec(&t).unwrap_or_else(|_| b"<unserializable>".to_vec()));
            let got = OpaqueCursor::<Tree>::decode_cursor(s).ok().map(|t| serde_json::to_vec(&t.0).unwrap_or_else(|_| b"<unserializable>".to_vec()));
            emit(
                &mut out,
                "OPQD",
                format!("({}, {}, {}, {})", g_str(s), g_opt(crate_bytes.as_ref(), |b| g_bytes(b)), g_opt(json.as_ref(), |b| g_bytes(b)), g_opt(got.as_ref(), |b| g_bytes(b))),
                format!("{s:?}"),
                format!("{:?}", got.as_ref().map(|b| String::from_utf8_lossy(b).to_string())),
                got.is_some(),
            );
        }
    }

    // ---- query_with
    {
        let firsts: [Option<i32>; 8] = [None, Some(0), Some(1), Some(10), Some(i32::MAX), Some(-1), Some(i32::MIN), Some(-7)];
        let ty32 = g_ty(true, 32);
        let tyus = g_ty(false, 64);
        let ty64 = g_ty(true, 64);
        let mut corpus: Vec<(usize, Option<String>, Option<String>, Option<i32>, Option<i32>, bool)> = vec![];
        // decision table corners for every kind
        for kind in 0..7 {
            for (af, be) in [(None, None), (Some("1"), None), (None, Some("2")), (Some("1"), Some("2")), (Some("x1"), Some("2")), (Some("1"), Some("x2")), (Some("x1"), Some("x2")), (Some(""), Some(""))] {
                for (f, l) in [(None, None), (Some(3), Some(4)), (Some(-1), None), (None, Some(-1)), (Some(-1), Some(-1)), (Some(0), Some(0))] {
                    corpus.push((kind, af.map(String::from), be.map(String::from), f, l, true));
                }
            }
        }
        for _ in 0..per * 20 {
            let kind = rng.below(7);
            let cur = |r: &mut Rng| -> Option<String> {
                match r.below(5) {
                    0 => None,
                    1 => Some(rand_string(r)),
                    _ => Some(match kind {
                        0 | 1 | 6 => {
                            let base = r.range(-1000, 3_000_000_000).to_string();
                            mutate_int_text(r, &base)
                        }
                        2 => rand_string(r),
                        3 => (*r.pick(&["a", "é", "😀", "ab", ""])).to_string(),
                        4 => (*r.pick(&["true", "false", "True", ""])).to_string(),
                        _ => rand_string(r),
                    }),
                }
            };
            let af = cur(&mut rng);
            let be = cur(&mut rng);
            let f = if rng.chance(3, 4) { *rng.pick(&firsts) } else { Some(rng.range(-50, 500) as i32) };
            let l = if rng.chance(3, 4) { *rng.pick(&firsts) } else { Some(rng.range(-50, 500) as i32) };
            corpus.push((kind, af, be, f, l, rng.chance(3, 4)));
        }
        for (kind, af, be, f, l, cl_ok) in corpus {
            TRACE.with(|t| t.borrow_mut().clear());
            let (k, (g, imp)) = match kind {
                0 => (format!("(KInt {ty32})"), run_qw::<i32>(af.clone(), be.clone(), f, l, cl_ok, |v| g_cint(true, 32, &v.to_string()))),
                1 => (format!("(KInt {tyus})"), run_qw::<usize>(af.clone(), be.clone(), f, l, cl_ok, |v| g_cint(false, 64, &v.to_string()))),
                2 => ("KStr".to_string(), run_qw::<String>(af.clone(), be.clone(), f, l, cl_ok, |v| format!("(CStr {})", g_str(v)))),
                3 => ("KChar".to_string(), run_qw::<char>(af.clone(), be.clone(), f, l, cl_ok, |v| format!("(CChar {}%N)", *v as u32))),
                4 => ("KBool".to_string(), run_qw::<bool>(af.clone(), be.clone(), f, l, cl_ok, |v| format!("(CBool {})", g_bool(*v)))),
                5 => ("KId".to_string(), run_qw::<ID>(af.clone(), be.clone(), f, l, cl_ok, |v| format!("(CId {})", g_str(&v.0)))),
                _ => (format!("(KInt {ty64})"), run_qw::<Rec>(af.clone(), be.clone(), f, l, cl_ok, |v| g_cint(true, 64, &v.0.to_string()))),
            };
            let trace = if kind == 6 { Some(TRACE.with(|t| t.borrow().clone())) } else { None };
            emit(
                &mut out,
                "QW",
                format!(
                    "({k}, {}, {}, {}, {}, {}, {g}, {})",
                    g_opt(af.as_ref(), |s| g_str(s)),
                    g_opt(be.as_ref(), |s| g_str(s)),
                    g_opt(f, |x| g_z(x as i128)),
                    g_opt(l, |x| g_z(x as i128)),
                    g_bool(cl_ok),
                    g_opt(trace.as_ref(), |t| g_list(t.iter(), |s| g_str(s)))
                ),
                format!("kind{kind} after={af:?} before={be:?} first={f:?} last={l:?} closure_ok={cl_ok}"),
                imp,
                true,
            );
        }
    }

    // ---- executed connection fields
    {
        let schema = Schema::new(Q, EmptyMutation, EmptySubscription);
        let mut cases: Vec<(&str, Edges)> = vec![
            ("ci", Edges::I(vec![])),
            ("ci", Edges::I(vec![5])),
            ("ci", Edges::I(vec![i64::MIN, 0, i64::MAX])),
            ("cu", Edges::U(vec![usize::MAX, 0])),
            ("cs", Edges::S(vec!["".into(), "a'\"\\\n".into(), "😀".into()])),
            ("cc", Edges::C(vec!['a', '😀'])),
            ("cb", Edges::B(vec![true, false, true])),
            ("cd", Edges::D(vec![ID("x".into()), ID("".into())])),
            ("cn", Edges::N(vec![])),
            ("cn", Edges::N(vec![i32::MIN, -1, i32::MAX])),
        ];
        for _ in 0..per * 3 {
            let len = rng.below(5);
            cases.push(match rng.below(7) {
                0 => ("ci", Edges::I((0..len).map(|_| rng.next() as i64 >> rng.below(64)).collect())),
                1 => ("cu", Edges::U((0..len).map(|_| (rng.next() >> rng.below(64)) as usize).collect())),
                2 => ("cs", Edges::S((0..len).map(|_| rand_string(&mut rng)).collect())),
                3 => ("cc", Edges::C((0..len).map(|_| *rng.pick(&chars)).collect())),
                4 => ("cb", Edges::B((0..len).map(|_| rng.chance(1, 2)).collect())),
                5 => ("cd", Edges::D((0..len).map(|_| ID(rand_string(&mut rng))).collect())),
                _ => ("cn", Edges::N((0..len).map(|_| rng.next() as i32).collect())),
            });
        }
        for (field, edges) in cases {
            let q = format!("{{ {field} {{ pageInfo {{ startCursor endCursor }} edges {{ cursor }} }} }}");
            let resp = block_on(schema.execute(Request::new(q).data(edges.clone())));
            let j = serde_json::to_value(&resp.data).unwrap();
            let c = &j[field];
            let st = c["pageInfo"]["startCursor"].as_str().map(String::from);
            let en = c["pageInfo"]["endCursor"].as_str().map(String::from);
            let cs: Vec<String> = c["edges"].as_array().map(|a| a.iter().map(|e| e["cursor"].as_str().unwrap_or("<none>").to_string()).collect()).unwrap_or_default();
            let gl = match &edges {
                Edges::I(v) => g_list(v.iter(), |x| g_cint(true, 64, &x.to_string())),
                Edges::U(v) => g_list(v.iter(), |x| g_cint(false, 64, &x.to_string())),
                Edges::N(v) => g_list(v.iter(), |x| g_cint(true, 32, &x.to_string())),
                Edges::S(v) => g_list(v.iter(), |x| format!("(CStr {})", g_str(x))),
                Edges::C(v) => g_list(v.iter(), |x| format!("(CChar {}%N)", *x as u32)),
                Edges::B(v) => g_list(v.iter(), |x| format!("(CBool {})", g_bool(*x))),
                Edges::D(v) => g_list(v.iter(), |x| format!("(CId {})", g_str(&x.0))),
            };
            emit(
                &mut out,
                "PI",
                format!("({gl}, {}, {}, {})", g_opt(st.as_ref(), |s| g_str(s)), g_opt(en.as_ref(), |s| g_str(s)), g_list(cs.iter(), |s| g_str(s))),
                format!("{field} {}", serde_json::to_string(&c).unwrap()),
                format!("errors={}", resp.errors.len()),
                !cs.is_empty(),
            );
        }
    }
    std::fs::write(format!("{}/c32.cases", a.out), out).unwrap();
}

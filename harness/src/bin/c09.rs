//! C09 correspondence: the real strict validator against the Coq-written
//! specification of validity.  Schemas: a static `Schema<CQuery, CMutation,
//! CSubscription>` whose registry content is injected from a generated
//! description (objects, interfaces, unions, enums, input objects incl. oneof,
//! custom scalar, Upload, argument defaults, a custom repeatable directive).
//! Documents: valid documents generated from the schema, then ONE rule-targeted
//! mutation each.  Observation: an extension wraps the validation step (accept /
//! reject, whether an error carries a location) and dumps the real registry;
//! root resolvers count their invocations.  `c09 <seed> <n> <out>`.
use std::borrow::Cow;
use std::fmt::Write as _;
use std::pin::Pin;
use std::sync::atomic::{AtomicU64, Ordering};
use std::sync::{Arc, Mutex, RwLock};

use agv_harness::*;
use async_graphql::extensions::{Extension, ExtensionContext, ExtensionFactory, NextValidation};
use async_graphql::futures_util::stream::Stream;
use async_graphql::indexmap::{IndexMap, IndexSet};
use async_graphql::parser::types::Field;
use async_graphql::registry::{
    __DirectiveLocation, MetaDirective, MetaEnumValue, MetaField, MetaInputValue, MetaType, MetaTypeName, Registry,
};
use async_graphql::resolver_utils::resolve_container;
use async_graphql::*;

// ------------------------------------------------------------ description ---
#[derive(Clone, Debug)]
struct ArgD {
    name: String,
    ty: String,
    default: Option<String>,
}
#[derive(Clone, Debug)]
struct FieldD {
    name: String,
    ty: String,
    args: Vec<ArgD>,
}
#[derive(Clone, Debug)]
enum TypeD {
    Object { name: String, fields: Vec<FieldD>, implements: Vec<String> },
    Interface { name: String, fields: Vec<FieldD>, possible: Vec<String> },
    Union { name: String, possible: Vec<String> },
    Enum { name: String, values: Vec<String> },
    Input { name: String, fields: Vec<ArgD>, oneof: bool },
    Scalar { name: String },
}
impl TypeD {
    fn name(&self) -> &str {
        match self {
            TypeD::Object { name, .. }
            | TypeD::Interface { name, .. }
            | TypeD::Union { name, .. }
            | TypeD::Enum { name, .. }
            | TypeD::Input { name, .. }
            | TypeD::Scalar { name } => name,
        }
    }
}
#[derive(Clone, Debug, Default)]
struct SchemaD {
    types: Vec<TypeD>,
    query: String,
    mutation: Option<String>,
    subscription: Option<String>,
}
impl SchemaD {
    fn get(&self, n: &str) -> Option<&TypeD> {
        self.types.iter().find(|t| t.name() == n)
    }
    fn fields(&self, n: &str) -> Vec<FieldD> {
        match self.get(n) {
            Some(TypeD::Object { fields, .. }) | Some(TypeD::Interface { fields, .. }) => fields.clone(),
            _ => vec![],
        }
    }
    fn is_composite(&self, n: &str) -> bool {
        matches!(self.get(n), Some(TypeD::Object { .. }) | Some(TypeD::Interface { .. }) | Some(TypeD::Union { .. }))
    }
    fn possible(&self, n: &str) -> Vec<String> {
        match self.get(n) {
            Some(TypeD::Object { name, .. }) => vec![name.clone()],
            Some(TypeD::Interface { possible, .. }) | Some(TypeD::Union { possible, .. }) => possible.clone(),
            _ => vec![],
        }
    }
    fn objects(&self) -> Vec<String> {
        self.types.iter().filter(|t| matches!(t, TypeD::Object { .. })).map(|t| t.name().to_string()).collect()
    }
    /// composite types whose possible types intersect those of `n`
    fn overlapping(&self, n: &str) -> Vec<String> {
        let p = self.possible(n);
        self.types
            .iter()
            .filter(|t| self.is_composite(t.name()))
            .filter(|t| self.possible(t.name()).iter().any(|x| p.contains(x)))
            .map(|t| t.name().to_string())
            .collect()
    }
}

static CURRENT: RwLock<Option<Arc<SchemaD>>> = RwLock::new(None);
static RESOLVER_CALLS: AtomicU64 = AtomicU64::new(0);
fn current() -> Arc<SchemaD> {
    CURRENT.read().unwrap().clone().expect("no schema description")
}

fn meta_input(a: &ArgD) -> MetaInputValue {
    let mut m = MetaInputValue::new(a.name.clone(), a.ty.clone());
    m.default_value = a.default.clone();
    m
}
fn meta_fields(fields: &[FieldD]) -> IndexMap<String, MetaField> {
    let mut m = IndexMap::new();
    for f in fields {
        let mut mf = MetaField::new(f.name.clone(), f.ty.clone());
        for a in &f.args {
            mf.args.insert(a.name.clone(), meta_input(a));
        }
        m.insert(f.name.clone(), mf);
    }
    m
}

fn inject(registry: &mut Registry, d: &SchemaD, subscription_root: Option<&str>) {
    <i32 as InputType>::create_type_info(registry);
    <f64 as InputType>::create_type_info(registry);
    <String as InputType>::create_type_info(registry);
    <bool as InputType>::create_type_info(registry);
    <ID as InputType>::create_type_info(registry);
    <Upload as InputType>::create_type_info(registry);
    registry.add_directive(MetaDirective {
        name: "tag".into(),
        description: None,
        locations: vec![
            __DirectiveLocation::FIELD,
            __DirectiveLocation::QUERY,
            __DirectiveLocation::MUTATION,
            __DirectiveLocation::FRAGMENT_DEFINITION,
            __DirectiveLocation::INLINE_FRAGMENT,
        ],
        args: {
            let mut a = IndexMap::new();
            a.insert("n".to_string(), MetaInputValue::new("n", "Int"));
            a
        },
        is_repeatable: true,
        visible: None,
        composable: None,
    });
    for t in &d.types {
        match t {
            TypeD::Object { name, fields, implements } => {
                registry.types.insert(
                    name.clone(),
                    MetaType::Object {
                        name: name.clone(),
                        description: None,
                        fields: meta_fields(fields),
                        cache_control: Default::default(),
                        extends: false,
                        shareable: false,
                        resolvable: true,
                        inaccessible: false,
                        interface_object: false,
                        tags: vec![],
                        keys: None,
                        visible: None,
                        is_subscription: subscription_root == Some(name.as_str()),
                        rust_typename: Some("GenObj"),
                        directive_invocations: vec![],
                        requires_scopes: vec![],
                    },
                );
                for i in implements {
                    registry.add_implements(name, i);
                }
            }
            TypeD::Interface { name, fields, possible } => {
                registry.types.insert(
                    name.clone(),
                    MetaType::Interface {
                        name: name.clone(),
                        description: None,
                        fields: meta_fields(fields),
                        possible_types: possible.iter().cloned().collect::<IndexSet<_>>(),
                        extends: false,
                        inaccessible: false,
                        tags: vec![],
                        keys: None,
                        visible: None,
                        rust_typename: Some("GenObj"),
                        directive_invocations: vec![],
                        requires_scopes: vec![],
                    },
                );
            }
            TypeD::Union { name, possible } => {
                registry.types.insert(
                    name.clone(),
                    MetaType::Union {
                        name: name.clone(),
                        description: None,
                        possible_types: possible.iter().cloned().collect::<IndexSet<_>>(),
                        visible: None,
                        inaccessible: false,
                        tags: vec![],
                        rust_typename: Some("GenObj"),
                        directive_invocations: vec![],
                    },
                );
            }
            TypeD::Enum { name, values } => {
                registry.types.insert(
                    name.clone(),
                    MetaType::Enum {
                        name: name.clone(),
                        description: None,
                        enum_values: values.iter().map(|v| (v.clone(), MetaEnumValue::new(v.clone()))).collect(),
                        visible: None,
                        inaccessible: false,
                        tags: vec![],
                        rust_typename: Some("GenEnum"),
                        directive_invocations: vec![],
                        requires_scopes: vec![],
                    },
                );
            }
            TypeD::Input { name, fields, oneof } => {
                registry.types.insert(
                    name.clone(),
                    MetaType::InputObject {
                        name: name.clone(),
                        description: None,
                        input_fields: fields.iter().map(|a| (a.name.clone(), meta_input(a))).collect(),
                        visible: None,
                        inaccessible: false,
                        tags: vec![],
                        rust_typename: Some("GenInput"),
                        oneof: *oneof,
                        directive_invocations: vec![],
                    },
                );
            }
            TypeD::Scalar { name } => {
                registry.types.insert(
                    name.clone(),
                    MetaType::Scalar {
                        name: name.clone(),
                        description: None,
                        is_valid: None,
                        visible: None,
                        inaccessible: false,
                        tags: vec![],
                        specified_by_url: None,
                        directive_invocations: vec![],
                        requires_scopes: vec![],
                    },
                );
            }
        }
    }
}

// ------------------------------------------------------------------ roots ---
struct CQuery;
struct CMutation;
struct CSubscription;

macro_rules! root {
    ($t:ident, $name:expr, $sub:expr) => {
        impl OutputType for $t {
            fn type_name() -> Cow<'static, str> {
                Cow::Owned($name(&current()))
            }
            fn create_type_info(registry: &mut Registry) -> String {
                let d = current();
                inject(registry, &d, d.subscription.as_deref());
                Self::type_name().into_owned()
            }
            async fn resolve(&self, ctx: &ContextSelectionSet<'_>, _field: &Positioned<Field>) -> ServerResult<Value> {
                resolve_container(ctx, self).await
            }
        }
        impl ContainerType for $t {
            async fn resolve_field(&self, _ctx: &Context<'_>) -> ServerResult<Option<Value>> {
                RESOLVER_CALLS.fetch_add(1, Ordering::SeqCst);
                Ok(Some(Value::Null))
            }
        }
        impl ObjectType for $t {}
    };
}
root!(CQuery, |d: &SchemaD| d.query.clone(), false);
root!(CMutation, |d: &SchemaD| d.mutation.clone().unwrap_or_else(|| "NoMutation".into()), false);

impl SubscriptionType for CSubscription {
    fn type_name() -> Cow<'static, str> {
        Cow::Owned(current().subscription.clone().unwrap_or_else(|| "NoSubscription".into()))
    }
    fn create_type_info(registry: &mut Registry) -> String {
        let d = current();
        inject(registry, &d, d.subscription.as_deref());
        Self::type_name().into_owned()
    }
    fn create_field_stream<'a>(&'a self, _ctx: &'a Context<'_>) -> Option<Pin<Box<dyn Stream<Item = Response> + Send + 'a>>> {
        RESOLVER_CALLS.fetch_add(1, Ordering::SeqCst);
        None
    }
}

// -------------------------------------------------------------- extension ---
#[derive(Default)]
struct Seen {
    /// Some(true) accepted, Some(false) rejected
    accepted: Option<bool>,
    located: bool,
    messages: Vec<String>,
    registry: Option<String>,
    present: Vec<String>,
    it: Interner,
}
struct Cap(Arc<Mutex<Seen>>);
struct CapExt(Arc<Mutex<Seen>>);
impl ExtensionFactory for Cap {
    fn create(&self) -> Arc<dyn Extension> {
        Arc::new(CapExt(self.0.clone()))
    }
}
#[async_trait::async_trait]
impl Extension for CapExt {
    async fn validation(&self, ctx: &ExtensionContext<'_>, next: NextValidation<'_>) -> Result<ValidationResult, Vec<ServerError>> {
        let r = next.run(ctx).await;
        let mut s = self.0.lock().unwrap();
        let s = &mut *s;
        if s.registry.is_none() {
            s.registry = Some(dump_registry(&mut s.it, &ctx.schema_env.registry));
            s.present = ctx.schema_env.registry.types.keys().cloned().collect();
        }
        match &r {
            Ok(_) => {
                s.accepted = Some(true);
            }
            Err(es) => {
                s.accepted = Some(false);
                s.located = es.iter().any(|e| !e.locations.is_empty());
                s.messages = es.iter().map(|e| e.message.clone()).collect();
            }
        }
        r
    }
}

// ------------------------------------------------------------------- dump ---
fn g_ty(it: &mut Interner, t: &str) -> String {
    match MetaTypeName::create(t) {
        MetaTypeName::NonNull(i) => format!("(TNonNull {})", g_ty(it, i)),
        MetaTypeName::List(i) => format!("(TList {})", g_ty(it, i)),
        MetaTypeName::Named(n) => format!("(TNamed {})", it.n(n)),
    }
}
fn g_inputs(it: &mut Interner, m: &IndexMap<String, MetaInputValue>) -> String {
    g_list(m.iter(), |(k, v)| {
        format!("({}, {{| mi_ty := {}; mi_default := {} |}})", it.n(k), g_ty(it, &v.ty), g_bool(v.default_value.is_some()))
    })
}
fn g_fields(it: &mut Interner, m: &IndexMap<String, MetaField>) -> String {
    g_list(m.iter(), |(k, f)| format!("({}, {{| mf_ty := {}; mf_args := {} |}})", it.n(k), g_ty(it, &f.ty), g_inputs(it, &f.args)))
}
fn loc_code(l: &__DirectiveLocation) -> Option<u32> {
    Some(match l {
        __DirectiveLocation::QUERY => 0,
        __DirectiveLocation::MUTATION => 1,
        __DirectiveLocation::SUBSCRIPTION => 2,
        __DirectiveLocation::FIELD => 3,
        __DirectiveLocation::FRAGMENT_DEFINITION => 4,
        __DirectiveLocation::FRAGMENT_SPREAD => 5,
        __DirectiveLocation::INLINE_FRAGMENT => 6,
        _ => return None,
    })
}
fn dump_registry(it: &mut Interner, r: &Registry) -> String {
    let types = g_list(r.types.iter(), |(k, t)| {
        let body = match t {
            MetaType::Scalar { name, is_valid, .. } => {
                let kind = match (name.as_str(), is_valid.is_some()) {
                    ("Int", true) => 0,
                    ("Float", true) => 1,
                    ("String", true) => 2,
                    ("Boolean", true) => 3,
                    ("ID", true) => 4,
                    ("Upload", true) => 6,
                    (_, false) => 5,
                    _ => 7, // a validator we do not model: never generated
                };
                format!("(MScalar {kind}%N)")
            }
            MetaType::Object { fields, .. } => format!("(MObject {})", g_fields(it, fields)),
            MetaType::Interface { fields, possible_types, .. } => {
                format!("(MInterface {} {})", g_fields(it, fields), g_list(possible_types.iter(), |p| it.n(p)))
            }
            MetaType::Union { possible_types, .. } => format!("(MUnion {})", g_list(possible_types.iter(), |p| it.n(p))),
            MetaType::Enum { enum_values, .. } => {
                format!("(MEnum {})", g_list(enum_values.keys(), |v| format!("({}, {})", it.n(v), g_str(v))))
            }
            MetaType::InputObject { input_fields, oneof, .. } => format!("(MInput {} {})", g_inputs(it, input_fields), g_bool(*oneof)),
        };
        format!("({}, {})", it.n(k), body)
    });
    let tnames = g_list(r.types.keys(), |k| format!("({}, {})", g_str(k), it.n(k)));
    let dirs = g_list(r.directives.iter(), |(k, d)| {
        format!(
            "({}, {{| md_locs := {}; md_args := {}; md_repeatable := {} |}})",
            it.n(k),
            g_list(d.locations.iter().filter_map(loc_code), |c| format!("{c}%N")),
            g_inputs(it, &d.args),
            g_bool(d.is_repeatable)
        )
    });
    format!(
        "{{| s_types := {}; s_tnames := {}; s_query := {}; s_mutation := {}; s_subscription := {}; s_directives := {} |}}",
        types,
        tnames,
        it.n(&r.query_type),
        g_opt(r.mutation_type.as_ref(), |m| it.n(m)),
        g_opt(r.subscription_type.as_ref(), |m| it.n(m)),
        dirs
    )
}

// ------------------------------------------------------- schema generator ---
const ARG_TYPES: &[&str] = &[
    "Int", "Int!", "String", "String!", "Boolean", "Float", "ID", "E0", "E0!", "[Int]", "[Int!]!", "[[Int]]", "In0", "In0!", "[In1]", "Oo", "Any", "[E0!]", "Upload",
];

fn gen_schema(r: &mut Rng) -> SchemaD {
    let nobj = 3 + r.below(3);
    let objs: Vec<String> = (0..nobj).map(|i| format!("O{i}")).collect();
    let nint = 1 + r.below(2);
    let ints: Vec<String> = (0..nint).map(|i| format!("I{i}")).collect();
    let nuni = 1 + r.below(2);
    let unis: Vec<String> = (0..nuni).map(|i| format!("U{i}")).collect();
    let leafs = ["Int", "String", "Boolean", "Float", "ID", "E0", "Any"];
    let wrap = |r: &mut Rng, n: &str| -> String {
        match r.below(6) {
            0 => format!("{n}!"),
            1 => format!("[{n}]"),
            2 => format!("[{n}!]!"),
            _ => n.to_string(),
        }
    };
    let gen_args = |r: &mut Rng, must: bool| -> Vec<ArgD> {
        let k = if must { 1 + r.below(3) } else if r.chance(1, 2) { r.below(3) } else { 0 };
        let mut v: Vec<ArgD> = vec![];
        for i in 0..k {
            let ty = r.pick(ARG_TYPES).to_string();
            let default = if r.chance(1, 4) {
                Some(match MetaTypeName::concrete_typename(&ty) {
                    "Int" if !ty.starts_with('[') => "1".to_string(),
                    "String" => "\"d\"".to_string(),
                    "Boolean" => "true".to_string(),
                    "E0" if !ty.starts_with('[') => "A".to_string(),
                    _ => "null".to_string(),
                })
                .filter(|d| !(d == "null" && ty.ends_with('!')))
            } else {
                None
            };
            v.push(ArgD { name: format!("x{i}"), ty, default });
        }
        v
    };
    // interfaces: one leaf field each (+ sometimes one with an argument)
    let mut idesc: Vec<(String, Vec<FieldD>, Vec<String>)> = vec![];
    for (k, i) in ints.iter().enumerate() {
        let lf = r.pick(&leafs[..]).to_string();
        let mut fs = vec![FieldD { name: format!("i{k}f"), ty: wrap(r, &lf), args: vec![] }];
        if r.chance(1, 2) {
            fs.push(FieldD { name: format!("i{k}g"), ty: "Int".into(), args: gen_args(r, true) });
        }
        idesc.push((i.clone(), fs, vec![]));
    }
    let mut comp: Vec<String> = objs.clone();
    comp.extend(ints.iter().cloned());
    comp.extend(unis.iter().cloned());
    let mut types = vec![];
    for (k, o) in objs.iter().enumerate() {
        let nf = 3 + r.below(4);
        let mut fields: Vec<FieldD> = vec![];
        for j in 0..nf {
            let (ty, args) = if j == 0 {
                ("Int".to_string(), vec![])
            } else if j == 1 {
                let lf = r.pick(&leafs[..]).to_string();
                (wrap(r, &lf), gen_args(r, true))
            } else if r.chance(1, 2) {
                let lf = r.pick(&leafs[..]).to_string();
                (wrap(r, &lf), gen_args(r, false))
            } else {
                let c = r.pick(&comp[..]).clone();
                (wrap(r, &c), gen_args(r, false))
            };
            fields.push(FieldD { name: format!("f{j}"), ty, args });
        }
        fields.push(FieldD { name: "g0".into(), ty: "Int".into(), args: vec![] });
        if k == 0 {
            // the root always reaches every composite kind
            fields.push(FieldD { name: "o".into(), ty: "O1".into(), args: vec![] });
            fields.push(FieldD { name: "i".into(), ty: "I0".into(), args: vec![] });
            fields.push(FieldD { name: "u".into(), ty: "[U0]".into(), args: vec![] });
            fields.push(FieldD {
                name: "q".into(),
                ty: "Int".into(),
                args: vec![
                    ArgD { name: "n".into(), ty: "Int!".into(), default: None },
                    ArgD { name: "e".into(), ty: "E0".into(), default: None },
                    ArgD { name: "inp".into(), ty: "In0".into(), default: None },
                    ArgD { name: "l".into(), ty: "[Int!]".into(), default: None },
                    ArgD { name: "d".into(), ty: "Int!".into(), default: Some("5".into()) },
                    ArgD { name: "s".into(), ty: "String".into(), default: None },
                ],
            });
        }
        let mut implements = vec![];
        for (iname, ifields, possible) in idesc.iter_mut() {
            if r.chance(2, 3) || (k == 1 && possible.is_empty()) {
                implements.push(iname.clone());
                possible.push(o.clone());
                fields.extend(ifields.iter().cloned());
            }
        }
        types.push(TypeD::Object { name: o.clone(), fields, implements });
    }
    for (name, fields, possible) in idesc {
        types.push(TypeD::Interface { name, fields, possible });
    }
    for u in unis.iter() {
        let mut possible: Vec<String> = objs.iter().filter(|_| r.chance(1, 2)).cloned().collect();
        if possible.is_empty() {
            possible.push(objs[r.below(objs.len())].clone());
        }
        if u == "U0" {
            for must in ["O1", "O2"] {
                if !possible.iter().any(|p| p == must) {
                    possible.push(must.to_string());
                }
            }
        }
        types.push(TypeD::Union { name: u.clone(), possible });
    }
    types.push(TypeD::Enum { name: "E0".into(), values: vec!["A".into(), "B".into(), "C".into()] });
    types.push(TypeD::Input {
        name: "In0".into(),
        fields: vec![
            ArgD { name: "a".into(), ty: "Int".into(), default: None },
            ArgD { name: "b".into(), ty: "String!".into(), default: None },
            ArgD { name: "c".into(), ty: "E0!".into(), default: Some("A".into()) },
            ArgD { name: "d".into(), ty: "[Int!]".into(), default: None },
            ArgD { name: "e".into(), ty: "In1".into(), default: None },
        ],
        oneof: false,
    });
    types.push(TypeD::Input { name: "In1".into(), fields: vec![ArgD { name: "x".into(), ty: "Int!".into(), default: None }, ArgD { name: "y".into(), ty: "Boolean".into(), default: None }], oneof: false });
    types.push(TypeD::Input { name: "Oo".into(), fields: vec![ArgD { name: "i".into(), ty: "Int".into(), default: None }, ArgD { name: "s".into(), ty: "String".into(), default: None }], oneof: true });
    types.push(TypeD::Scalar { name: "Any".into() });
    let mutation = if r.chance(2, 3) { Some(objs[1].clone()) } else { None };
    let subscription = if r.chance(1, 2) {
        types.push(TypeD::Object {
            name: "Sub".into(),
            fields: vec![
                FieldD { name: "s0".into(), ty: "Int".into(), args: vec![] },
                FieldD { name: "s1".into(), ty: "String".into(), args: vec![ArgD { name: "x".into(), ty: "Int".into(), default: None }] },
            ],
            implements: vec![],
        });
        Some("Sub".to_string())
    } else {
        None
    };
    SchemaD { types, query: "O0".into(), mutation, subscription }
}

// ------------------------------------------------------ document generator ---
#[derive(Clone, Debug)]
enum Sel {
    Field { alias: Option<String>, name: String, args: Vec<(String, String)>, dirs: Vec<String>, sub: Vec<Sel>, parent: String, ret: String },
    Spread { name: String, dirs: Vec<String> },
    Inline { cond: Option<String>, dirs: Vec<String>, sub: Vec<Sel>, parent: String },
}
#[derive(Clone, Debug)]
struct VarD {
    name: String,
    ty: String,
    default: Option<String>,
}
#[derive(Clone, Debug)]
struct OpD {
    kind: &'static str,
    name: Option<String>,
    vars: Vec<VarD>,
    dirs: Vec<String>,
    sub: Vec<Sel>,
    root: String,
}
#[derive(Clone, Debug)]
struct FragD {
    name: String,
    cond: String,
    dirs: Vec<String>,
    sub: Vec<Sel>,
}
#[derive(Clone, Debug)]
struct DocD {
    ops: Vec<OpD>,
    frags: Vec<FragD>,
    values: serde_json::Map<String, serde_json::Value>,
}

fn p_dirs(d: &[String]) -> String {
    d.iter().map(|x| format!(" {x}")).collect()
}
fn p_sels(out: &mut String, sels: &[Sel]) {
    if sels.is_empty() {
        return;
    }
    out.push_str(" {");
    for s in sels {
        match s {
            Sel::Field { alias, name, args, dirs, sub, .. } => {
                out.push(' ');
                if let Some(a) = alias {
                    write!(out, "{a}: ").unwrap();
                }
                out.push_str(name);
                if !args.is_empty() {
                    out.push('(');
                    for (i, (k, v)) in args.iter().enumerate() {
                        if i > 0 {
                            out.push_str(", ");
                        }
                        write!(out, "{k}: {v}").unwrap();
                    }
                    out.push(')');
                }
                out.push_str(&p_dirs(dirs));
                p_sels(out, sub);
            }
            Sel::Spread { name, dirs } => {
                write!(out, " ...{name}{}", p_dirs(dirs)).unwrap();
            }
            Sel::Inline { cond, dirs, sub, .. } => {
                out.push_str(" ...");
                if let Some(c) = cond {
                    write!(out, " on {c}").unwrap();
                }
                out.push_str(&p_dirs(dirs));
                p_sels(out, sub);
            }
        }
    }
    out.push_str(" }");
}
impl DocD {
    fn print(&self) -> String {
        let mut s = String::new();
        for o in &self.ops {
            let anonymous_short = o.name.is_none() && o.kind == "query" && o.vars.is_empty() && o.dirs.is_empty();
            if !anonymous_short {
                s.push_str(o.kind);
                if let Some(n) = &o.name {
                    write!(s, " {n}").unwrap();
                }
                if !o.vars.is_empty() {
                    s.push('(');
                    for (i, v) in o.vars.iter().enumerate() {
                        if i > 0 {
                            s.push_str(", ");
                        }
                        write!(s, "${}: {}", v.name, v.ty).unwrap();
                        if let Some(d) = &v.default {
                            write!(s, " = {d}").unwrap();
                        }
                    }
                    s.push(')');
                }
                s.push_str(&p_dirs(&o.dirs));
            }
            if o.sub.is_empty() {
                s.push_str(" { }");
            }
            p_sels(&mut s, &o.sub);
            s.push('\n');
        }
        for f in &self.frags {
            write!(s, "fragment {} on {}{}", f.name, f.cond, p_dirs(&f.dirs)).unwrap();
            p_sels(&mut s, &f.sub);
            s.push('\n');
        }
        s
    }
}

struct Gen<'a> {
    d: &'a SchemaD,
    r: Rng,
    frags: Vec<FragD>,
    vars: Vec<VarD>,
    values: serde_json::Map<String, serde_json::Value>,
    keys: std::collections::HashSet<String>,
    nalias: usize,
    allow_vars: bool,
}

fn strip_nn(t: &str) -> &str {
    t.strip_suffix('!').unwrap_or(t)
}

impl Gen<'_> {
    /// a literal of the type (never null for non-null types); json = the same value as JSON
    fn value(&mut self, ty: &str, depth: usize) -> (String, serde_json::Value) {
        use serde_json::json;
        let nn = ty.ends_with('!');
        let t = strip_nn(ty);
        if !nn && self.r.chance(1, 10) {
            return ("null".into(), json!(null));
        }
        if let Some(inner) = t.strip_prefix('[') {
            let inner = &inner[..inner.len() - 1];
            if self.r.chance(1, 8) && !inner.starts_with('[') {
                // single value coerced to a list
                let (a, b) = self.value(&format!("{}!", strip_nn(inner)), depth);
                return (a, b);
            }
            let k = self.r.below(3);
            let mut ls = vec![];
            let mut js = vec![];
            for _ in 0..k {
                let (a, b) = self.value(inner, depth);
                ls.push(a);
                js.push(b);
            }
            return (format!("[{}]", ls.join(", ")), serde_json::Value::Array(js));
        }
        match t {
            "Int" => {
                let v = self.r.range(-3, 40);
                (v.to_string(), json!(v))
            }
            "Float" => {
                if self.r.chance(1, 2) {
                    ("1.5".into(), json!(1.5))
                } else {
                    ("2".into(), json!(2))
                }
            }
            "String" | "Upload" => ("\"s\"".into(), json!("s")),
            "Boolean" => {
                let b = self.r.chance(1, 2);
                (b.to_string(), json!(b))
            }
            "ID" => {
                if self.r.chance(1, 2) {
                    ("\"id1\"".into(), json!("id1"))
                } else {
                    ("7".into(), json!(7))
                }
            }
            "Any" => match self.r.below(3) {
                0 => ("{k: 1}".into(), json!({"k": 1})),
                1 => ("\"x\"".into(), json!("x")),
                _ => ("3".into(), json!(3)),
            },
            _ => match self.d.get(t).cloned() {
                Some(TypeD::Enum { values, .. }) => {
                    let v = self.r.pick(&values).clone();
                    (v.clone(), json!(v))
                }
                Some(TypeD::Input { fields, oneof, .. }) => {
                    if oneof {
                        let f = self.r.pick(&fields).clone();
                        let (a, b) = self.value(&format!("{}!", strip_nn(&f.ty)), depth);
                        let mut m = serde_json::Map::new();
                        m.insert(f.name.clone(), b);
                        return (format!("{{{}: {a}}}", f.name), serde_json::Value::Object(m));
                    }
                    let mut ls = vec![];
                    let mut m = serde_json::Map::new();
                    for f in &fields {
                        let required = f.ty.ends_with('!') && f.default.is_none();
                        let is_input_obj = matches!(self.d.get(MetaTypeName::concrete_typename(&f.ty)), Some(TypeD::Input { .. }));
                        if required || (self.r.chance(1, 2) && (!is_input_obj || depth > 0)) {
                            let (a, b) = self.value(&f.ty, depth.saturating_sub(1));
                            ls.push(format!("{}: {a}", f.name));
                            m.insert(f.name.clone(), b);
                        }
                    }
                    (format!("{{{}}}", ls.join(", ")), serde_json::Value::Object(m))
                }
                _ => ("null".into(), json!(null)),
            },
        }
    }

    fn new_var(&mut self, ty: &str, has_loc_default: bool) -> String {
        let name = format!("v{}", self.vars.len());
        // the variable's type: the location type, or a stricter one
        let vty = if !ty.ends_with('!') && self.r.chance(1, 4) { format!("{ty}!") } else { ty.to_string() };
        let _ = has_loc_default;
        let nn = vty.ends_with('!');
        let mode = self.r.below(3);
        let (lit, js) = self.value(&format!("{}!", strip_nn(&vty)), 1);
        let default = if mode == 0 && !nn { Some(lit) } else { None };
        if mode != 0 || nn {
            // supplied (always for non-null variables)
            if nn || mode == 1 {
                self.values.insert(name.clone(), js);
            }
        }
        self.vars.push(VarD { name: name.clone(), ty: vty, default });
        name
    }

    fn args(&mut self, defs: &[ArgD]) -> Vec<(String, String)> {
        let mut out = vec![];
        for a in defs {
            let required = a.ty.ends_with('!') && a.default.is_none();
            if !(required || self.r.chance(1, 2)) {
                continue;
            }
            if a.ty.contains("Upload") {
                if required {
                    out.push((a.name.clone(), "\"s\"".into()));
                }
                continue;
            }
            if self.allow_vars && self.r.chance(1, 4) {
                let v = self.new_var(&a.ty, a.default.is_some());
                out.push((a.name.clone(), format!("${v}")));
            } else {
                let (lit, _) = self.value(&a.ty, 2);
                out.push((a.name.clone(), lit));
            }
        }
        out
    }

    fn dirs(&mut self, loc: &str) -> Vec<String> {
        let mut v = vec![];
        if self.r.chance(1, 6) {
            match self.r.below(4) {
                0 if loc != "op" && loc != "fragdef" => v.push("@skip(if: false)".into()),
                1 if loc != "op" && loc != "fragdef" => {
                    if self.allow_vars && self.r.chance(1, 2) {
                        let n = self.new_var("Boolean!", false);
                        v.push(format!("@include(if: ${n})"));
                    } else {
                        v.push("@include(if: true)".into())
                    }
                }
                _ if loc != "spread" && loc != "sub" => {
                    v.push("@tag(n: 1)".into());
                    if self.r.chance(1, 3) {
                        v.push("@tag".into());
                    }
                }
                _ => {}
            }
        }
        v
    }

    fn key(&mut self, name: &str) -> Option<String> {
        if self.keys.insert(name.to_string()) && !self.r.chance(1, 6) {
            None
        } else {
            self.nalias += 1;
            let a = format!("a{}", self.nalias);
            self.keys.insert(a.clone());
            Some(a)
        }
    }

    fn sels(&mut self, ty: &str, depth: usize) -> Vec<Sel> {
        let mut out = vec![];
        let n = 1 + self.r.below(3);
        let fields = self.d.fields(ty);
        for _ in 0..n {
            let k = self.r.below(10);
            if k < 6 && !fields.is_empty() {
                let f = self.r.pick(&fields).clone();
                let base = MetaTypeName::concrete_typename(&f.ty).to_string();
                let composite = self.d.is_composite(&base);
                if composite && depth == 0 {
                    continue;
                }
                let alias = self.key(&f.name);
                let args = self.args(&f.args);
                let dirs = self.dirs("field");
                let sub = if composite { self.sels(&base, depth - 1) } else { vec![] };
                out.push(Sel::Field { alias, name: f.name.clone(), args, dirs, sub, parent: ty.to_string(), ret: base });
            } else if k == 6 {
                let alias = self.key("__typename");
                out.push(Sel::Field { alias, name: "__typename".into(), args: vec![], dirs: vec![], sub: vec![], parent: ty.to_string(), ret: "String".into() });
            } else if k < 9 && depth > 0 {
                let conds = self.d.overlapping(ty);
                if self.r.chance(1, 5) || conds.is_empty() {
                    let dirs = self.dirs("inline");
                    let sub = self.sels(ty, depth - 1);
                    out.push(Sel::Inline { cond: None, dirs, sub, parent: ty.to_string() });
                } else {
                    let c = self.r.pick(&conds).clone();
                    let dirs = self.dirs("inline");
                    let sub = self.sels(&c, depth - 1);
                    out.push(Sel::Inline { cond: Some(c), dirs, sub, parent: ty.to_string() });
                }
            } else if depth > 0 {
                let conds = self.d.overlapping(ty);
                if conds.is_empty() {
                    continue;
                }
                let c = self.r.pick(&conds).clone();
                let name = format!("F{}", self.frags.len());
                self.frags.push(FragD { name: name.clone(), cond: c.clone(), dirs: vec![], sub: vec![] });
                let idx = self.frags.len() - 1;
                let body = self.sels(&c, depth - 1);
                let fdirs = self.dirs("fragdef");
                self.frags[idx].sub = body;
                self.frags[idx].dirs = fdirs;
                let dirs = self.dirs("spread");
                out.push(Sel::Spread { name: name.clone(), dirs: dirs.clone() });
                if self.r.chance(1, 4) {
                    // a second use of the same fragment (same scope: keys repeat identically)
                    out.push(Sel::Spread { name, dirs: vec![] });
                }
            }
        }
        if out.is_empty() {
            if fields.is_empty() {
                let alias = self.key("__typename");
                out.push(Sel::Field { alias, name: "__typename".into(), args: vec![], dirs: vec![], sub: vec![], parent: ty.to_string(), ret: "String".into() });
            } else {
                let f = fields[0].clone();
                let base = MetaTypeName::concrete_typename(&f.ty).to_string();
                if self.d.is_composite(&base) || f.args.iter().any(|a| a.ty.ends_with('!') && a.default.is_none()) {
                    let alias = self.key("__typename");
                    out.push(Sel::Field { alias, name: "__typename".into(), args: vec![], dirs: vec![], sub: vec![], parent: ty.to_string(), ret: "String".into() });
                } else {
                    let alias = self.key(&f.name);
                    out.push(Sel::Field { alias, name: f.name.clone(), args: vec![], dirs: vec![], sub: vec![], parent: ty.to_string(), ret: base });
                }
            }
        }
        out
    }
}

fn gen_doc(d: &SchemaD, r: &mut Rng) -> DocD {
    let mut g = Gen { d, r: r.fork(), frags: vec![], vars: vec![], values: Default::default(), keys: Default::default(), nalias: 0, allow_vars: true };
    let kind_roll = g.r.below(10);
    let (kind, root) = if kind_roll < 2 && d.mutation.is_some() {
        ("mutation", d.mutation.clone().unwrap())
    } else if kind_roll == 2 && d.subscription.is_some() {
        ("subscription", d.subscription.clone().unwrap())
    } else {
        ("query", d.query.clone())
    };
    let depth = 1 + g.r.below(3);
    let mut sub = g.sels(&root, depth);
    if kind == "subscription" {
        // exactly one root field, not __typename
        let fields = d.fields(&root);
        let f = fields[0].clone();
        g.frags.clear();
        g.vars.clear();
        g.values.clear();
        sub = vec![Sel::Field { alias: None, name: f.name.clone(), args: vec![], dirs: vec![], sub: vec![], parent: root.clone(), ret: "Int".into() }];
    }
    let dirs = if kind != "subscription" { g.dirs("op") } else { vec![] };
    let name = if g.r.chance(1, 2) { Some("Op0".to_string()) } else { None };
    let mut ops = vec![OpD { kind, name, vars: g.vars.clone(), dirs, sub, root }];
    if ops[0].name.is_some() && g.r.chance(1, 6) {
        // a second, unselected operation
        let mut g2 = Gen { d, r: g.r.fork(), frags: vec![], vars: vec![], values: Default::default(), keys: Default::default(), nalias: 100, allow_vars: false };
        let sub2 = g2.sels(&d.query, 1);
        if g2.frags.is_empty() {
            ops.push(OpD { kind: "query", name: Some("Op1".into()), vars: vec![], dirs: vec![], sub: sub2, root: d.query.clone() });
        }
    }
    DocD { ops, frags: g.frags, values: g.values }
}

// -------------------------------------------------------------- mutations ---
fn count_sels(sels: &[Sel], pred: &dyn Fn(&Sel) -> bool) -> usize {
    let mut n = 0;
    for s in sels {
        if pred(s) {
            n += 1;
        }
        match s {
            Sel::Field { sub, .. } | Sel::Inline { sub, .. } => n += count_sels(sub, pred),
            _ => {}
        }
    }
    n
}
/// apply `f` to the k-th selection satisfying `pred` (document order); returns true if applied
fn apply_sel(sels: &mut Vec<Sel>, pred: &dyn Fn(&Sel) -> bool, k: &mut isize, f: &mut dyn FnMut(&mut Sel)) -> bool {
    for s in sels.iter_mut() {
        if pred(s) {
            if *k == 0 {
                f(s);
                *k = -1;
                return true;
            }
            *k -= 1;
        }
        let done = match s {
            Sel::Field { sub, .. } | Sel::Inline { sub, .. } => apply_sel(sub, pred, k, f),
            _ => false,
        };
        if done {
            return true;
        }
    }
    false
}
/// apply `f` to the k-th selection LIST (selection set) satisfying pred on (parent type, list)
fn apply_set(sets: &mut Vec<Sel>, ty: &str, k: &mut isize, f: &mut dyn FnMut(&str, &mut Vec<Sel>)) -> bool {
    if *k == 0 {
        f(ty, sets);
        *k = -1;
        return true;
    }
    *k -= 1;
    for s in sets.iter_mut() {
        let done = match s {
            Sel::Field { sub, ret, .. } if !sub.is_empty() => {
                let t = ret.clone();
                apply_set(sub, &t, k, f)
            }
            Sel::Inline { sub, cond, parent, .. } => {
                let t = cond.clone().unwrap_or(parent.clone());
                apply_set(sub, &t, k, f)
            }
            _ => false,
        };
        if done {
            return true;
        }
    }
    false
}
fn count_sets(sets: &[Sel]) -> usize {
    let mut n = 1;
    for s in sets {
        match s {
            Sel::Field { sub, .. } if !sub.is_empty() => n += count_sets(sub),
            Sel::Inline { sub, .. } => n += count_sets(sub),
            _ => {}
        }
    }
    n
}

const MUTATIONS: &[&str] = &[
    "unknown-field", "missing-required-arg", "wrong-arg-type", "unknown-arg", "duplicate-arg", "unknown-fragment",
    "unused-fragment", "fragment-cycle", "spread-impossible", "scalar-with-selection", "object-without-selection",
    "duplicate-variable", "undefined-variable", "unused-variable", "variable-wrong-position", "variable-nullable-at-nonnull",
    "unknown-directive", "duplicate-directive", "misplaced-directive", "directive-missing-arg", "conflicting-aliases",
    "conflicting-args", "conflict-behind-condition", "conflict-in-subselection", "variable-non-input-type", "unknown-type",
    "fragment-on-scalar", "default-wrong-type", "multiple-subscription-roots", "mutation-not-configured", "upload-on-query",
    "enum-as-string", "input-object-as-scalar", "input-unknown-field", "input-missing-field", "null-for-nonnull",
];

fn is_plain_field(s: &Sel) -> bool {
    matches!(s, Sel::Field { name, .. } if name != "__typename")
}

/// returns false when the mutation does not apply to this document
fn mutate(d: &SchemaD, doc: &mut DocD, m: &str, r: &mut Rng) -> bool {
    // the selection lists of the document: operation 0, then the fragments
    macro_rules! on_sel {
        ($pred:expr, $f:expr) => {{
            let pred: &dyn Fn(&Sel) -> bool = &$pred;
            let mut total = count_sels(&doc.ops[0].sub, pred);
            let counts: Vec<usize> = doc.frags.iter().map(|f| count_sels(&f.sub, pred)).collect();
            total += counts.iter().sum::<usize>();
            if total == 0 {
                return false;
            }
            let mut k = r.below(total) as isize;
            let mut f = $f;
            if !apply_sel(&mut doc.ops[0].sub, pred, &mut k, &mut f) {
                for fr in doc.frags.iter_mut() {
                    if apply_sel(&mut fr.sub, pred, &mut k, &mut f) {
                        break;
                    }
                }
            }
            true
        }};
    }
    macro_rules! on_set {
        ($f:expr) => {{
            let mut total = count_sets(&doc.ops[0].sub);
            total += doc.frags.iter().map(|f| count_sets(&f.sub)).sum::<usize>();
            let mut k = r.below(total) as isize;
            let mut f = $f;
            let root = doc.ops[0].root.clone();
            if !apply_set(&mut doc.ops[0].sub, &root, &mut k, &mut f) {
                for fr in doc.frags.iter_mut() {
                    let c = fr.cond.clone();
                    if apply_set(&mut fr.sub, &c, &mut k, &mut f) {
                        break;
                    }
                }
            }
            true
        }};
    }
    let arg_defs = |parent: &str, name: &str| -> Vec<ArgD> { d.fields(parent).into_iter().find(|f| f.name == name).map(|f| f.args).unwrap_or_default() };
    match m {
        "unknown-field" => on_sel!(is_plain_field, |s: &mut Sel| {
            if let Sel::Field { name, .. } = s {
                *name = "zzz".into();
            }
        }),
        "missing-required-arg" => on_sel!(
            |s: &Sel| matches!(s, Sel::Field { name, parent, args, .. } if arg_defs(parent, name).iter().any(|a| a.ty.ends_with('!') && a.default.is_none() && args.iter().any(|x| x.0 == a.name && !x.1.starts_with('$')))),
            |s: &mut Sel| {
                if let Sel::Field { name, parent, args, .. } = s {
                    let defs = arg_defs(parent, name);
                    let a = defs.iter().find(|a| a.ty.ends_with('!') && a.default.is_none()).unwrap();
                    args.retain(|x| x.0 != a.name);
                }
            }
        ),
        "wrong-arg-type" | "enum-as-string" | "input-object-as-scalar" | "input-unknown-field" | "input-missing-field" | "null-for-nonnull" => {
            let want = |ty: &str| -> Option<String> {
                let base = MetaTypeName::concrete_typename(ty);
                let is_list = ty.contains('[');
                match m {
                    "wrong-arg-type" => match base {
                        "Int" => Some(if is_list { "[1, \"x\"]".to_string() } else { "\"x\"".to_string() }),
                        "String" => Some("12".into()),
                        "Boolean" => Some("\"true\"".into()),
                        "Float" => Some("\"1.5\"".into()),
                        "ID" => Some("1.5".into()),
                        "E0" => Some(if is_list { "[A, BOGUS]".to_string() } else { "BOGUS".to_string() }),
                        "In0" => Some("{a: \"no\", b: \"s\"}".into()),
                        "In1" => Some("[{x: true}]".into()),
                        "Oo" => Some("{i: 1, s: \"two\"}".into()),
                        _ => None,
                    },
                    "enum-as-string" => (base == "E0" && !is_list).then(|| "\"A\"".to_string()),
                    "input-object-as-scalar" => (base == "In0").then(|| "5".to_string()),
                    "input-unknown-field" => (base == "In0").then(|| "{b: \"s\", zzz: 1}".to_string()),
                    "input-missing-field" => (base == "In0").then(|| "{a: 1}".to_string()),
                    "null-for-nonnull" => ty.ends_with('!').then(|| "null".to_string()),
                    _ => None,
                }
            };
            on_sel!(
                |s: &Sel| matches!(s, Sel::Field { name, parent, args, .. } if args.iter().any(|x| !x.1.starts_with('$') && arg_defs(parent, name).iter().any(|a| a.name == x.0 && want(&a.ty).is_some()))),
                |s: &mut Sel| {
                    if let Sel::Field { name, parent, args, .. } = s {
                        let defs = arg_defs(parent, name);
                        for x in args.iter_mut() {
                            if x.1.starts_with('$') {
                                continue;
                            }
                            if let Some(w) = defs.iter().find(|a| a.name == x.0).and_then(|a| want(&a.ty)) {
                                x.1 = w;
                                break;
                            }
                        }
                    }
                }
            )
        }
        "unknown-arg" => on_sel!(is_plain_field, |s: &mut Sel| {
            if let Sel::Field { args, .. } = s {
                args.push(("zzz".into(), "1".into()));
            }
        }),
        "duplicate-arg" => on_sel!(|s: &Sel| matches!(s, Sel::Field { args, .. } if !args.is_empty()), |s: &mut Sel| {
            if let Sel::Field { args, .. } = s {
                let a = args[0].clone();
                args.push(a);
            }
        }),
        "unknown-fragment" => on_set!(|_t: &str, set: &mut Vec<Sel>| set.push(Sel::Spread { name: "Nope".into(), dirs: vec![] })),
        "unused-fragment" => {
            doc.frags.push(FragD { name: "Unused".into(), cond: d.query.clone(), dirs: vec![], sub: vec![Sel::Field { alias: None, name: "f0".into(), args: vec![], dirs: vec![], sub: vec![], parent: d.query.clone(), ret: "Int".into() }] });
            true
        }
        "fragment-cycle" => {
            let q = d.query.clone();
            let leaf = Sel::Field { alias: Some("cyc".into()), name: "f0".into(), args: vec![], dirs: vec![], sub: vec![], parent: q.clone(), ret: "Int".into() };
            if r.chance(1, 2) {
                doc.frags.push(FragD { name: "CycA".into(), cond: q.clone(), dirs: vec![], sub: vec![leaf.clone(), Sel::Spread { name: "CycB".into(), dirs: vec![] }] });
                doc.frags.push(FragD { name: "CycB".into(), cond: q.clone(), dirs: vec![], sub: vec![leaf, Sel::Spread { name: "CycA".into(), dirs: vec![] }] });
            } else {
                doc.frags.push(FragD { name: "CycA".into(), cond: q.clone(), dirs: vec![], sub: vec![leaf, Sel::Spread { name: "CycA".into(), dirs: vec![] }] });
            }
            if doc.ops[0].root != q {
                return false;
            }
            doc.ops[0].sub.push(Sel::Spread { name: "CycA".into(), dirs: vec![] });
            true
        }
        "spread-impossible" => on_set!(|t: &str, set: &mut Vec<Sel>| {
            let ov = d.overlapping(t);
            let other: Vec<String> = d.types.iter().filter(|x| d.is_composite(x.name()) && !ov.iter().any(|o| o == x.name())).map(|x| x.name().to_string()).collect();
            let c = if other.is_empty() { "Int".to_string() } else { other[0].clone() };
            set.push(Sel::Inline { cond: Some(c.clone()), dirs: vec![], sub: vec![Sel::Field { alias: Some("imp".into()), name: "__typename".into(), args: vec![], dirs: vec![], sub: vec![], parent: c.clone(), ret: "String".into() }], parent: t.to_string() });
        }),
        "scalar-with-selection" => on_sel!(|s: &Sel| matches!(s, Sel::Field { name, sub, .. } if sub.is_empty() && name != "__typename"), |s: &mut Sel| {
            if let Sel::Field { sub, ret, .. } = s {
                sub.push(Sel::Field { alias: None, name: "__typename".into(), args: vec![], dirs: vec![], sub: vec![], parent: ret.clone(), ret: "String".into() });
            }
        }),
        "object-without-selection" => on_sel!(|s: &Sel| matches!(s, Sel::Field { sub, .. } if !sub.is_empty()), |s: &mut Sel| {
            if let Sel::Field { sub, .. } = s {
                sub.clear();
            }
        }),
        "duplicate-variable" => {
            if doc.ops[0].vars.is_empty() {
                return false;
            }
            let v = doc.ops[0].vars[0].clone();
            doc.ops[0].vars.push(v);
            true
        }
        "undefined-variable" => on_sel!(
            |s: &Sel| matches!(s, Sel::Field { name, parent, args, .. } if name != "__typename" && arg_defs(parent, name).iter().any(|a| !args.iter().any(|x| x.0 == a.name) && !a.ty.contains("Upload"))),
            |s: &mut Sel| {
                if let Sel::Field { name, parent, args, .. } = s {
                    let defs = arg_defs(parent, name);
                    let a = defs.iter().find(|a| !args.iter().any(|x| x.0 == a.name) && !a.ty.contains("Upload")).unwrap();
                    args.push((a.name.clone(), "$undef".into()));
                }
            }
        ),
        "unused-variable" => {
            doc.ops[0].vars.push(VarD { name: "unused".into(), ty: "Int".into(), default: None });
            true
        }
        "variable-wrong-position" => {
            // change the declared type of a variable to an incompatible one
            let cands: Vec<usize> = doc.ops[0].vars.iter().enumerate().filter(|(_, v)| !v.ty.contains("Upload")).map(|(i, _)| i).collect();
            if cands.is_empty() {
                return false;
            }
            let i = *r.pick(&cands);
            let v = &mut doc.ops[0].vars[i];
            let base = MetaTypeName::concrete_typename(&v.ty).to_string();
            let (nty, nval) = if base == "String" { ("Int", serde_json::json!(3)) } else { ("String", serde_json::json!("s")) };
            v.ty = match r.below(3) {
                0 => nty.to_string(),
                1 => format!("[{nty}]"),
                _ => format!("{nty}!"),
            };
            v.default = None;
            let nn = v.ty.ends_with('!');
            let name = v.name.clone();
            doc.values.remove(&name);
            if nn || r.chance(1, 3) {
                let val = if v.ty.starts_with('[') { serde_json::json!([nval]) } else { nval };
                doc.values.insert(name, val);
            }
            true
        }
        "variable-nullable-at-nonnull" => {
            // a nullable variable without default at a non-null position
            let cands: Vec<usize> = doc.ops[0].vars.iter().enumerate().filter(|(_, v)| v.ty.ends_with('!')).map(|(i, _)| i).collect();
            if cands.is_empty() {
                return false;
            }
            let i = *r.pick(&cands);
            let v = &mut doc.ops[0].vars[i];
            v.ty = strip_nn(&v.ty).to_string();
            v.default = None;
            true
        }
        "unknown-directive" => on_sel!(|s: &Sel| !matches!(s, Sel::Field { name, .. } if name == "__typename"), |s: &mut Sel| match s {
            Sel::Field { dirs, .. } | Sel::Spread { dirs, .. } | Sel::Inline { dirs, .. } => dirs.push("@nope".into()),
        }),
        "duplicate-directive" => on_sel!(|s: &Sel| !matches!(s, Sel::Field { name, .. } if name == "__typename"), |s: &mut Sel| match s {
            Sel::Field { dirs, .. } | Sel::Spread { dirs, .. } | Sel::Inline { dirs, .. } => {
                dirs.clear();
                dirs.push("@skip(if: false)".into());
                dirs.push("@skip(if: false)".into());
            }
        }),
        "misplaced-directive" => {
            match r.below(3) {
                0 => {
                    if doc.ops[0].kind == "subscription" {
                        return false;
                    }
                    doc.ops[0].dirs.push("@skip(if: false)".into());
                    true
                }
                1 => on_sel!(is_plain_field, |s: &mut Sel| {
                    if let Sel::Field { dirs, .. } = s {
                        dirs.push("@deprecated".into());
                    }
                }),
                _ => on_sel!(|s: &Sel| matches!(s, Sel::Spread { .. }), |s: &mut Sel| {
                    if let Sel::Spread { dirs, .. } = s {
                        dirs.push("@tag(n: 2)".into());
                    }
                }),
            }
        }
        "directive-missing-arg" => on_sel!(|s: &Sel| !matches!(s, Sel::Field { name, .. } if name == "__typename"), |s: &mut Sel| match s {
            Sel::Field { dirs, .. } | Sel::Spread { dirs, .. } | Sel::Inline { dirs, .. } => {
                dirs.clear();
                dirs.push("@include".into());
            }
        }),
        "conflicting-aliases" | "conflicting-args" | "conflict-behind-condition" => on_set!(|t: &str, set: &mut Vec<Sel>| {
            let fs: Vec<FieldD> = d.fields(t).into_iter().filter(|f| !d.is_composite(MetaTypeName::concrete_typename(&f.ty)) && !f.args.iter().any(|a| a.ty.ends_with('!') && a.default.is_none())).collect();
            let leaf = |f: &FieldD, args: Vec<(String, String)>| Sel::Field { alias: Some("k".into()), name: f.name.clone(), args, dirs: vec![], sub: vec![], parent: t.to_string(), ret: MetaTypeName::concrete_typename(&f.ty).to_string() };
            let tn = Sel::Field { alias: Some("k".into()), name: "__typename".into(), args: vec![], dirs: vec![], sub: vec![], parent: t.to_string(), ret: "String".into() };
            match m {
                "conflicting-aliases" => {
                    if fs.is_empty() {
                        return;
                    }
                    set.push(leaf(&fs[0], vec![]));
                    set.push(if fs.len() > 1 { leaf(&fs[1], vec![]) } else { tn });
                }
                "conflicting-args" => {
                    let qs: Vec<&FieldD> = fs.iter().filter(|f| f.args.iter().any(|a| a.ty == "Int" || a.ty == "String")).collect();
                    if qs.is_empty() {
                        return;
                    }
                    let a = qs[0].args.iter().find(|a| a.ty == "Int" || a.ty == "String").unwrap();
                    let (v1, v2) = if a.ty == "Int" { ("1", "2") } else { ("\"a\"", "\"b\"") };
                    set.push(leaf(qs[0], vec![(a.name.clone(), v1.into())]));
                    set.push(leaf(qs[0], vec![(a.name.clone(), v2.into())]));
                }
                _ => {
                    if fs.is_empty() {
                        return;
                    }
                    let second = if fs.len() > 1 { leaf(&fs[1], vec![]) } else { tn };
                    set.push(leaf(&fs[0], vec![]));
                    set.push(Sel::Inline { cond: Some(t.to_string()), dirs: vec![], sub: vec![second], parent: t.to_string() });
                }
            }
        }),
        "conflict-in-subselection" => on_sel!(|s: &Sel| matches!(s, Sel::Field { sub, args, dirs, ret, .. } if !sub.is_empty() && args.is_empty() && dirs.is_empty() && d.fields(ret).iter().filter(|f| !d.is_composite(MetaTypeName::concrete_typename(&f.ty)) && f.args.is_empty()).count() >= 1), |s: &mut Sel| {
            if let Sel::Field { sub, ret, .. } = s {
                let f = d.fields(ret).into_iter().find(|f| !d.is_composite(MetaTypeName::concrete_typename(&f.ty)) && f.args.is_empty()).unwrap();
                sub.push(Sel::Field { alias: Some("k".into()), name: f.name.clone(), args: vec![], dirs: vec![], sub: vec![], parent: ret.clone(), ret: "x".into() });
            }
        }) && {
            // duplicate the mutated field next to itself with `k` bound to __typename instead
            fn dup(sels: &mut Vec<Sel>) -> bool {
                for i in 0..sels.len() {
                    if let Sel::Field { sub, .. } = &sels[i]
                        && matches!(sub.last(), Some(Sel::Field { alias: Some(a), ret, .. }) if a == "k" && ret == "x")
                    {
                        let mut c = sels[i].clone();
                        if let Sel::Field { sub, .. } = &mut c {
                            let l = sub.len();
                            if let Sel::Field { name, .. } = &mut sub[l - 1] {
                                *name = "__typename".into();
                            }
                            let last = sub[l - 1].clone();
                            *sub = vec![last];
                        }
                        sels.push(c);
                        return true;
                    }
                    let done = match &mut sels[i] {
                        Sel::Field { sub, .. } | Sel::Inline { sub, .. } => dup(sub),
                        _ => false,
                    };
                    if done {
                        return true;
                    }
                }
                false
            }
            let mut done = dup(&mut doc.ops[0].sub);
            for f in doc.frags.iter_mut() {
                if !done {
                    done = dup(&mut f.sub);
                }
            }
            done
        },
        "variable-non-input-type" => {
            doc.ops[0].vars.push(VarD { name: "bad".into(), ty: d.query.clone(), default: None });
            // keep it used
            let q = doc.ops[0].root.clone();
            let _ = q;
            doc.ops[0].dirs.retain(|_| true);
            mutate_use_var(doc, "bad")
        }
        "unknown-type" => match r.below(2) {
            0 => {
                doc.ops[0].vars.push(VarD { name: "bad".into(), ty: "Nope".into(), default: None });
                mutate_use_var(doc, "bad")
            }
            _ => on_set!(|t: &str, set: &mut Vec<Sel>| set.push(Sel::Inline { cond: Some("Nope".into()), dirs: vec![], sub: vec![Sel::Field { alias: Some("un".into()), name: "__typename".into(), args: vec![], dirs: vec![], sub: vec![], parent: t.to_string(), ret: "String".into() }], parent: t.to_string() })),
        },
        "fragment-on-scalar" => on_set!(|t: &str, set: &mut Vec<Sel>| set.push(Sel::Inline { cond: Some("Int".into()), dirs: vec![], sub: vec![Sel::Field { alias: Some("sc".into()), name: "__typename".into(), args: vec![], dirs: vec![], sub: vec![], parent: t.to_string(), ret: "String".into() }], parent: t.to_string() })),
        "default-wrong-type" => {
            let cands: Vec<usize> = doc.ops[0].vars.iter().enumerate().filter(|(_, v)| matches!(MetaTypeName::concrete_typename(&v.ty), "Int" | "Boolean" | "String" | "E0")).map(|(i, _)| i).collect();
            if cands.is_empty() {
                return false;
            }
            let i = *r.pick(&cands);
            let v = &mut doc.ops[0].vars[i];
            v.default = Some(if MetaTypeName::concrete_typename(&v.ty) == "String" { "1".into() } else { "\"x\"".into() });
            true
        }
        "multiple-subscription-roots" => {
            let Some(sr) = d.subscription.clone() else { return false };
            let f = d.fields(&sr)[0].clone();
            let mk = |alias: Option<&str>| Sel::Field { alias: alias.map(String::from), name: f.name.clone(), args: vec![], dirs: vec![], sub: vec![], parent: sr.clone(), ret: "Int".into() };
            *doc = DocD { ops: vec![OpD { kind: "subscription", name: None, vars: vec![], dirs: vec![], sub: vec![mk(None), mk(Some("second"))], root: sr.clone() }], frags: vec![], values: Default::default() };
            true
        }
        "mutation-not-configured" => {
            if d.mutation.is_some() {
                return false;
            }
            *doc = DocD { ops: vec![OpD { kind: "mutation", name: None, vars: vec![], dirs: vec![], sub: vec![Sel::Field { alias: None, name: "f0".into(), args: vec![], dirs: vec![], sub: vec![], parent: "O1".into(), ret: "Int".into() }], root: "O1".into() }], frags: vec![], values: Default::default() };
            true
        }
        "upload-on-query" => {
            if doc.ops[0].kind == "mutation" {
                return false;
            }
            doc.ops[0].vars.push(VarD { name: "up".into(), ty: "Upload".into(), default: None });
            // used in a directive-free way: as argument of a field that takes Upload if any, else unused -> still invalid for both reasons
            mutate_use_var(doc, "up")
        }
        _ => false,
    }
}

/// use `$name` somewhere: as the `n` argument of a `@tag` directive on the first plain field
fn mutate_use_var(doc: &mut DocD, name: &str) -> bool {
    fn go(sels: &mut Vec<Sel>, name: &str) -> bool {
        for s in sels.iter_mut() {
            if let Sel::Field { name: n, dirs, .. } = s
                && n != "__typename"
            {
                dirs.push(format!("@tag(n: ${name})"));
                return true;
            }
        }
        false
    }
    go(&mut doc.ops[0].sub, name)
}


// ------------------------------------- multi-operation / shared fragments ---
/// Documents with 2-4 operations that share fragments (direct and transitive
/// spreads, fragments on O0 and on O1 reached through `o { ...F }`, acyclic),
/// whose fragments use variables; baseline: every operation defines exactly
/// the variables it uses transitively.  Then at most one targeted change.
fn gen_multi(d: &SchemaD, r: &mut Rng) -> (DocD, String) {
    use serde_json::json;
    let pool: [(&str, &str, &str, serde_json::Value); 5] = [
        ("x", "Int!", "String", json!(3)),
        ("y", "String", "Int", json!("s")),
        ("e", "E0", "Int", json!("A")),
        ("l", "[Int!]", "[String]", json!([1, 2])),
        ("b", "Boolean!", "String", json!(true)),
    ];
    let q = d.query.clone();
    let nal = std::cell::Cell::new(0usize);
    let al = |p: &str| -> Option<String> {
        nal.set(nal.get() + 1);
        Some(format!("{p}{}", nal.get()))
    };
    let fld = |alias: Option<String>, name: &str, args: Vec<(String, String)>, dirs: Vec<String>, sub: Vec<Sel>, parent: &str, ret: &str| Sel::Field {
        alias,
        name: name.to_string(),
        args,
        dirs,
        sub,
        parent: parent.to_string(),
        ret: ret.to_string(),
    };
    // a selection using pool variable v, valid inside type `on` ("O0" root or "O1")
    let usage = |v: usize, on_root: bool, r: &mut Rng| -> Sel {
        let a = al("m");
        let parent = if on_root { q.as_str() } else { "O1" };
        if on_root && !(v == 4) && !(v == 0 && r.chance(1, 3)) {
            let args: Vec<(String, String)> = match v {
                0 => vec![("n".into(), "$x".into())],
                1 => vec![("n".into(), "1".into()), ("s".into(), "$y".into())],
                2 => vec![("n".into(), "2".into()), ("e".into(), "$e".into())],
                _ => vec![("n".into(), "3".into()), ("l".into(), "$l".into())],
            };
            fld(a, "q", args, vec![], vec![], parent, "Int")
        } else if v == 0 {
            fld(a, "f0", vec![], vec!["@tag(n: $x)".into()], vec![], parent, "Int")
        } else {
            fld(a, "g0", vec![], vec!["@include(if: $b)".into()], vec![], parent, "Int")
        }
    };
    let nfr = 2 + r.below(3);
    // (on_root, direct uses, spreads to later fragments)
    let mut fr_root: Vec<bool> = vec![];
    let mut fr_uses: Vec<Vec<usize>> = vec![];
    let mut fr_spreads: Vec<Vec<usize>> = vec![];
    for i in 0..nfr {
        fr_root.push(i == 0 || !r.chance(1, 4));
    }
    let mut frags: Vec<FragD> = vec![];
    for i in 0..nfr {
        let on_root = fr_root[i];
        let mut sub = vec![];
        let mut uses = vec![];
        let nuse = if r.chance(1, 5) { 0 } else { 1 + r.below(2) };
        for _ in 0..nuse {
            let v = if on_root { r.below(5) } else if r.chance(1, 2) { 0 } else { 4 };
            uses.push(v);
            sub.push(usage(v, on_root, r));
        }
        let mut spreads = vec![];
        for j in (i + 1)..nfr {
            if r.chance(1, 3) && (on_root || !fr_root[j]) {
                spreads.push(j);
                if on_root && !fr_root[j] {
                    let a = al("o");
                    sub.push(fld(a, "o", vec![], vec![], vec![Sel::Spread { name: format!("S{j}"), dirs: vec![] }], &q, "O1"));
                } else {
                    sub.push(Sel::Spread { name: format!("S{j}"), dirs: vec![] });
                }
            }
        }
        if sub.is_empty() {
            sub.push(fld(al("p"), "f0", vec![], vec![], vec![], if on_root { &q } else { "O1" }, "Int"));
        }
        fr_uses.push(uses);
        fr_spreads.push(spreads);
        frags.push(FragD { name: format!("S{i}"), cond: if on_root { q.clone() } else { "O1".into() }, dirs: vec![], sub });
    }
    let nops = 2 + r.below(3);
    let mut op_direct: Vec<Vec<usize>> = vec![];
    let mut op_spreads: Vec<Vec<usize>> = vec![];
    let mut ops: Vec<OpD> = vec![];
    for k in 0..nops {
        let mut sub = vec![];
        let mut direct = vec![];
        let mut spreads = vec![];
        let ns = 1 + r.below(2);
        for _ in 0..ns {
            let j = r.below(nfr);
            if spreads.contains(&j) {
                continue;
            }
            spreads.push(j);
        }
        if r.chance(1, 3) {
            let v = r.below(5);
            direct.push(v);
            sub.push(usage(v, true, r));
        }
        if r.chance(1, 3) {
            sub.push(fld(al("p"), "g0", vec![], vec![], vec![], &q, "Int"));
        }
        op_direct.push(direct);
        op_spreads.push(spreads);
        ops.push(OpD { kind: "query", name: Some(format!("Op{k}")), vars: vec![], dirs: vec![], sub, root: q.clone() });
    }
    // every fragment is reachable from some operation
    let reach_of = |start: &Vec<usize>, fr_spreads: &Vec<Vec<usize>>| -> Vec<usize> {
        let mut seen: Vec<usize> = vec![];
        let mut todo = start.clone();
        while let Some(j) = todo.pop() {
            if !seen.contains(&j) {
                seen.push(j);
                todo.extend(fr_spreads[j].iter().cloned());
            }
        }
        seen
    };
    for j in 0..nfr {
        if !(0..nops).any(|k| reach_of(&op_spreads[k], &fr_spreads).contains(&j)) {
            let k = r.below(nops);
            op_spreads[k].push(j);
        }
    }
    for k in 0..nops {
        for &j in &op_spreads[k] {
            if fr_root[j] {
                ops[k].sub.push(Sel::Spread { name: format!("S{j}"), dirs: vec![] });
            } else {
                let a = al("o");
                ops[k].sub.push(fld(a, "o", vec![], vec![], vec![Sel::Spread { name: format!("S{j}"), dirs: vec![] }], &q, "O1"));
            }
        }
    }
    // variables used by each operation: directly / through fragments
    let mut via: Vec<Vec<usize>> = vec![];
    for k in 0..nops {
        let mut v: Vec<usize> = vec![];
        for j in reach_of(&op_spreads[k], &fr_spreads) {
            for &u in &fr_uses[j] {
                if !v.contains(&u) {
                    v.push(u);
                }
            }
        }
        v.sort();
        via.push(v);
    }
    let mk = |v: usize| VarD { name: pool[v].0.to_string(), ty: pool[v].1.to_string(), default: None };
    for k in 0..nops {
        let mut all: Vec<usize> = via[k].clone();
        for &u in &op_direct[k] {
            if !all.contains(&u) {
                all.push(u);
            }
        }
        all.sort();
        ops[k].vars = all.iter().map(|&v| mk(v)).collect();
    }
    let mut values = serde_json::Map::new();
    if !r.chance(1, 3) {
        for (n, _, _, val) in pool.iter() {
            values.insert(n.to_string(), val.clone());
        }
    }
    let mut tag = "multi-valid".to_string();
    match r.below(10) {
        0..=2 => {}
        3..=5 => {
            // drop the definition of a variable used only through fragments; prefer one that
            // another operation reaching the same fragments does define
            let mut cands: Vec<(usize, usize, bool)> = vec![];
            for k in 0..nops {
                for &v in &via[k] {
                    if !op_direct[k].contains(&v) {
                        let shared = (0..nops).any(|k2| k2 != k && via[k2].contains(&v));
                        cands.push((k, v, shared));
                    }
                }
            }
            let pref: Vec<(usize, usize, bool)> = cands.iter().filter(|c| c.2).cloned().collect();
            let pick = if !pref.is_empty() { Some(*r.pick(&pref)) } else if !cands.is_empty() { Some(*r.pick(&cands)) } else { None };
            if let Some((k, v, shared)) = pick {
                ops[k].vars.retain(|x| x.name != pool[v].0);
                tag = if shared { "multi-undefined-via-shared-fragment".into() } else { "multi-undefined-via-fragment".into() };
            }
        }
        6 => {
            let k = r.below(nops);
            let unused: Vec<usize> = (0..5).filter(|v| !ops[k].vars.iter().any(|x| x.name == pool[*v].0)).collect();
            if !unused.is_empty() {
                let v = *r.pick(&unused);
                ops[k].vars.push(mk(v));
                tag = "multi-unused-variable".into();
            }
        }
        7 => {
            let mut cands: Vec<(usize, usize)> = vec![];
            for k in 0..nops {
                for &v in &via[k] {
                    cands.push((k, v));
                }
            }
            if !cands.is_empty() {
                let (k, v) = *r.pick(&cands);
                for x in ops[k].vars.iter_mut() {
                    if x.name == pool[v].0 {
                        x.ty = pool[v].2.to_string();
                    }
                }
                values.remove(pool[v].0);
                tag = "multi-wrong-type-via-fragment".into();
            }
        }
        8 => {
            let leaf = fld(Some("uu".into()), "f0", vec![], vec![], vec![], &q, "Int");
            if r.chance(1, 2) {
                frags.push(FragD { name: "Z0".into(), cond: q.clone(), dirs: vec![], sub: vec![leaf] });
            } else {
                frags.push(FragD { name: "Z0".into(), cond: q.clone(), dirs: vec![], sub: vec![leaf.clone(), Sel::Spread { name: "Z1".into(), dirs: vec![] }] });
                frags.push(FragD { name: "Z1".into(), cond: q.clone(), dirs: vec![], sub: vec![fld(Some("uv".into()), "g0", vec![], vec![], vec![], &q, "Int")] });
            }
            tag = "multi-unused-fragment".into();
        }
        _ => {
            let cands: Vec<(usize, usize)> = (0..nops).flat_map(|k| op_direct[k].iter().map(move |&v| (k, v))).filter(|(k, v)| !via[*k].contains(v)).collect();
            if !cands.is_empty() {
                let (k, v) = *r.pick(&cands);
                ops[k].vars.retain(|x| x.name != pool[v].0);
                tag = "multi-undefined-direct".into();
            }
        }
    }
    (DocD { ops, frags, values }, tag)
}

// ------------------------------------------------------------------ running ---
struct Obs {
    code: u8,
    detail: String,
}

macro_rules! build_and_run {
    ($q:expr, $m:expr, $s:expr, $seen:expr, $req:expr) => {{
        let schema = Schema::build($q, $m, $s).extension(Cap($seen.clone())).finish();
        block_on(schema.execute($req))
    }};
}

fn run(d: &SchemaD, seen: &Arc<Mutex<Seen>>, text: &str, values: &serde_json::Map<String, serde_json::Value>, opname: Option<&str>) -> Obs {
    let mut req = Request::new(text).variables(Variables::from_json(serde_json::Value::Object(values.clone())));
    if let Some(n) = opname {
        req = req.operation_name(n);
    }
    {
        let mut s = seen.lock().unwrap();
        s.accepted = None;
        s.located = false;
        s.messages.clear();
    }
    RESOLVER_CALLS.store(0, Ordering::SeqCst);
    let resp = match (d.mutation.is_some(), d.subscription.is_some()) {
        (true, true) => build_and_run!(CQuery, CMutation, CSubscription, seen, req),
        (true, false) => build_and_run!(CQuery, CMutation, EmptySubscription, seen, req),
        (false, true) => build_and_run!(CQuery, EmptyMutation, CSubscription, seen, req),
        (false, false) => build_and_run!(CQuery, EmptyMutation, EmptySubscription, seen, req),
    };
    let calls = RESOLVER_CALLS.swap(0, Ordering::SeqCst);
    let s = seen.lock().unwrap();
    let (code, detail) = match s.accepted {
        Some(true) => (0, format!("accepted; resolver calls {calls}; execution errors {}", resp.errors.len())),
        Some(false) => {
            let c = if calls > 0 { 3 } else if !s.located { 2 } else { 1 };
            (c, format!("rejected: {}", s.messages.iter().take(2).cloned().collect::<Vec<_>>().join(" | ")))
        }
        // rejected before validation (recursion-depth walker of prepare_request)
        None if !resp.errors.is_empty() => {
            let located = resp.errors.iter().any(|e| !e.locations.is_empty());
            let c = if calls > 0 { 3 } else if !located { 2 } else { 1 };
            (c, format!("rejected before validation: {:?}", resp.errors.iter().map(|e| e.message.clone()).collect::<Vec<_>>()))
        }
        None => (9, "validation did not run and no error".to_string()),
    };
    Obs { code, detail }
}

fn jstr(s: &str) -> String {
    serde_json::to_string(s).unwrap()
}

fn g_json(it: &mut Interner, v: &serde_json::Value) -> String {
    match v {
        serde_json::Value::Null => "VNull".into(),
        serde_json::Value::Bool(b) => format!("(VBool {})", g_bool(*b)),
        serde_json::Value::Number(n) => {
            if let Some(i) = n.as_i64() {
                format!("(VInt {})", g_z(i as i128))
            } else {
                format!("(VFloat {}%N)", n.as_f64().unwrap_or(0.0).to_bits())
            }
        }
        serde_json::Value::String(s) => format!("(VStr {})", g_str(s)),
        serde_json::Value::Array(a) => format!("(VList {})", g_list(a.iter(), |x| g_json(it, x))),
        serde_json::Value::Object(m) => format!("(VObj {})", g_list(m.iter(), |(k, x)| format!("({}, {})", it.n(k), g_json(it, x)))),
    }
}

/// hand-written documents on the fixed part of every generated schema (root O0
/// has f0: Int, g0: Int (as every object), o: O1, i: I0, u: [U0] (O1 and O2 are members), q(n: Int!, e: E0, inp: In0, l: [Int!], d: Int! = 5, s: String))
fn corpus() -> Vec<(&'static str, &'static str, serde_json::Value)> {
    use serde_json::json;
    vec![
        ("witness-var-position", "query($s: String) { q(n: $s) }", json!({})),
        ("witness-var-position-supplied", "query($s: String) { q(n: $s) }", json!({"s": "x"})),
        ("var-position-ok", "query($n: Int!) { q(n: $n) }", json!({"n": 1})),
        ("var-nullable-with-default-at-nonnull", "query($n: Int = 3) { q(n: $n) }", json!({})),
        ("var-nullable-null-default-at-nonnull", "query($n: Int = null) { q(n: $n) }", json!({})),
        ("var-nullable-at-nonnull-with-location-default", "query($n: Int) { q(n: 1, d: $n) }", json!({})),
        ("var-nonnull-list-at-nullable-list", "query($l: [Int!]!) { q(n: 1, l: $l) }", json!({"l": [1]})),
        ("var-in-list-wrong", "query($s: String) { q(n: 1, l: [$s]) }", json!({})),
        ("var-in-input-object-wrong", "query($s: String) { q(n: 1, inp: {a: $s, b: \"x\"}) }", json!({})),
        ("var-in-directive-wrong", "query($s: String) { f0 @skip(if: $s) }", json!({})),
        ("var-in-fragment-wrong", "query($s: String) { ...F } fragment F on O0 { q(n: $s) }", json!({})),
        ("witness-overlap-condition", "{ o { k: f0 ... on O1 { k: __typename } } }", json!({})),
        ("overlap-same-set", "{ o { k: f0 k: __typename } }", json!({})),
        ("overlap-subselection", "{ o { k: f0 } o { k: __typename } }", json!({})),
        ("overlap-spread", "{ o { k: f0 ...G } } fragment G on O1 { k: __typename }", json!({})),
        ("overlap-identical-ok", "{ o { f0 f0 } o { f0 } }", json!({})),
        ("overlap-shape-union-members", "{ u { ... on O1 { k: f0 } ... on O2 { k: __typename } } }", json!({})),
        ("overlap-anonymous-inline-distinct-objects", "{ u { ... on O1 { ... { k: f0 } } ... on O2 { ... { k: g0 } } } }", json!({})),
        ("overlap-distinct-objects-ok", "{ u { ... on O1 { k: f0 } ... on O2 { k: g0 } } }", json!({})),
        ("enum-string-literal", "{ q(n: 1, e: \"A\") }", json!({})),
        ("enum-literal-ok", "{ q(n: 1, e: A) }", json!({})),
        ("input-object-scalar-literal", "{ q(n: 1, inp: 5) }", json!({})),
        ("input-object-ok", "{ q(n: 1, inp: {b: \"x\", e: {x: 1}}) }", json!({})),
        ("literal-unchecked-next-to-unsupplied-variable", "query($a: Int) { q(n: 1, inp: {a: $a, b: 5}) }", json!({})),
        ("int-out-of-range", "{ q(n: 99999999999) }", json!({})),
        ("typename-with-argument", "{ __typename(x: 1) }", json!({})),
        ("typename-with-unknown-directive", "{ __typename @nope }", json!({})),
        ("anonymous-valid", "{ f0 }", json!({})),
        ("shared-fragment-undefined-in-one-operation", "query A($x: Int!) { ...F } query B { ...F } query C($x: Int!) { ...F } query D($x: Int!) { ...F } fragment F on O0 { q(n: $x) }", json!({"x": 1})),
        ("shared-fragment-all-define", "query A($x: Int!) { ...F } query B($x: Int!) { ...F } fragment F on O0 { q(n: $x) }", json!({"x": 1})),
        ("shared-fragment-transitive-undefined", "query A($x: Int!) { ...F } query B { g0 ...F } fragment F on O0 { f0 ...G } fragment G on O0 { q(n: $x) }", json!({})),
        ("shared-fragment-unused-in-one-operation", "query A($x: Int!) { ...F } query B($x: Int!) { g0 } fragment F on O0 { q(n: $x) }", json!({"x": 1})),
        ("shared-fragment-wrong-type-in-one-operation", "query A($x: Int!) { ...F } query B($x: String) { ...F } fragment F on O0 { q(n: $x) }", json!({})),
        ("two-operations-unselected-variable", "query Op0 { f0 } query Op1($n: Int!) { q(n: $n) }", json!({})),
    ]
}

fn main() {
    let a = parse_args();
    let mut rng = Rng::new(a.seed);
    let mut out = String::new();
    let mut it = Interner::new();
    let mut case_no = 0usize;
    let mut schema_no = 0usize;
    let mut mut_no = 0usize;
    let mut stats: std::collections::BTreeMap<String, (usize, usize)> = Default::default();

    while case_no < a.n {
        let desc = gen_schema(&mut rng);
        *CURRENT.write().unwrap() = Some(Arc::new(desc.clone()));
        let sname = format!("s{schema_no}");
        let seen = Arc::new(Mutex::new(Seen { it: std::mem::take(&mut it), ..Default::default() }));
        let _ = run(&desc, &seen, "{ f0 }", &Default::default(), None);
        let (gschema, present) = {
            let mut s = seen.lock().unwrap();
            (s.registry.clone(), std::mem::take(&mut s.present))
        };
        let Some(gschema) = gschema else {
            eprintln!("no registry dump for schema {schema_no}");
            it = std::mem::take(&mut seen.lock().unwrap().it);
            schema_no += 1;
            continue;
        };
        writeln!(out, "DEF\t{sname}\t{gschema}").unwrap();
        // generate only over types that survived remove_unused_types
        let mut desc = desc;
        desc.types.retain(|t| present.iter().any(|p| p == t.name()));
        for t in desc.types.iter_mut() {
            match t {
                TypeD::Interface { possible, .. } | TypeD::Union { possible, .. } => possible.retain(|x| present.iter().any(|p| p == x)),
                TypeD::Object { implements, .. } => implements.retain(|x| present.iter().any(|p| p == x)),
                _ => {}
            }
        }

        let mut emit = |out: &mut String, tag: &str, text: &str, values: &serde_json::Map<String, serde_json::Value>, opname: Option<&str>| -> bool {
            let Ok(parsed) = async_graphql::parser::parse_query(text) else { return false };
            // the rules keep per-operation tables in randomly seeded hash maps: a document with
            // several operations is validated repeatedly, and ANY acceptance counts as acceptance
            let reps = if parsed.operations.iter().count() > 1 { 8 } else { 1 };
            let mut o = run(&desc, &seen, text, values, opname);
            let mut codes = vec![o.code];
            for _ in 1..reps {
                let o2 = run(&desc, &seen, text, values, opname);
                codes.push(o2.code);
                if o2.code == 0 && o.code != 0 || (o.code != 0 && o2.code > o.code) {
                    o = o2;
                }
            }
            if codes.iter().any(|c| *c != codes[0]) {
                o.detail = format!("UNSTABLE over {reps} validations {codes:?}: {}", o.detail);
            }
            let mut s = seen.lock().unwrap();
            let itr = &mut s.it;
            let gdoc = g_document(itr, &parsed);
            let gvars = g_list(values.iter(), |(k, v)| format!("({}, {})", itr.n(k), g_json(itr, v)));
            let gop = g_opt(opname, |n| itr.n(n));
            let e = stats.entry(tag.to_string()).or_default();
            e.0 += 1;
            if o.code != 0 {
                e.1 += 1;
            }
            let meta = format!(
                "{{\"uses\":[{}],\"text\":{},\"impl\":{},\"nontrivial\":{},\"tag\":{}}}",
                jstr(&sname),
                jstr(&format!("[{sname} {tag} vars={} op={:?}] {}", serde_json::Value::Object(values.clone()), opname, text.trim())),
                jstr(&format!("code={} {}", o.code, o.detail)),
                tag != "valid" || text.len() > 20,
                jstr(tag)
            );
            writeln!(out, "CASE\t({sname}, {gdoc}, {gvars}, {gop}, {}%N)\t{meta}", o.code).unwrap();
            true
        };

        if schema_no % 4 == 0 {
            for (tag, text, vars) in corpus() {
                let m = vars.as_object().cloned().unwrap_or_default();
                let opn = if text.contains("Op1") { Some("Op0") } else if text.contains("query A") { Some("A") } else { None };
                if emit(&mut out, tag, text, &m, opn) {
                    case_no += 1;
                }
            }
        }
        for _ in 0..8 {
            if case_no >= a.n {
                break;
            }
            let (doc, tag) = gen_multi(&desc, &mut rng);
            let opn = doc.ops[rng.below(doc.ops.len())].name.clone();
            if emit(&mut out, &tag, &doc.print(), &doc.values, opn.as_deref()) {
                case_no += 1;
            }
        }
        for _ in 0..24 {
            if case_no >= a.n {
                break;
            }
            let doc = gen_doc(&desc, &mut rng);
            let opn = if doc.ops.len() > 1 { Some("Op0") } else { None };
            if rng.chance(1, 4) {
                if emit(&mut out, "valid", &doc.print(), &doc.values, opn) {
                    case_no += 1;
                }
                continue;
            }
            // one rule-targeted mutation
            for _try in 0..8 {
                mut_no += 1;
                let m = if rng.chance(1, 3) { *rng.pick(MUTATIONS) } else { MUTATIONS[mut_no % MUTATIONS.len()] };
                let mut d2 = doc.clone();
                if mutate(&desc, &mut d2, m, &mut rng) {
                    if emit(&mut out, m, &d2.print(), &d2.values, opn) {
                        case_no += 1;
                    }
                    break;
                }
            }
        }
        it = std::mem::take(&mut seen.lock().unwrap().it);
        schema_no += 1;
    }
    writeln!(out, "NAMES\t\t{}", serde_json::to_string(&it.names).unwrap()).unwrap();
    let st: Vec<String> = stats.iter().map(|(k, (n, rej))| format!("{k}:{n}/{rej}")).collect();
    writeln!(out, "STATS\t\t{}", jstr(&st.join(" "))).unwrap();
    std::fs::write(format!("{}/c09.cases", a.out), out).unwrap();
}

//! C12 correspondence and crash exploration.
//!
//! Modelled decoders (compared with coq/theories/Crash.v, stream by stream):
//!   UPARSE  <Upload as InputType>::parse called directly
//!   UEXEC   mutations with Upload arguments through Schema::execute with k attached files
//!   SETUP   Request::set_upload over generated variables / paths
//!   USZ     str::parse::<usize>() (the standard-library function the upload model relies on)
//!   LIM     MultipartOptions limits whose product may overflow usize (receive_batch_body)
//!   STR     string literals through parse_query (string_value behind rule string_content)
//!   TY      async_graphql_parser::types::Type::new
//!   DEEP    deeply nested documents parsed in a CHILD PROCESS (the stack overflow cannot be
//!           caught in-process): `c12 --child-deep <kind> <depth>`
//!   FRAG    documents with fragment cycles / spread chains executed in a CHILD PROCESS
//!           (`c12 --child-exec <file> <start>`; static and dynamic schema, batch, stream): the
//!           recursion-depth walk of schema.rs must answer every document (CrashRec.v)
//! Exploration (no model, the oracle is "did not panic"; labelled EXPL):
//!   documents (grammar-aware and byte-level mutations) through parse_query and Schema::execute,
//!   variables / extensions / operation names through Request deserialisation and execution,
//!   query strings, JSON bodies, multipart bodies, websocket frames (both protocols).
#[path = "../httpgen.rs"]
#[allow(dead_code)]
mod httpgen;

use std::fmt::Write as _;
use std::panic::AssertUnwindSafe;
use std::pin::Pin;
use std::task::{Context as TaskCx, Poll};
use std::time::{Duration, Instant};

use agv_harness::*;
use async_graphql::http::{
    MultipartOptions, WebSocket, WebSocketProtocols, parse_query_string, receive_batch_body, receive_batch_json, receive_body,
    receive_json,
};
use async_graphql::*;
use futures_util::stream::Stream;
use httpgen::{Part, jstr, multipart_body};

// ------------------------------------------------------------------ schema --
#[derive(Enum, Copy, Clone, Eq, PartialEq)]
enum Color {
    Red,
    Green,
    Blue,
}

#[derive(InputObject)]
struct Inner {
    x: i32,
    y: Option<String>,
}

#[derive(InputObject)]
struct Inp {
    a: i32,
    b: Option<String>,
    c: Vec<i32>,
    d: MaybeUndefined<i32>,
    e: Option<Inner>,
    f: Option<Vec<Option<Inner>>>,
    col: Option<Color>,
    id: Option<ID>,
    fl: Option<f64>,
}

#[derive(InputObject)]
struct UpIn {
    file: Upload,
    note: Option<String>,
}

#[derive(OneofObject)]
enum One {
    A(i32),
    B(String),
}

struct Nest;
#[Object]
impl Nest {
    async fn a(&self) -> Nest {
        Nest
    }
    async fn v(&self) -> i32 {
        1
    }
}

struct Q;
#[Object]
impl Q {
    async fn i(&self, v: i32) -> i32 {
        v
    }
    async fn l(&self, v: i64) -> i64 {
        v
    }
    async fn u8v(&self, v: u8) -> i32 {
        v as i32
    }
    async fn u64v(&self, v: u64) -> String {
        v.to_string()
    }
    async fn f(&self, v: f64) -> f64 {
        v
    }
    async fn f32v(&self, v: f32) -> f64 {
        v as f64
    }
    async fn b(&self, v: bool) -> bool {
        v
    }
    async fn s(&self, v: String) -> String {
        v
    }
    async fn id(&self, v: ID) -> ID {
        v
    }
    async fn e(&self, v: Color) -> Color {
        v
    }
    async fn o(&self, v: Inp) -> i32 {
        v.a.wrapping_add(v.c.len() as i32)
    }
    async fn li(&self, v: Vec<i32>) -> i32 {
        v.len() as i32
    }
    async fn lo(&self, v: Option<Vec<Option<Inp>>>) -> i32 {
        v.map(|x| x.len() as i32).unwrap_or(-1)
    }
    async fn mu(&self, v: MaybeUndefined<i32>) -> i32 {
        match v {
            MaybeUndefined::Undefined => -2,
            MaybeUndefined::Null => -1,
            MaybeUndefined::Value(x) => x,
        }
    }
    async fn j(&self, v: Json<serde_json::Value>) -> String {
        v.0.to_string()
    }
    async fn one(&self, v: One) -> i32 {
        match v {
            One::A(x) => x,
            One::B(s) => s.len() as i32,
        }
    }
    async fn opt(&self, v: Option<i32>) -> i32 {
        v.unwrap_or(0)
    }
    async fn def(&self, #[graphql(default = 5)] v: i32) -> i32 {
        v
    }
    async fn nest(&self) -> Nest {
        Nest
    }
}

struct M;
#[Object]
impl M {
    async fn upload(&self, ctx: &Context<'_>, file: Upload) -> Result<String> {
        Ok(file.value(ctx)?.filename)
    }
    async fn uploads(&self, ctx: &Context<'_>, files: Vec<Upload>) -> Result<i32> {
        let mut n = 0;
        for f in files {
            f.value(ctx)?;
            n += 1;
        }
        Ok(n)
    }
    async fn up_opt(&self, ctx: &Context<'_>, file: Option<Upload>) -> Result<i32> {
        match file {
            Some(f) => {
                f.value(ctx)?;
                Ok(1)
            }
            None => Ok(0),
        }
    }
    async fn up_in(&self, ctx: &Context<'_>, input: UpIn) -> Result<String> {
        Ok(input.file.value(ctx)?.filename)
    }
    async fn set(&self, v: i32) -> i32 {
        v
    }
}

struct S;
#[Subscription]
impl S {
    async fn ticks(&self, n: i32) -> impl Stream<Item = i32> {
        futures_util::stream::iter(0..n.clamp(0, 3))
    }
}

type Sch = Schema<Q, M, S>;

// --------------------------------------------------------------- utilities --
const PREFIX: &str = "#__graphql_file__:";

/// 0 = value / data, 1 = error, 2 = panic
fn class<T, E>(r: &Option<Result<T, E>>) -> u32 {
    match r {
        None => 2,
        Some(Ok(_)) => 0,
        Some(Err(_)) => 1,
    }
}

fn exec_class(schema: &Sch, req: Request) -> u32 {
    match catch(AssertUnwindSafe(|| block_on(schema.execute(req)))) {
        None => 2,
        Some(resp) => {
            if resp.errors.is_empty() {
                0
            } else {
                1
            }
        }
    }
}

fn upload_value(i: usize) -> UploadValue {
    UploadValue { filename: format!("file{i}.txt"), content_type: Some("text/plain".into()), content: std::fs::File::open("/dev/null").expect("/dev/null") }
}

fn g_uval(v: &serde_json::Value) -> String {
    match v {
        serde_json::Value::Null => "UNull".into(),
        serde_json::Value::String(s) => format!("(UStr {})", g_str(s)),
        _ => "UOther".into(),
    }
}

fn gen_unicode(r: &mut Rng) -> char {
    match r.below(8) {
        0 => '\u{feff}',
        1 => '\u{1F600}',
        2 => '\u{e9}',
        3 => '\u{2028}',
        4 => '\u{ffff}',
        5 => '\u{10ffff}',
        6 => '\u{ff10}', // fullwidth digit zero
        _ => char::from_u32(0x100 + r.below(0x3000) as u32).unwrap_or('x'),
    }
}

fn rand_str(r: &mut Rng, alphabet: &[char], max: usize) -> String {
    let n = r.below(max + 1);
    (0..n).map(|_| if r.chance(1, 12) { gen_unicode(r) } else { *r.pick(alphabet) }).collect()
}

// -------------------------------------------------------- upload suffixes --
fn marker_suffixes(r: &mut Rng, n: usize) -> Vec<String> {
    let mut v: Vec<String> = [
        "0", "1", "2", "3", "x", "", "+", "-", "+0", "+1", "-0", "-1", "00", "007", " 1", "1 ", "1.0", "1e3", "0x1", "１", "18446744073709551615",
        "18446744073709551616", "+18446744073709551615", "99999999999999999999999999", "000000000000000000000000000001", "9223372036854775808", "4294967296",
        "1_0", "١", "++1", "+-1", "\u{0}", "0\u{0}", "null", "true", ":0", "0:0",
    ]
    .iter()
    .map(|s| s.to_string())
    .collect();
    let alpha: Vec<char> = "0123456789+-x e._".chars().collect();
    while v.len() < n {
        let s = match r.below(4) {
            0 => r.below(6).to_string(),
            1 => format!("{}", r.next()),
            2 => format!("{}{}", r.next(), r.next()),
            _ => rand_str(r, &alpha, 6),
        };
        v.push(s);
    }
    v
}

fn near_markers() -> Vec<String> {
    ["#__graphql_file__", "#__graphql_file__;0", " #__graphql_file__:0", "#__GRAPHQL_FILE__:0", "#__graphql_file_:0", "__graphql_file__:0", "#__graphql_file__ :0", "", "0", "file", "#"]
        .iter()
        .map(|s| s.to_string())
        .collect()
}

// ---------------------------------------------------------- vv (set_upload) --
#[derive(Clone, Debug)]
enum VV {
    Leaf(u32),
    Str(String),
    List(Vec<VV>),
    Obj(Vec<(String, VV)>),
}

fn gen_key12(r: &mut Rng) -> String {
    let keys = ["a", "b", "file", "files", "0", "1", "x.y", "", "+1", "é"];
    r.pick(&keys).to_string()
}

fn gen_vv(r: &mut Rng, depth: usize) -> VV {
    match if depth == 0 { r.below(2) } else { r.below(5) } {
        0 => VV::Leaf(r.below(4) as u32),
        1 => VV::Str(if r.chance(1, 3) { format!("{PREFIX}{}", r.below(3)) } else { "s".into() }),
        2 | 3 => VV::List((0..r.below(4)).map(|_| gen_vv(r, depth - 1)).collect()),
        _ => VV::Obj(gen_members12(r, depth - 1)),
    }
}

fn gen_members12(r: &mut Rng, depth: usize) -> Vec<(String, VV)> {
    let mut m: Vec<(String, VV)> = vec![];
    for _ in 0..r.below(4) {
        let k = gen_key12(r);
        if m.iter().all(|(k2, _)| *k2 != k) {
            m.push((k, gen_vv(r, depth)));
        }
    }
    m
}

fn vv_to_value(v: &VV) -> Value {
    match v {
        VV::Leaf(0) => Value::Null,
        VV::Leaf(1) => Value::Number(7.into()),
        VV::Leaf(2) => Value::Boolean(true),
        VV::Leaf(_) => Value::Enum(Name::new("E")),
        VV::Str(s) => Value::String(s.clone()),
        VV::List(l) => Value::List(l.iter().map(vv_to_value).collect()),
        VV::Obj(m) => Value::Object(m.iter().map(|(k, v)| (Name::new(k), vv_to_value(v))).collect()),
    }
}

fn value_to_vv(v: &Value) -> VV {
    match v {
        Value::Null => VV::Leaf(0),
        Value::Number(_) => VV::Leaf(1),
        Value::Boolean(_) => VV::Leaf(2),
        Value::Enum(_) => VV::Leaf(3),
        Value::Binary(_) => VV::Leaf(4),
        Value::String(s) => VV::Str(s.clone()),
        Value::List(l) => VV::List(l.iter().map(value_to_vv).collect()),
        Value::Object(m) => VV::Obj(m.iter().map(|(k, v)| (k.to_string(), value_to_vv(v))).collect()),
    }
}

fn g_vv(v: &VV) -> String {
    match v {
        VV::Leaf(t) => format!("(VLeaf {t}%N)"),
        VV::Str(s) => format!("(VStr {})", g_str(s)),
        VV::List(l) => format!("(VList {})", g_list(l.iter(), g_vv)),
        VV::Obj(m) => format!("(VObj {})", g_members_vv(m)),
    }
}

fn g_members_vv(m: &[(String, VV)]) -> String {
    g_list(m.iter(), |(k, v)| format!("({}, {})", g_str(k), g_vv(v)))
}

/// every path into the tree, as segments
fn paths_of(v: &VV, cur: &mut Vec<String>, out: &mut Vec<Vec<String>>) {
    out.push(cur.clone());
    match v {
        VV::List(l) => {
            for (i, x) in l.iter().enumerate() {
                cur.push(i.to_string());
                paths_of(x, cur, out);
                cur.pop();
            }
        }
        VV::Obj(m) => {
            for (k, x) in m {
                cur.push(k.clone());
                paths_of(x, cur, out);
                cur.pop();
            }
        }
        _ => {}
    }
}

fn gen_path(r: &mut Rng, vars: &[(String, VV)]) -> String {
    let mut all: Vec<Vec<String>> = vec![];
    for (k, v) in vars {
        let mut cur = vec![k.clone()];
        paths_of(v, &mut cur, &mut all);
    }
    let mut segs: Vec<String> = if all.is_empty() || r.chance(1, 8) { vec![gen_key12(r)] } else { r.pick(&all).clone() };
    // mutations of a valid path
    match r.below(14) {
        0 => segs.push(gen_key12(r)),
        1 => segs.push(String::new()),
        2 => {
            if let Some(l) = segs.last_mut() {
                *l = format!("+{l}");
            }
        }
        3 => {
            if let Some(l) = segs.last_mut() {
                *l = format!("0{l}");
            }
        }
        4 => {
            if let Some(l) = segs.last_mut() {
                *l = ["4294967295", "4294967296", "-1", "99999999999999999999", "1e0"][r.below(5)].to_string();
            }
        }
        5 => {
            segs.pop();
        }
        _ => {}
    }
    let body = segs.join(".");
    match r.below(16) {
        0 => body,
        1 => format!("variables{body}"),
        2 => "variables".to_string(),
        3 => "variables.".to_string(),
        4 => format!("Variables.{body}"),
        5 => format!("variables..{body}"),
        6 => format!("0.variables.{body}"),
        _ => format!("variables.{body}"),
    }
}

// --------------------------------------------------------------- documents --
fn base_docs() -> Vec<(&'static str, &'static str)> {
    // (document, variables JSON)
    vec![
        ("query($v:Int!){i(v:$v)}", r#"{"v":1}"#),
        ("query($v:Int!){l(v:$v) u8v(v:1) u64v(v:18446744073709551615)}", r#"{"v":-9223372036854775808}"#),
        ("query($v:Float!){f(v:$v) f32v(v:1.5e3)}", r#"{"v":1.25}"#),
        ("query($v:Boolean!,$s:String!){b(v:$v) s(v:$s)}", r#"{"v":true,"s":"a\u00e9\n"}"#),
        ("query($v:ID!){id(v:$v) e(v:RED)}", r#"{"v":"abc"}"#),
        ("query($v:Inp!){o(v:$v)}", r#"{"v":{"a":1,"b":"x","c":[1,2],"d":null,"e":{"x":1,"y":null},"f":[null,{"x":2}],"col":"GREEN","id":"7","fl":1.0}}"#),
        ("{o(v:{a:1,c:[1,2,3],d:4,e:{x:1},f:[{x:1,y:\"s\"},null],col:BLUE,id:5,fl:2})}", "{}"),
        ("query($v:[Int!]!){li(v:$v) lo(v:[{a:1,c:[]},null])}", r#"{"v":[1,2,3]}"#),
        ("query($v:Int){mu(v:$v) opt(v:$v) def}", r#"{"v":null}"#),
        ("query($v:JSON!){j(v:$v) one(v:{a:1})}", r#"{"v":{"k":[1,2,{"z":null}],"s":"t"}}"#),
        ("query Q($x:Int=1 @skip(if:false)){a:i(v:$x) ...F ...on Query{opt}} fragment F on Query{nest{a{a{v}}} __typename}", "{}"),
        ("mutation($f:Upload!){upload(file:$f)}", r#"{"f":null}"#),
        ("mutation($f:[Upload!]!,$g:Upload){uploads(files:$f) upOpt(file:$g)}", r#"{"f":[],"g":null}"#),
        ("mutation($i:UpIn!){upIn(input:$i) set(v:1)}", r#"{"i":{"file":null,"note":"n"}}"#),
        ("subscription($n:Int!){ticks(n:$n)}", r#"{"n":2}"#),
        ("{s(v:\"\\u00e9\\n\\\"q\\\" \\\\ \\/\") b:s(v:\"\"\"block \\\"\"\" \"\"\")}", "{}"),
        ("{__schema{types{name fields{name args{name type{name kind ofType{name}}}}}} __type(name:\"Inp\"){inputFields{name defaultValue}}}", "{}"),
    ]
}

const TOKENS: &[&str] = &[
    "{", "}", "(", ")", "[", "]", ":", "!", "$", "=", "@", "...", "on", "query", "mutation", "subscription", "fragment", "null", "true", "false", "\"", "\"\"\"", "\\", "\\u",
    "\\uD800", "\\u00", "#", ",", "\u{feff}", "\r", "\n", "1", "-", "-0", "0.", "1e", "1e400", "99999999999999999999999999999", "1.7976931348623157e309", "-9223372036854775809",
    "$v", "v", "i", "Inp", "Upload", "RED", "__typename", "@skip(if:true)", "@include(if:$v)", "\u{0}", "\u{1F600}", " ",
];

fn nested(open: &str, close: &str, d: usize, core: &str) -> String {
    format!("{}{}{}", open.repeat(d), core, close.repeat(d))
}

/// grammar-aware and byte-level mutations of a document
fn mutate_doc(r: &mut Rng, doc: &str) -> String {
    let chars: Vec<char> = doc.chars().collect();
    let pos = |r: &mut Rng| if chars.is_empty() { 0 } else { r.below(chars.len() + 1) };
    let cut = |a: usize, b: usize| -> (String, String, String) { (chars[..a].iter().collect(), chars[a..b].iter().collect(), chars[b..].iter().collect()) };
    match r.below(12) {
        0 => {
            // insert a token
            let p = pos(r);
            let (a, _, c) = cut(p, p);
            format!("{a}{}{c}", r.pick(TOKENS))
        }
        1 => {
            // delete a slice
            let p = pos(r);
            let q = (p + r.below(4)).min(chars.len());
            let (a, _, c) = cut(p, q);
            format!("{a}{c}")
        }
        2 => {
            // duplicate a slice
            let p = pos(r);
            let q = (p + r.below(8)).min(chars.len());
            let (a, b, c) = cut(p, q);
            format!("{a}{b}{b}{c}")
        }
        3 => {
            // truncate
            let p = pos(r);
            chars[..p].iter().collect()
        }
        4 => {
            // byte-level: flip / insert / delete raw bytes, then lossy decode
            let mut b = doc.as_bytes().to_vec();
            for _ in 0..1 + r.below(3) {
                if b.is_empty() {
                    break;
                }
                let i = r.below(b.len());
                match r.below(3) {
                    0 => b[i] ^= 1 << r.below(8),
                    1 => b.insert(i, r.below(256) as u8),
                    _ => {
                        b.remove(i);
                    }
                }
            }
            String::from_utf8_lossy(&b).into_owned()
        }
        5 => {
            // deep nesting up to a depth that is safe in-process
            let d = [1, 2, 31, 32, 33, 63, 64, 65, 66, 100][r.below(10)];
            match r.below(6) {
                0 => format!("{{li(v:{})}}", nested("[", "]", d, "1")),
                1 => format!("{{nest{}}}", nested("{a", "}", d, "{v}")),
                2 => format!("{{j(v:{})}}", nested("{a:", "}", d, "1")),
                3 => format!("query($v:{}){{i(v:1)}}", nested("[", "]", d, "Int")),
                4 => format!("{{nest{}}}", nested("{...on Nest", "}", d, "{v}")),
                _ => format!("{{o(v:{})}}", nested("{e:", "}", d, "{x:1}")),
            }
        }
        6 => {
            // replace a digit run / name by a hostile token
            let p = pos(r);
            let q = (p + 1 + r.below(3)).min(chars.len());
            let (a, _, c) = cut(p.min(q), q);
            format!("{a}{}{c}", r.pick(TOKENS))
        }
        7 => {
            // many repetitions
            let p = pos(r);
            let (a, _, c) = cut(p, p);
            format!("{a}{}{c}", r.pick(TOKENS).repeat(1 + r.below(300)))
        }
        8 => format!("{doc} {doc}"),
        9 => {
            // swap two characters
            let mut cs = chars.clone();
            if cs.len() > 1 {
                let i = r.below(cs.len());
                let j = r.below(cs.len());
                cs.swap(i, j);
            }
            cs.into_iter().collect()
        }
        10 => (0..r.below(20)).map(|_| *r.pick(TOKENS)).collect::<Vec<_>>().join(if r.chance(1, 2) { " " } else { "" }),
        _ => doc.to_string(),
    }
}

const JTOKENS: &[&str] = &[
    "null", "true", "1", "-1", "1e400", "-1e400", "1E-400", "99999999999999999999999999999999", "-99999999999999999999999999999999", "18446744073709551616", "0.1e-9999999999",
    "\"\"", "\"\\ud800\"", "\"\\udc00\\ud800\"", "\"\\u0000\"", "\"\\ud83d\\ude00\"", "[]", "{}", "[[]]", "{\"a\":{}}", "[null]", "\"RED\"", "\"x\"", "1.5", "9007199254740993",
    "-9223372036854775809", "4294967296", "2147483648", "-2147483649", "256", "3.4028236e38", "1e39", "NaN", "Infinity", "{\"a\":1,\"a\":2}",
];

fn mutate_json(r: &mut Rng, j: &str) -> String {
    let chars: Vec<char> = j.chars().collect();
    let pos = |r: &mut Rng| if chars.is_empty() { 0 } else { r.below(chars.len() + 1) };
    match r.below(9) {
        0 => {
            // replace a scalar-looking slice by a hostile token
            let p = pos(r);
            let q = (p + r.below(4)).min(chars.len());
            format!("{}{}{}", chars[..p].iter().collect::<String>(), r.pick(JTOKENS), chars[q..].iter().collect::<String>())
        }
        1 => chars[..pos(r)].iter().collect(),
        2 => {
            let d = [1, 10, 64, 100, 127, 128, 129][r.below(7)];
            let v = if r.chance(1, 2) { nested("[", "]", d, "1") } else { nested("{\"a\":", "}", d, "1") };
            format!("{{\"v\":{v}}}")
        }
        3 => format!("{{\"v\":{}}}", r.pick(JTOKENS)),
        4 => {
            let mut b = j.as_bytes().to_vec();
            if !b.is_empty() {
                let i = r.below(b.len());
                b[i] ^= 1 << r.below(8);
            }
            String::from_utf8_lossy(&b).into_owned()
        }
        5 => format!("{{\"v\":[{}]}}", (0..r.below(5)).map(|_| *r.pick(JTOKENS)).collect::<Vec<_>>().join(",")),
        6 => format!("{{\"v\":{{\"a\":{},\"c\":{},\"d\":{},\"e\":{},\"f\":{}}}}}", r.pick(JTOKENS), r.pick(JTOKENS), r.pick(JTOKENS), r.pick(JTOKENS), r.pick(JTOKENS)),
        7 => r.pick(JTOKENS).to_string(),
        _ => j.to_string(),
    }
}

// --------------------------------------------------------------- websocket --
struct Frames {
    frames: Vec<Vec<u8>>,
    next: usize,
}
impl Stream for Frames {
    type Item = Vec<u8>;
    fn poll_next(mut self: Pin<&mut Self>, _cx: &mut TaskCx<'_>) -> Poll<Option<Vec<u8>>> {
        if self.next < self.frames.len() {
            self.next += 1;
            Poll::Ready(Some(self.frames[self.next - 1].clone()))
        } else {
            Poll::Pending // the connection stays open
        }
    }
}

/// feeds the frames, polls until the socket is quiet; number of output messages
fn ws_run(schema: &Sch, modern: bool, frames: Vec<Vec<u8>>) -> usize {
    let proto = if modern { WebSocketProtocols::GraphQLWS } else { WebSocketProtocols::SubscriptionsTransportWS };
    let mut ws = Box::pin(WebSocket::new(schema.clone(), Frames { frames, next: 0 }, proto));
    let waker = futures_util::task::noop_waker();
    let mut cx = TaskCx::from_waker(&waker);
    let mut n = 0;
    for _ in 0..400 {
        match ws.as_mut().poll_next(&mut cx) {
            Poll::Ready(Some(_)) => n += 1,
            Poll::Ready(None) => break,
            Poll::Pending => break,
        }
    }
    n
}

fn ws_frames(r: &mut Rng) -> Vec<String> {
    let ids = ["1", "2", "", "1", "é", "0"];
    let queries = ["subscription{ticks(n:2)}", "{i(v:1)}", "mutation{set(v:1)}", "subscription{ticks(n:-5)}", "{", "", "subscription($n:Int!){ticks(n:$n)}", "mutation($f:Upload!){upload(file:$f)}"];
    let mut f = vec![];
    let n = 1 + r.below(7);
    for k in 0..n {
        let id = r.pick(&ids);
        let q = r.pick(&queries);
        let s = match if k == 0 && r.chance(2, 3) { 0 } else { r.below(16) } {
            0 => r#"{"type":"connection_init"}"#.to_string(),
            1 => r#"{"type":"connection_init","payload":{"k":[1,2,{"a":null}]}}"#.to_string(),
            2 => format!(r#"{{"type":"start","id":{},"payload":{{"query":{}}}}}"#, jstr(id), jstr(q)),
            3 => format!(r#"{{"type":"subscribe","id":{},"payload":{{"query":{},"variables":{}}}}}"#, jstr(id), jstr(q), mutate_json(r, r#"{"n":2}"#)),
            4 => format!(r#"{{"type":"stop","id":{}}}"#, jstr(id)),
            5 => format!(r#"{{"type":"complete","id":{}}}"#, jstr(id)),
            6 => r#"{"type":"ping"}"#.to_string(),
            7 => r#"{"type":"pong","payload":{"x":1}}"#.to_string(),
            8 => r#"{"type":"connection_terminate"}"#.to_string(),
            9 => format!(r#"{{"type":"start","id":1,"payload":{{"query":{}}}}}"#, jstr(q)),
            10 => format!(r#"{{"type":"start","id":{}}}"#, jstr(id)),
            11 => format!(r#"{{"type":{},"id":{},"payload":{}}}"#, r.pick(JTOKENS), r.pick(JTOKENS), r.pick(JTOKENS)),
            12 => mutate_json(r, r#"{"type":"start","id":"1","payload":{"query":"subscription{ticks(n:2)}"}}"#),
            13 => r.pick(JTOKENS).to_string(),
            14 => format!(r#"{{"type":"subscribe","id":{},"payload":{{"query":{},"operationName":{},"extensions":{}}}}}"#, jstr(id), jstr(q), r.pick(JTOKENS), r.pick(JTOKENS)),
            _ => String::new(),
        };
        f.push(s);
    }
    f
}

// -------------------------------------------------------------- deep child --
fn deep_doc(kind: u32, d: usize) -> String {
    match kind {
        0 => format!("{{li(v:{})}}", nested("[", "]", d, "1")),
        1 => format!("{{nest{}}}", nested("{a", "}", d, "{v}")),
        2 => format!("{{j(v:{})}}", nested("{a:", "}", d, "1")),
        _ => format!("query($v:{}){{i(v:1)}}", nested("[", "]", d, "Int")),
    }
}

fn child_main(kind: u32, depth: usize) -> ! {
    let doc = deep_doc(kind, depth);
    let r = async_graphql_parser::parse_query(&doc);
    println!("{}", if r.is_ok() { 0 } else { 1 });
    std::process::exit(0)
}

/// (outcome class, description, seconds): 0 parsed, 1 rejected, 2 killed/crashed, 3 timeout
fn run_child(kind: u32, depth: usize, budget: Duration) -> (u32, String, f64) {
    use std::os::unix::process::ExitStatusExt;
    use std::process::{Command, Stdio};
    let exe = std::env::current_exe().expect("current_exe");
    let t0 = Instant::now();
    let mut ch = match Command::new(exe).arg("--child-deep").arg(kind.to_string()).arg(depth.to_string()).stdin(Stdio::null()).stdout(Stdio::piped()).stderr(Stdio::null()).spawn() {
        Ok(c) => c,
        Err(e) => return (0, format!("spawn failed: {e}"), 0.0),
    };
    loop {
        match ch.try_wait() {
            Ok(Some(st)) => {
                let secs = t0.elapsed().as_secs_f64();
                let mut out = String::new();
                if let Some(mut o) = ch.stdout.take() {
                    use std::io::Read;
                    let _ = o.read_to_string(&mut out);
                }
                if let Some(sig) = st.signal() {
                    return (2, format!("signal {sig}"), secs);
                }
                return match (st.code(), out.trim()) {
                    (Some(0), "0") => (0, "parsed".into(), secs),
                    (Some(0), "1") => (1, "rejected".into(), secs),
                    (c, o) => (2, format!("exit {c:?} output {o:?}"), secs),
                };
            }
            Ok(None) => {
                if t0.elapsed() > budget {
                    let _ = ch.kill();
                    let _ = ch.wait();
                    return (3, "timeout".into(), t0.elapsed().as_secs_f64());
                }
                std::thread::sleep(Duration::from_millis(5));
            }
            Err(e) => return (0, format!("wait failed: {e}"), 0.0),
        }
    }
}

// ---------------------------------------------------- fragment-cycle child --
fn dyn_schema() -> async_graphql::dynamic::Schema {
    use async_graphql::dynamic::{Field, FieldFuture, FieldValue, Object, Schema, TypeRef};
    let nest = Object::new("Nest")
        .field(Field::new("a", TypeRef::named_nn("Nest"), |_| FieldFuture::new(async { Ok(Some(FieldValue::owned_any(0u8))) })))
        .field(Field::new("v", TypeRef::named_nn(TypeRef::INT), |_| FieldFuture::new(async { Ok(Some(FieldValue::value(1))) })));
    let q = Object::new("Q")
        .field(Field::new("nest", TypeRef::named_nn("Nest"), |_| FieldFuture::new(async { Ok(Some(FieldValue::owned_any(0u8))) })))
        .field(Field::new("v", TypeRef::named_nn(TypeRef::INT), |_| FieldFuture::new(async { Ok(Some(FieldValue::value(1))) })));
    Schema::build("Q", None, None).register(nest).register(q).finish().expect("dynamic schema")
}

/// entry points: 0 Schema::execute (static), 1 dynamic::Schema::execute, 2 execute_batch, 3 execute_stream
const FRAG_ENTRIES: u32 = 4;

fn frag_exec(schema: &Sch, dynamic: &async_graphql::dynamic::Schema, entry: u32, doc: &str) -> u32 {
    use futures_util::StreamExt;
    let errs = match entry {
        0 => !block_on(schema.execute(Request::new(doc))).errors.is_empty(),
        1 => !block_on(dynamic.execute(Request::new(doc))).errors.is_empty(),
        2 => match block_on(schema.execute_batch(BatchRequest::Batch(vec![Request::new(doc), Request::new(doc)]))) {
            BatchResponse::Single(r) => !r.errors.is_empty(),
            BatchResponse::Batch(rs) => rs.iter().any(|r| !r.errors.is_empty()),
        },
        _ => block_on(schema.execute_stream(Request::new(doc)).collect::<Vec<_>>()).iter().any(|r| !r.errors.is_empty()),
    };
    errs as u32
}

/// child: one line per case of the file, `<entry>\t<json string of the document>`;
/// prints `<index> <class>` after each case (flushed), so that the parent knows
/// which case killed the process
fn child_exec_main(file: &str, start: usize) -> ! {
    use std::io::Write;
    let schema: Sch = Schema::build(Q, M, S).finish();
    let dynamic = dyn_schema();
    let text = std::fs::read_to_string(file).expect("case file");
    let out = std::io::stdout();
    for (i, line) in text.lines().enumerate().skip(start) {
        let (e, d) = line.split_once('\t').expect("tab");
        let doc: String = serde_json::from_str(d).expect("json");
        let c = frag_exec(&schema, &dynamic, e.parse().unwrap(), &doc);
        let mut o = out.lock();
        writeln!(o, "{i} {c}").unwrap();
        o.flush().unwrap();
    }
    std::process::exit(0)
}

/// run all cases in child processes; a case that kills the child (signal) is
/// class 2, one that does not answer within the budget is class 3; the child is
/// restarted after it
fn run_frag_cases(cases: &[(u32, String)], dir: &str, budget: Duration) -> Vec<(u32, String, f64)> {
    use std::io::{BufRead, BufReader};
    use std::os::unix::process::ExitStatusExt;
    use std::process::{Command, Stdio};
    use std::sync::mpsc;
    let file = format!("{dir}/c12_frag_cases.txt");
    let mut text = String::new();
    for (e, d) in cases {
        writeln!(text, "{e}\t{}", jstr(d)).unwrap();
    }
    std::fs::write(&file, text).expect("write case file");
    let exe = std::env::current_exe().expect("current_exe");
    let mut res: Vec<(u32, String, f64)> = Vec::new();
    while res.len() < cases.len() {
        let start = res.len();
        let mut ch = match Command::new(&exe).arg("--child-exec").arg(&file).arg(start.to_string()).stdin(Stdio::null()).stdout(Stdio::piped()).stderr(Stdio::null()).spawn() {
            Ok(c) => c,
            Err(e) => {
                res.push((3, format!("spawn failed: {e}"), 0.0));
                continue;
            }
        };
        let stdout = ch.stdout.take().unwrap();
        let (tx, rx) = mpsc::channel::<String>();
        std::thread::spawn(move || {
            for l in BufReader::new(stdout).lines().map_while(|l| l.ok()) {
                if tx.send(l).is_err() {
                    break;
                }
            }
        });
        loop {
            if res.len() == cases.len() {
                let _ = ch.wait();
                break;
            }
            let t0 = Instant::now();
            // the first case of a child also pays for building both schemas
            match rx.recv_timeout(budget) {
                Ok(l) => {
                    let mut it = l.split(' ');
                    let i: usize = it.next().and_then(|x| x.parse().ok()).unwrap_or(usize::MAX);
                    let c: u32 = it.next().and_then(|x| x.parse().ok()).unwrap_or(9);
                    if i == res.len() && c <= 1 {
                        res.push((c, ["answered", "answered with errors"][c as usize].to_string(), t0.elapsed().as_secs_f64()));
                    } else {
                        res.push((3, format!("protocol error: {l:?}"), 0.0));
                    }
                }
                Err(mpsc::RecvTimeoutError::Timeout) => {
                    let _ = ch.kill();
                    let _ = ch.wait();
                    res.push((3, "no answer within the budget (killed)".into(), t0.elapsed().as_secs_f64()));
                    break;
                }
                Err(mpsc::RecvTimeoutError::Disconnected) => {
                    let st = ch.wait().ok();
                    let what = match st.and_then(|s| s.signal()) {
                        Some(sig) => format!("child killed by signal {sig}"),
                        None => format!("child exited {:?} without answering", st.and_then(|s| s.code())),
                    };
                    res.push((2, what, t0.elapsed().as_secs_f64()));
                    break;
                }
            }
        }
    }
    let _ = std::fs::remove_file(&file);
    res
}

/// documents whose fragment graph matters to the recursion-depth walk
fn frag_docs(r: &mut Rng, n: usize) -> Vec<(String, bool)> {
    let mut v: Vec<(String, bool)> = Vec::new();
    let mut add = |s: String| v.push((s, true));
    // reachable cycles
    add("{...f} fragment f on Q{...f}".into());
    add("{...f} fragment f on Q{__typename ...f}".into());
    add("{...a} fragment a on Q{...b} fragment b on Q{...a}".into());
    add("{...a} fragment a on Q{...b} fragment b on Q{...c} fragment c on Q{...a}".into());
    add("{...f} fragment f on Q{...{...f}}".into());
    add("{...f} fragment f on Q{... on Q{...f}}".into());
    add("{... on Q{...f}} fragment f on Q{...{... on Q{...{...f}}}}".into());
    add("{...f @skip(if:false)} fragment f on Q{...f @include(if:true)}".into());
    add("{...f} fragment f on Q{...@include(if:true){...f}}".into());
    add("{nest{...g}} fragment g on Nest{...g}".into());
    add("{nest{a{...g}}} fragment g on Nest{v ...h} fragment h on Nest{... on Nest{...g}}".into());
    add("query A{...f} query B{v: __typename} fragment f on Q{...f}".into());
    add("{__typename ...f ...f} fragment f on Q{...f ...f}".into());
    // controls: cycle through a field, unreachable cycles, undefined fragment
    add("{nest{...g}} fragment g on Nest{a{...g}}".into());
    add("{nest{...g}} fragment g on Nest{v a{...h}} fragment h on Nest{a{...g}}".into());
    add("{__typename} fragment f on Q{...f}".into());
    add("{__typename} fragment a on Q{...b} fragment b on Q{...a}".into());
    add("{...nope}".into());
    add("{...f} fragment f on Q{...nope}".into());
    // acyclic chains around the default limit (32): spreads, inline fragments, fields, mixed
    for k in [1usize, 2, 30, 31, 32, 33, 34, 40] {
        let mut d = String::from("{...f1}");
        for i in 1..=k {
            if i < k {
                write!(d, " fragment f{i} on Q{{...f{}}}", i + 1).unwrap();
            } else {
                write!(d, " fragment f{i} on Q{{__typename}}").unwrap();
            }
        }
        add(d);
        add(format!("{}__typename{}", "{...".repeat(k) + "{", "}".repeat(k + 1)));
        add(format!("{{nest{}}}", nested("{a", "}", k.saturating_sub(1), "{v}")));
        let mut m = String::from("{");
        for i in 0..k {
            m.push_str(if i % 2 == 0 { "...{" } else { "... on Q{" });
        }
        m.push_str("__typename");
        m.push_str(&"}".repeat(k + 1));
        add(m);
    }
    // random small fragment graphs (fan-out <= 2, so the walk stays small)
    for _ in 0..n {
        let nf = 1 + r.below(4);
        let mut d = String::from("{");
        d.push_str(*r.pick(&["...f0", "...{...f0}", "__typename ...f0", "... on Q{...f0}"]));
        d.push('}');
        for i in 0..nf {
            write!(d, " fragment f{i} on Q{{").unwrap();
            for _ in 0..1 + r.below(2) {
                let t = r.below(nf + 1);
                match r.below(5) {
                    0 => d.push_str("__typename "),
                    1 => write!(d, "...{{...f{t}}} ").unwrap(),
                    2 => write!(d, "... on Q{{...f{t}}} ").unwrap(),
                    3 => write!(d, "...f{t} @skip(if:false) ").unwrap(),
                    _ => write!(d, "...f{t} ").unwrap(),
                }
            }
            d.push('}');
        }
        v.push((d, false));
    }
    v
}

// -------------------------------------------------------------------- main --
struct Expl {
    out: String,
    max_ms: Vec<(u32, f64, String)>,
    counts: std::collections::BTreeMap<(u32, u32), usize>,
}

impl Expl {
    fn case(&mut self, entry: u32, name: &str, text: &str, f: impl FnOnce() -> u32) {
        let t0 = Instant::now();
        let c = f();
        let ms = t0.elapsed().as_secs_f64() * 1000.0;
        match self.max_ms.iter_mut().find(|e| e.0 == entry) {
            Some(e) => {
                if ms > e.1 {
                    e.1 = ms;
                    e.2 = text.chars().take(80).collect();
                }
            }
            None => self.max_ms.push((entry, ms, text.chars().take(80).collect())),
        }
        *self.counts.entry((entry, c)).or_insert(0) += 1;
        let short: String = text.chars().take(400).collect();
        writeln!(
            self.out,
            "EXPL\t({entry}%N, {c}%N)\t{{\"text\":{},\"impl\":\"{}\",\"nontrivial\":{},\"exploration\":true}}",
            jstr(&format!("{name}: {short}")),
            ["ok", "error", "PANIC"][c as usize],
            c != 1
        )
        .unwrap();
    }
}

fn main() {
    let argv: Vec<String> = std::env::args().collect();
    if argv.get(1).map(String::as_str) == Some("--child-deep") {
        child_main(argv[2].parse().unwrap(), argv[3].parse().unwrap());
    }
    if argv.get(1).map(String::as_str) == Some("--child-exec") {
        child_exec_main(&argv[2], argv[3].parse().unwrap());
    }
    let a = parse_args();
    let thorough = a.n >= 2000;
    let mut rng = Rng::new(a.seed);
    let mut out = String::new();
    let schema: Sch = Schema::build(Q, M, S).finish();

    // ---- USZ: str::parse::<usize>()
    for s in marker_suffixes(&mut rng, 40 + a.n / 2) {
        let got = s.parse::<usize>().ok();
        writeln!(out, "USZ\t({}, {})\t{{\"text\":{},\"impl\":{},\"nontrivial\":{}}}", g_str(&s), g_opt(got, |n| g_z(n as i128)), jstr(&s), jstr(&format!("{got:?}")), got.is_some()).unwrap();
    }

    // ---- UPARSE: Upload::parse directly
    {
        let mut vals: Vec<Option<serde_json::Value>> = vec![None, Some(serde_json::Value::Null), Some(serde_json::json!(1)), Some(serde_json::json!(true)), Some(serde_json::json!([1])), Some(serde_json::json!({"a":1}))];
        for s in marker_suffixes(&mut rng, 40 + a.n / 2) {
            vals.push(Some(serde_json::Value::String(format!("{PREFIX}{s}"))));
        }
        for s in near_markers() {
            vals.push(Some(serde_json::Value::String(s)));
        }
        for v in vals {
            let cv: Option<Value> = v.clone().map(|j| Value::from_json(j).unwrap());
            let res = catch(AssertUnwindSafe(|| <Upload as InputType>::parse(cv)));
            let g = match &res {
                None => "Panic".to_string(),
                Some(Ok(u)) => format!("(Ok {})", g_z(u.0 as i128)),
                Some(Err(_)) => "(Err 1%N)".to_string(),
            };
            let show = match &res {
                None => "PANIC".to_string(),
                Some(Ok(u)) => format!("Upload({})", u.0),
                Some(Err(_)) => "error".to_string(),
            };
            writeln!(out, "UPARSE\t({}, {})\t{{\"text\":{},\"impl\":{},\"nontrivial\":{}}}", g_opt(v.as_ref(), g_uval), g, jstr(&format!("Upload::parse({v:?})")), jstr(&show), res.is_none() || matches!(res, Some(Ok(_)))).unwrap();
        }
    }

    // ---- UEXEC: mutations with Upload arguments through Schema::execute
    {
        let mut vals: Vec<serde_json::Value> = vec![serde_json::Value::Null, serde_json::json!(1), serde_json::json!(false), serde_json::json!(["x"]), serde_json::json!({"a":1}), serde_json::json!(1.5)];
        // the recorded witnesses first
        vals.insert(0, serde_json::Value::String(format!("{PREFIX}x")));
        vals.insert(1, serde_json::Value::String(format!("{PREFIX}0")));
        for s in marker_suffixes(&mut rng, 40 + a.n / 3) {
            vals.push(serde_json::Value::String(format!("{PREFIX}{s}")));
        }
        for s in near_markers() {
            vals.push(serde_json::Value::String(s));
        }
        for (k, v) in vals.iter().enumerate() {
            let nup = if k < 2 { 0 } else { rng.below(4) };
            // how the value reaches the resolver
            let mode = if k < 2 { 0 } else { rng.below(5) };
            let literal_ok = matches!(v, serde_json::Value::String(s) if s.chars().all(|c| c != '"' && c != '\\' && c >= ' ' && c != '\u{feff}'));
            let (query, vars): (String, serde_json::Value) = match mode {
                1 if literal_ok => (format!("mutation{{upload(file:{})}}", serde_json::to_string(v).unwrap()), serde_json::json!({})),
                2 => ("mutation($f:Upload!){uploads(files:[$f])}".into(), serde_json::json!({ "f": v })),
                3 => ("mutation($f:Upload!){upIn(input:{file:$f})}".into(), serde_json::json!({ "f": v })),
                4 if !v.is_null() => ("mutation($f:Upload){upOpt(file:$f)}".into(), serde_json::json!({ "f": v })),
                _ => ("mutation($f:Upload!){upload(file:$f)}".into(), serde_json::json!({ "f": v })),
            };
            let mut req = Request::new(query.clone()).variables(Variables::from_json(vars.clone()));
            for i in 0..nup {
                req.uploads.push(upload_value(i));
            }
            let c = exec_class(&schema, req);
            writeln!(
                out,
                "UEXEC\t({}, {}, {c}%N)\t{{\"text\":{},\"impl\":\"{}\",\"nontrivial\":{}}}",
                g_z(nup as i128),
                g_uval(v),
                jstr(&format!("{query} variables {vars} with {nup} uploaded file(s)")),
                ["data", "errors", "PANIC"][c as usize],
                c != 1
            )
            .unwrap();
        }
    }

    // ---- SETUP: Request::set_upload
    for k in 0..(30 + a.n / 2) {
        let mut vars = gen_members12(&mut rng, 3);
        if k == 0 {
            vars = vec![("file".into(), VV::Leaf(0)), ("files".into(), VV::List(vec![VV::Leaf(0), VV::Obj(vec![("content".into(), VV::Leaf(0))])]))];
        }
        vars.sort_by(|a, b| a.0.cmp(&b.0));
        let paths: Vec<String> = if k == 0 { vec!["variables.file".into(), "variables.files.1.content".into(), "variables.files.2".into(), "variables.files.+0".into()] } else { (0..1 + rng.below(4)).map(|_| gen_path(&mut rng, &vars)).collect() };
        let mut req = Request::new("{a}");
        let mut vm = Variables::default();
        for (k, v) in &vars {
            vm.insert(Name::new(k), vv_to_value(v));
        }
        req.variables = vm;
        let res = catch(AssertUnwindSafe(|| {
            for (i, p) in paths.iter().enumerate() {
                req.set_upload(p, upload_value(i));
            }
            req
        }));
        let g = match &res {
            None => "Panic".to_string(),
            Some(rq) => {
                let m: Vec<(String, VV)> = rq.variables.iter().map(|(k, v)| (k.to_string(), value_to_vv(v))).collect();
                format!("(Ok ({}, {}))", g_members_vv(&m), g_z(rq.uploads.len() as i128))
            }
        };
        let nups = res.as_ref().map(|r| r.uploads.len());
        writeln!(
            out,
            "SETUP\t({}, {}, {})\t{{\"text\":{},\"impl\":{},\"nontrivial\":{}}}",
            g_members_vv(&vars),
            g_list(paths.iter(), |p| g_str(p)),
            g,
            jstr(&format!("{vars:?} set_upload {paths:?}")),
            jstr(&format!("uploads={nups:?}")),
            nups.unwrap_or(1) > 0
        )
        .unwrap();
    }

    // ---- LIM: the limit product
    {
        let chk = cfg!(debug_assertions);
        let mut pairs: Vec<(usize, usize)> = vec![(1, 1), (0, 5), (10, 10), (usize::MAX, 1), (usize::MAX, 2), (1 << 32, 1 << 32), (1 << 32, (1 << 32) - 1), (usize::MAX, usize::MAX), (1 << 63, 2), ((1 << 63) - 1, 2), (3, usize::MAX / 3), (3, usize::MAX / 3 + 1), (1 << 20, 1 << 20)];
        for _ in 0..a.n / 20 {
            let sh1 = rng.below(64);
            let sh2 = rng.below(64);
            pairs.push(((rng.next() >> sh1) as usize, (rng.next() >> sh2) as usize));
        }
        let body = multipart_body("b", &[Part { name: Some("operations".into()), filename: None, content_type: None, body: b"{\"query\":\"{a}\"}".to_vec() }, Part { name: Some("map".into()), filename: None, content_type: None, body: b"{}".to_vec() }]);
        for (x, y) in pairs {
            let opts = MultipartOptions::default().max_file_size(x).max_num_files(y);
            let b2 = body.clone();
            let res = catch(AssertUnwindSafe(|| block_on(receive_batch_body(Some("multipart/form-data; boundary=b"), &b2[..], opts))));
            let c = class(&res);
            writeln!(out, "LIM\t({}, {}, {}, {c}%N)\t{{\"text\":{},\"impl\":\"{}\",\"nontrivial\":{}}}", g_bool(chk), g_z(x as i128), g_z(y as i128), jstr(&format!("max_file_size={x} max_num_files={y} overflow_checks={chk}")), ["ok", "error", "PANIC"][c as usize], c == 2).unwrap();
        }
    }

    // ---- STR: string literals
    {
        let mut cs: Vec<String> = [
            "", "abc", "\\n\\b\\u2a1A", "\\\"\\\\", "\\", "a\\", "\\x", "\\u", "\\u1", "\\u12", "\\u123", "\\u1234", "\\uD800", "\\ud800", "\\uDFFF", "\\uD7FF", "\\uE000", "\\udBff", "\\uDc00",
            "\\uD83D\\uDE00", "\\u00e9", "\\uFFFF", "\\u0000", "\\uGGGG", "\\u12G4", "\\u+123", "\\u 123", "\\U0041", "é\u{1F600}", "\u{feff}", "a\nb", "a\rb", "\"", "\"\"", "\\/", "\\b\\f\\n\\r\\t",
            "\\a", "\\0", "\\'", "\\u１２３４", "\\\\u12", "\\\\\\", "tab\there", "\\ud", "\\uD", "\\ud7ff", "\\u00D8", "\\ude", "x\\uD8",
        ]
        .iter()
        .map(|s| s.to_string())
        .collect();
        let alpha: Vec<char> = "\\\\\\uuudD89aAfF0123gn\"/ tbr\n".chars().collect();
        while cs.len() < 50 + a.n {
            cs.push(rand_str(&mut rng, &alpha, 14));
        }
        for c in cs {
            let doc = format!("{{f(a:\"{c}\")}}");
            let res = catch(AssertUnwindSafe(|| async_graphql_parser::parse_query(&doc)));
            let got: Option<Option<String>> = res.map(|r| {
                r.ok().and_then(|d| {
                    let op = d.operations.iter().next().map(|(_, o)| o.node.clone())?;
                    match &op.selection_set.node.items.first()?.node {
                        async_graphql_parser::types::Selection::Field(f) => match &f.node.arguments.first()?.1.node {
                            async_graphql_value::Value::String(s) if f.node.arguments.len() == 1 && op.selection_set.node.items.len() == 1 => Some(s.clone()),
                            _ => None,
                        },
                        _ => None,
                    }
                })
            });
            let g = match &got {
                None => "Panic".to_string(),
                Some(Some(s)) => format!("(Ok {})", g_str(s)),
                Some(None) => "(Err 1%N)".to_string(),
            };
            writeln!(out, "STR\t({}, {})\t{{\"text\":{},\"impl\":{},\"nontrivial\":{}}}", g_str(&c), g, jstr(&doc), jstr(&format!("{got:?}")), matches!(got, Some(Some(_)))).unwrap();
        }
    }

    // ---- TY: Type::new
    {
        fn gen_ty(r: &mut Rng, d: usize) -> String {
            let names = ["Int", "String", "_x", "A1", "a", "Upload", "__T_9"];
            let base = if d == 0 || r.chance(1, 2) { r.pick(&names).to_string() } else { format!("[{}]", gen_ty(r, d - 1)) };
            if r.chance(1, 2) { format!("{base}!") } else { base }
        }
        fn g_ty(t: &async_graphql_parser::types::Type) -> String {
            match &t.base {
                async_graphql_parser::types::BaseType::Named(n) => format!("(TNamed {} {})", g_str(n), g_bool(t.nullable)),
                async_graphql_parser::types::BaseType::List(i) => format!("(TList {} {})", g_ty(i), g_bool(t.nullable)),
            }
        }
        let mut ts: Vec<String> = ["", "!", "!!", "[", "]", "[]", "[!]", "[]!", "[[]]", "Int", "Int!", "Int!!", "[Int]", "[Int!]!", "[[Int]]", "[Int", "Int]", "[Int]]", "[[Int]", " Int", "[ Int ]", "[Int]!x", "1", "[1]", "é", "[é!]!", "a b", "[!", "!]", "![", "[a]b]", "[[a]!]!"].iter().map(|s| s.to_string()).collect();
        let alpha: Vec<char> = "[[]]!!aZ_9 ".chars().collect();
        while ts.len() < 40 + a.n {
            let t = if rng.chance(2, 3) { gen_ty(&mut rng, 4) } else { rand_str(&mut rng, &alpha, 8) };
            let t = if rng.chance(1, 4) { mutate_doc(&mut rng, &t) } else { t };
            if t.chars().count() <= 200 {
                ts.push(t);
            }
        }
        for t in ts {
            let res = catch(AssertUnwindSafe(|| async_graphql_parser::types::Type::new(&t)));
            let g = match &res {
                None => "Panic".to_string(),
                Some(Some(ty)) => format!("(Ok {})", g_ty(ty)),
                Some(None) => "(Err 1%N)".to_string(),
            };
            writeln!(out, "TY\t({}, {})\t{{\"text\":{},\"impl\":{},\"nontrivial\":{}}}", g_str(&t), g, jstr(&t), jstr(&format!("{:?}", res.as_ref().map(|o| o.as_ref().map(|t| t.to_string())))), matches!(res, Some(Some(_)))).unwrap();
        }
    }

    // ---- DEEP: child processes
    {
        let budget = Duration::from_secs(30);
        let mut runs = 0;
        let deep = |kind: u32, depth: usize, out: &mut String, runs: &mut usize| -> u32 {
            *runs += 1;
            let (c, what, secs) = run_child(kind, depth, budget);
            writeln!(
                out,
                "DEEP\t({kind}%N, {}, {c}%N)\t{{\"text\":{},\"impl\":{},\"nontrivial\":{},\"seconds\":{secs:.3}}}",
                g_z(depth as i128),
                jstr(&format!("{} nested {depth} deep, parsed in a child process (main-thread stack)", ["list value {li(v:[[..]])}", "selection sets {nest{a{a..}}}", "object value {j(v:{a:{a:..}})}", "list type query($v:[[..Int..]])"][kind as usize])),
                jstr(&what),
                c >= 2
            )
            .unwrap();
            c
        };
        for kind in 0..4u32 {
            deep(kind, 200, &mut out, &mut runs);
            deep(kind, 200_000, &mut out, &mut runs);
        }
        // roughly the smallest crashing depth of the list-value family (all kinds in the thorough tier)
        let kinds: &[u32] = if thorough { &[0, 1, 2, 3] } else { &[0] };
        for &kind in kinds {
            let (mut lo, mut hi) = (200usize, 200_000usize);
            let mut hi_crashes = true;
            let ratio = if thorough { 1.1 } else { 1.6 };
            while hi_crashes && (hi as f64) / (lo as f64) > ratio {
                let mid = ((lo as f64) * (hi as f64)).sqrt() as usize;
                if deep(kind, mid, &mut out, &mut runs) >= 2 {
                    hi = mid;
                } else {
                    lo = mid;
                }
                if runs > 60 {
                    hi_crashes = false;
                }
            }
            writeln!(out, "DEEPMIN\t{kind}\t{{\"kind\":{kind},\"largest_depth_seen_ok\":{lo},\"smallest_depth_seen_crashing\":{hi},\"stack\":\"child main thread (ulimit -s)\"}}").unwrap();
        }
    }

    // ---- FRAG: fragment cycles / spread chains, executed in child processes
    {
        let docs = frag_docs(&mut rng, if thorough { 120 } else { 16 });
        let mut cases: Vec<(u32, String)> = Vec::new();
        let mut terms: Vec<String> = Vec::new();
        for (i, (d, fixed)) in docs.iter().enumerate() {
            // the walk is modelled on the parsed document (parsing these small documents is safe in-process)
            let Ok(parsed) = async_graphql_parser::parse_query(d) else { continue };
            let mut it = Interner::new();
            let g = g_document(&mut it, &parsed);
            // fixed corpus through every entry point, random documents through one each
            let entries: Vec<u32> = if *fixed { (0..FRAG_ENTRIES).collect() } else { vec![(i as u32) % FRAG_ENTRIES] };
            for e in entries {
                // the dynamic schema has no `i`/`l`.. fields but the same Q/Nest shape
                cases.push((e, d.clone()));
                terms.push(g.clone());
            }
        }
        std::fs::create_dir_all(&a.out).unwrap();
        let res = run_frag_cases(&cases, &a.out, Duration::from_secs(20));
        for (((e, d), g), (c, what, secs)) in cases.iter().zip(terms.iter()).zip(res.iter()) {
            writeln!(
                out,
                "FRAG\t({g}, {e}%N, {c}%N)\t{{\"text\":{},\"impl\":{},\"nontrivial\":{},\"seconds\":{secs:.3}}}",
                jstr(&format!("{}: {d}", ["Schema::execute", "dynamic::Schema::execute", "Schema::execute_batch", "Schema::execute_stream"][*e as usize])),
                jstr(what),
                *c != 0
            )
            .unwrap();
        }
    }

    // ---- EXPL: exploration (no model)
    let mut ex = Expl { out: String::new(), max_ms: vec![], counts: Default::default() };
    let docs = base_docs();
    let n = a.n;
    // 1/2: documents through parse_query and Schema::execute
    for k in 0..(docs.len() + 3 * n) {
        let (d, v) = docs[k % docs.len()];
        let mut doc = d.to_string();
        if k >= docs.len() {
            for _ in 0..1 + rng.below(3) {
                doc = mutate_doc(&mut rng, &doc);
            }
        }
        ex.case(1, "parse_query", &doc, || match catch(AssertUnwindSafe(|| async_graphql_parser::parse_query(&doc))) {
            None => 2,
            Some(Ok(_)) => 0,
            Some(Err(_)) => 1,
        });
        let vars: serde_json::Value = serde_json::from_str(v).unwrap();
        let opname = match rng.below(6) {
            0 => Some("Q".to_string()),
            1 => Some(String::new()),
            2 => Some(rand_str(&mut rng, &['Q', 'a', '"', '\\', '\n'], 5)),
            _ => None,
        };
        let text = format!("{doc} variables {v} operationName {opname:?}");
        ex.case(2, "Schema::execute", &text, || {
            let mut req = Request::new(doc.clone()).variables(Variables::from_json(vars));
            if let Some(o) = opname {
                req = req.operation_name(o);
            }
            exec_class(&schema, req)
        });
        if k % 5 == 0 {
            ex.case(9, "parse_schema", &doc, || match catch(AssertUnwindSafe(|| async_graphql_parser::parse_schema(&doc))) {
                None => 2,
                Some(Ok(_)) => 0,
                Some(Err(_)) => 1,
            });
        }
    }
    // 3: variables / extensions / whole request as JSON text -> Request -> execute
    for k in 0..(2 * n) {
        let (d, v) = docs[k % docs.len()];
        let vj = mutate_json(&mut rng, v);
        let ext = if rng.chance(1, 2) { mutate_json(&mut rng, r#"{"persistedQuery":{"version":1,"sha256Hash":"abc"}}"#) } else { "{}".to_string() };
        let opn = if rng.chance(1, 3) { rng.pick(JTOKENS).to_string() } else { "null".to_string() };
        let body = format!(r#"{{"query":{},"operationName":{},"variables":{},"extensions":{}}}"#, jstr(d), opn, vj, ext);
        ex.case(3, "Request JSON + execute", &body, || match catch(AssertUnwindSafe(|| serde_json::from_str::<Request>(&body))) {
            None => 2,
            Some(Err(_)) => 1,
            Some(Ok(req)) => exec_class(&schema, req),
        });
        if k % 2 == 0 {
            ex.case(5, "receive_batch_json", &body, || class(&catch(AssertUnwindSafe(|| block_on(receive_batch_json(body.as_bytes()))))));
            let b2 = mutate_json(&mut rng, &body);
            ex.case(5, "receive_json", &b2, || class(&catch(AssertUnwindSafe(|| block_on(receive_json(b2.as_bytes()))))));
            let b3 = format!("[{body},{b2}]");
            ex.case(5, "receive_body(batch)", &b3, || class(&catch(AssertUnwindSafe(|| block_on(receive_body(Some("application/json"), b3.as_bytes(), MultipartOptions::default()))))));
        }
    }
    // 4: query strings
    for k in 0..n {
        let (d, v) = docs[k % docs.len()];
        let mut qs = String::new();
        let enc = |s: &str| -> String { s.bytes().map(|b| if b.is_ascii_alphanumeric() { (b as char).to_string() } else { format!("%{b:02X}") }).collect() };
        match rng.below(8) {
            0 => write!(qs, "query={}&variables={}", enc(d), enc(&mutate_json(&mut rng, v))).unwrap(),
            1 => write!(qs, "query={}&extensions={}&operationName={}", enc(&mutate_doc(&mut rng, d)), enc(&mutate_json(&mut rng, "{}")), enc("Q")).unwrap(),
            2 => write!(qs, "query=%FF%FE&variables=%7B").unwrap(),
            3 => write!(qs, "{}", mutate_doc(&mut rng, &format!("query={}&variables={}", enc(d), enc(v)))).unwrap(),
            4 => write!(qs, "query={}&query={}&variables=1&variables=2", enc(d), enc(d)).unwrap(),
            5 => write!(qs, "variables={}", enc(&nested("[", "]", 200, "1"))).unwrap(),
            6 => write!(qs, "{}", "&=%".repeat(rng.below(50))).unwrap(),
            _ => write!(qs, "query={}&variables={}", enc(d), enc(v)).unwrap(),
        }
        ex.case(4, "parse_query_string", &qs, || match catch(AssertUnwindSafe(|| parse_query_string(&qs))) {
            None => 2,
            Some(Err(_)) => 1,
            Some(Ok(req)) => {
                if k % 3 == 0 {
                    exec_class(&schema, req)
                } else {
                    0
                }
            }
        });
    }
    // 6: multipart bodies (genuine uploads, forged maps, missing files, truncation), then executed
    for k in 0..n {
        let boundary = format!("----agv{}", rng.below(1_000_000));
        let nfiles = rng.below(3);
        let ops_kind = rng.below(4);
        let ops = match ops_kind {
            0 => r#"{"query":"mutation($f:Upload!){upload(file:$f)}","variables":{"f":null}}"#.to_string(),
            1 => r#"{"query":"mutation($f:[Upload!]!){uploads(files:$f)}","variables":{"f":[null,null]}}"#.to_string(),
            2 => r#"[{"query":"mutation($f:Upload!){upload(file:$f)}","variables":{"f":null}},{"query":"{i(v:1)}"}]"#.to_string(),
            _ => mutate_json(&mut rng, r#"{"query":"mutation($i:UpIn!){upIn(input:$i)}","variables":{"i":{"file":null}}}"#),
        };
        let map = match rng.below(9) {
            0 => r#"{"0":["variables.f"]}"#.to_string(),
            1 => r#"{"0":["variables.f.0"],"1":["variables.f.1"]}"#.to_string(),
            2 => r#"{"0":["0.variables.f"]}"#.to_string(),
            3 => r#"{"0":["variables.f","variables.f","variables.nope","x",""],"9":["variables.f"]}"#.to_string(),
            4 => r#"{"0":["variables.f.99999999999"],"1":["variables.i.file"]}"#.to_string(),
            5 => mutate_json(&mut rng, r#"{"0":["variables.f"]}"#),
            6 => r#"{"0":["18446744073709551616.variables.f","-1.variables.f","1.variables.f","0."]}"#.to_string(),
            7 => r#"{}"#.to_string(),
            _ => r#"{"0":["variables.i.file"]}"#.to_string(),
        };
        let mut parts = vec![];
        let order = rng.below(4);
        if order != 3 {
            parts.push(Part { name: Some("operations".into()), filename: None, content_type: None, body: ops.clone().into_bytes() });
        }
        if order != 2 {
            parts.push(Part { name: Some("map".into()), filename: None, content_type: None, body: map.clone().into_bytes() });
        }
        for i in 0..nfiles {
            parts.push(Part { name: Some(i.to_string()), filename: if rng.chance(5, 6) { Some(format!("f{i}.txt")) } else { None }, content_type: Some("text/plain".into()), body: vec![b'x'; rng.below(40)] });
        }
        if order == 1 {
            parts.reverse();
        }
        let mut body = multipart_body(&boundary, &parts);
        match rng.below(6) {
            0 => {
                let cut = rng.below(body.len() + 1);
                body.truncate(cut);
            }
            1 => {
                if !body.is_empty() {
                    let i = rng.below(body.len());
                    body[i] ^= 1 << rng.below(8);
                }
            }
            _ => {}
        }
        let opts = match rng.below(4) {
            0 => MultipartOptions::default().max_file_size(rng.below(30)),
            1 => MultipartOptions::default().max_num_files(rng.below(3)),
            2 => MultipartOptions::default().max_file_size(rng.below(30)).max_num_files(rng.below(3)),
            _ => MultipartOptions::default(),
        };
        let ct = if rng.chance(1, 12) { "multipart/form-data".to_string() } else { format!("multipart/form-data; boundary={boundary}") };
        let text = format!("multipart operations {ops} map {map} files {nfiles} ({} bytes)", body.len());
        ex.case(6, "receive_batch_body(multipart) + execute", &text, || match catch(AssertUnwindSafe(|| block_on(receive_batch_body(Some(ct), &body[..], opts)))) {
            None => 2,
            Some(Err(_)) => 1,
            Some(Ok(BatchRequest::Single(req))) => exec_class(&schema, req),
            Some(Ok(br)) => match catch(AssertUnwindSafe(|| block_on(schema.execute_batch(br)))) {
                None => 2,
                Some(resp) => {
                    if resp.is_ok() {
                        0
                    } else {
                        1
                    }
                }
            },
        });
    }
    // 7/8: websocket frames, both protocols
    for k in 0..n {
        let frames = ws_frames(&mut rng);
        let modern = k % 2 == 0;
        let text = format!("{} frames {frames:?}", if modern { "graphql-transport-ws" } else { "graphql-ws" });
        let fr: Vec<Vec<u8>> = frames
            .iter()
            .map(|s| {
                let mut b = s.clone().into_bytes();
                if rng.chance(1, 20) && !b.is_empty() {
                    let i = rng.below(b.len());
                    b[i] = 0xff;
                }
                b
            })
            .collect();
        ex.case(if modern { 8 } else { 7 }, "WebSocket", &text, || match catch(AssertUnwindSafe(|| ws_run(&schema, modern, fr))) {
            None => 2,
            Some(n) => {
                if n > 0 {
                    0
                } else {
                    1
                }
            }
        });
    }
    out.push_str(&ex.out);
    for (e, ms, t) in &ex.max_ms {
        writeln!(out, "TIME\t{e}\t{{\"entry\":{e},\"max_ms\":{ms:.2},\"case\":{}}}", jstr(t)).unwrap();
    }
    for ((e, c), k) in &ex.counts {
        writeln!(out, "EXPLCOUNT\t{e}\t{{\"entry\":{e},\"outcome\":\"{}\",\"cases\":{k}}}", ["ok", "error", "PANIC"][*c as usize]).unwrap();
    }
    std::fs::write(format!("{}/c12.cases", a.out), out).expect("write cases");
}

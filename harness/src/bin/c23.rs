//! C23 correspondence: random requests (arbitrary characters in queries,
//! operation names, variable and extension values) in every transport form
//! through the REAL decoders (receive_batch_json, receive_json,
//! parse_query_string, receive_batch_body incl. the multipart `operations`
//! part), malformed variants, and batches whose executions complete in a
//! generated order through the real Schema::execute_batch.
#[path = "../httpgen.rs"]
mod httpgen;

use std::fmt::Write as _;
use std::future::Future;
use std::sync::{Arc, Mutex};
use std::task::{Context as TaskCx, Poll};

use agv_harness::*;
use async_graphql::http::*;
use async_graphql::*;
use httpgen::*;

// ------------------------------------------------------------ generators --
fn gen_query(r: &mut Rng) -> String {
    match r.below(6) {
        0 => "{ a }".to_string(),
        1 => "query Q($x: Int = 1, $s: String) { f(x: $x, s: $s) { id ...F } } fragment F on T { n }".to_string(),
        2 => String::new(),
        3 => "mutation M { set(v: \"a\\\"b\\u00e9\\n\", w: \"\"\"block \"q\" \\\"\"\" \"\"\") }".to_string(),
        _ => gen_str(r, 24),
    }
}

fn gen_opname(r: &mut Rng) -> Option<String> {
    match r.below(5) {
        0 | 1 => None,
        2 => Some("Q".into()),
        3 => Some(String::new()),
        _ => Some(gen_str(r, 8)),
    }
}

struct Req {
    q: String,
    op: Option<String>,
    vars: Vec<(String, J)>,
    exts: Vec<(String, J)>,
}

/// a well-formed request: unique member names everywhere, variables and
/// extensions listed sorted (BTreeMap / sorted HashMap listing)
fn gen_req(r: &mut Rng) -> Req {
    let mut vars = gen_members(r, 2, false, 4);
    let mut exts = if r.chance(1, 2) { vec![] } else { gen_members(r, 2, false, 3) };
    vars.sort_by(|a, b| a.0.cmp(&b.0));
    exts.sort_by(|a, b| a.0.cmp(&b.0));
    Req { q: gen_query(r), op: gen_opname(r), vars, exts }
}

fn req_tree(r: &mut Rng, q: &Req, style: usize) -> J {
    // style 0: every member present; 1: absent when empty; 2: null when empty
    let mut m: Vec<(String, J)> = vec![];
    if !(style == 1 && q.q.is_empty()) {
        m.push(("query".into(), J::Str(q.q.clone())));
    }
    match (&q.op, style) {
        (Some(o), _) => m.push(("operationName".into(), J::Str(o.clone()))),
        (None, 2) => m.push(("operationName".into(), J::Null)),
        _ => {}
    }
    for (k, v) in [("variables", &q.vars), ("extensions", &q.exts)] {
        if v.is_empty() && style == 1 {
            continue;
        }
        if v.is_empty() && style == 2 {
            m.push((k.into(), J::Null));
        } else {
            m.push((k.into(), J::Obj(v.clone())));
        }
    }
    if r.chance(1, 5) {
        m.push((gen_key(r), gen_j(r, 1, true)));
    }
    if r.chance(1, 2) {
        r.shuffle(&mut m);
    }
    J::Obj(m)
}

/// malformed / unusual variants of a request tree
fn mutate_tree(r: &mut Rng, t: &J) -> J {
    let J::Obj(m) = t else { return t.clone() };
    let mut m = m.clone();
    match r.below(14) {
        0 => {
            if !m.is_empty() {
                let i = r.below(m.len());
                let e = m[i].clone();
                m.insert(r.below(m.len() + 1), e);
            }
            J::Obj(m)
        }
        1 => {
            let k = r.pick(&["query", "operationName", "variables", "extensions"]).to_string();
            m.push((k, gen_j(r, 1, true)));
            J::Obj(m)
        }
        2 => {
            if !m.is_empty() {
                let i = r.below(m.len());
                m[i].1 = gen_j(r, 1, true);
            }
            J::Obj(m)
        }
        3 => J::Arr(vec![]),
        4 => J::Arr(m.into_iter().map(|(_, v)| v).collect()),
        5 => {
            let n = r.below(6);
            J::Arr((0..n).map(|_| gen_j(r, 1, true)).collect())
        }
        6 => gen_j(r, 2, true),
        7 => {
            for (k, _) in m.iter_mut() {
                if k == "operationName" {
                    *k = r.pick(&["operation_name", "OperationName", "operationname"]).to_string();
                }
            }
            J::Obj(m)
        }
        8 => {
            // positional form with typed elements
            let mut l = vec![];
            let n = r.below(6);
            let q = gen_query(r);
            let cand = [J::Str(q), if r.chance(1, 2) { J::Str("Op".into()) } else { J::Null }, J::Obj(gen_members(r, 1, true, 2)), if r.chance(1, 2) { J::Null } else { J::Obj(vec![]) }, J::Int(1)];
            for c in cand.iter().take(n) {
                l.push(c.clone());
            }
            J::Arr(l)
        }
        9 => J::Arr(vec![t.clone(), J::Arr(vec![])]),
        10 => J::Arr(vec![J::Arr(vec![J::Str("{a}".into())]), t.clone()]),
        11 => J::Arr(vec![t.clone(), gen_j(r, 1, true)]),
        12 => {
            for (k, v) in m.iter_mut() {
                if k == "variables" || k == "extensions" {
                    *v = J::Obj(gen_members(r, 2, true, 5));
                }
            }
            J::Obj(m)
        }
        _ => J::Obj(vec![]),
    }
}

fn tree_case(r: &mut Rng) -> J {
    let q = gen_req(r);
    let style = r.below(3);
    let t = req_tree(r, &q, style);
    match r.below(10) {
        0..=3 => t,
        4 | 5 => {
            let n = 1 + r.below(4);
            let mut l = vec![t];
            for _ in 1..n {
                let q = gen_req(r);
                let style = r.below(3);
                let t2 = req_tree(r, &q, style);
                l.push(if r.chance(1, 6) { mutate_tree(r, &t2) } else { t2 });
            }
            J::Arr(l)
        }
        _ => mutate_tree(r, &t),
    }
}

/// (text, tree or None when the text is not JSON)
fn body_text(r: &mut Rng, t: &J) -> Option<(String, Option<J>)> {
    let good = j_text(r, t);
    if r.chance(1, 10) {
        let bad = broken_json(r, &good);
        if serde_json::from_str::<serde_json::Value>(&bad).is_ok() {
            return None;
        }
        Some((bad, None))
    } else {
        if serde_json::from_str::<serde_json::Value>(&good).is_err() {
            return None;
        }
        Some((good, Some(t.clone())))
    }
}

fn fixed_trees() -> Vec<J> {
    let o = |m: Vec<(&str, J)>| J::Obj(m.into_iter().map(|(k, v)| (k.to_string(), v)).collect());
    let s = |x: &str| J::Str(x.to_string());
    vec![
        o(vec![("query", s("{a}"))]),
        o(vec![("query", s("{a}")), ("operationName", s("X"))]),
        o(vec![("query", s("{a}")), ("operation_name", s("X"))]),
        J::Arr(vec![]),
        J::Arr(vec![s("{a}")]),
        J::Arr(vec![s("{a}"), s("Op"), o(vec![("x", J::Int(1))]), o(vec![("e", J::Int(2))])]),
        J::Arr(vec![s("{a}"), s("Op"), o(vec![]), o(vec![]), J::Int(5)]),
        J::Arr(vec![J::Arr(vec![s("{a}")]), J::Arr(vec![])]),
        J::Arr(vec![o(vec![("query", s("{a}"))]), J::Arr(vec![])]),
        J::Arr(vec![o(vec![("query", s("{a}"))]), o(vec![("query", s("{b}"))]), o(vec![("query", s("{c}"))])]),
        o(vec![("query", s("a")), ("query", s("b"))]),
        o(vec![("query", J::Null)]),
        o(vec![("operationName", J::Null), ("variables", J::Null), ("extensions", J::Null)]),
        o(vec![("variables", J::Arr(vec![]))]),
        o(vec![("variables", o(vec![("a", J::Int(1)), ("a", J::Int(2)), ("b", o(vec![("c", J::Int(1)), ("d", J::Null), ("c", J::Arr(vec![J::Float(1.5)]))]))]))]),
        o(vec![]),
        J::Null,
        J::Int(3),
        s("s"),
        J::Arr(vec![J::Null]),
        J::Arr(vec![s("q"), J::Null, J::Null, J::Null]),
        J::Arr(vec![J::Null, J::Null, J::Null, J::Null]),
        o(vec![("uploads", J::Arr(vec![J::Int(1)])), ("data", J::Int(3)), ("introspectionMode", s("x")), ("parsedQuery", J::Null)]),
    ]
}

// ------------------------------------------------------------ batch order --
#[derive(Clone, Default)]
struct Gates(Arc<Mutex<Vec<Option<futures_channel::oneshot::Receiver<()>>>>>);

struct Q;
#[Object]
impl Q {
    async fn v(&self, ctx: &Context<'_>, i: i32) -> i32 {
        let rx = ctx.data_unchecked::<Gates>().0.lock().unwrap().get_mut(i as usize).and_then(|x| x.take());
        if let Some(rx) = rx {
            let _ = rx.await;
        }
        i
    }
}

/// returns (schedule as the model sees it, answers in response order, premature)
fn run_order(r: &mut Rng, n: usize) -> (Vec<usize>, Vec<i64>, bool) {
    let schema = Schema::build(Q, EmptyMutation, EmptySubscription).finish();
    let mut senders = vec![];
    let mut rxs = vec![];
    let mut gated = vec![];
    for i in 0..n {
        if r.chance(4, 5) {
            let (tx, rx) = futures_channel::oneshot::channel::<()>();
            senders.push(Some(tx));
            rxs.push(Some(rx));
            gated.push(i);
        } else {
            senders.push(None);
            rxs.push(None);
        }
    }
    let gates = Gates(Arc::new(Mutex::new(rxs)));
    let reqs: Vec<Request> = (0..n).map(|i| Request::new(format!("{{ v(i: {i}) }}")).data(gates.clone())).collect();
    let fut = schema.execute_batch(BatchRequest::Batch(reqs));
    futures_util::pin_mut!(fut);
    let waker = futures_util::task::noop_waker();
    let mut cx = TaskCx::from_waker(&waker);
    let mut sched: Vec<usize> = (0..n).filter(|i| !gated.contains(i)).collect();
    let mut order = gated.clone();
    r.shuffle(&mut order);
    let mut premature = false;
    let mut result = None;
    if let Poll::Ready(x) = fut.as_mut().poll(&mut cx) {
        result = Some(x);
        premature = !order.is_empty();
    }
    for (k, i) in order.iter().enumerate() {
        if result.is_some() {
            break;
        }
        sched.push(*i);
        let _ = senders[*i].take().unwrap().send(());
        if let Poll::Ready(x) = fut.as_mut().poll(&mut cx) {
            result = Some(x);
            premature = k + 1 != order.len();
        }
    }
    let answers = match result {
        Some(BatchResponse::Batch(v)) => v
            .iter()
            .map(|resp| match &resp.data {
                Value::Object(m) if resp.errors.is_empty() => match m.get("v") {
                    Some(Value::Number(x)) => x.as_i64().unwrap_or(-1),
                    _ => -1,
                },
                _ => -1,
            })
            .collect(),
        _ => vec![],
    };
    (sched, answers, premature)
}

fn main() {
    let a = parse_args();
    let mut rng = Rng::new(a.seed);
    let mut out = String::new();
    let n = a.n;

    // ---- JSON bodies through receive_batch_json and receive_json
    let mut trees = fixed_trees();
    while trees.len() < n {
        trees.push(tree_case(&mut rng));
    }
    for (i, t) in trees.iter().enumerate() {
        let Some((text, tree)) = (if i < fixed_trees().len() { Some((j_text(&mut Rng::new(0), t), Some(t.clone()))) } else { body_text(&mut rng, t) }) else {
            writeln!(out, "GENSKIP\t\t{{}}").unwrap();
            continue;
        };
        let gt = g_opt(tree.as_ref(), g_j);
        let res = catch({
            let text = text.clone();
            move || block_on(receive_batch_json(text.as_bytes()))
        });
        let nontrivial = matches!(res, Some(Ok(_)));
        writeln!(
            out,
            "JSON\t({}, {})\t{{\"text\":{},\"impl\":{},\"nontrivial\":{}}}",
            gt,
            g_batch_outcome(&res),
            jstr(&text),
            jstr(&show_batch(&res)),
            nontrivial
        )
        .unwrap();
        if i % 3 == 0 {
            let res1 = catch({
                let text = text.clone();
                move || block_on(receive_json(text.as_bytes()))
            });
            writeln!(
                out,
                "JSON1\t({}, {})\t{{\"text\":{},\"impl\":{},\"nontrivial\":{}}}",
                gt,
                g_req_outcome(&res1),
                jstr(&text),
                jstr(&show_req(&res1)),
                matches!(res1, Some(Ok(_)))
            )
            .unwrap();
        }
        // content-type dispatch (non-multipart and boundary-less multipart)
        if i % 4 == 1 {
            let cts: [Option<&str>; 12] = [
                None,
                Some("application/json"),
                Some("application/json; charset=utf-8"),
                Some("application/graphql-response+json"),
                Some("text/plain"),
                Some("application/x-www-form-urlencoded"),
                Some("garbage"),
                Some(""),
                Some("multipart/form-data"),
                Some("MULTIPART/mixed"),
                Some("multipart/form-data; charset=x"),
                Some("a/b; boundary=x"),
            ];
            let ct = *rng.pick(&cts);
            let res = catch({
                let text = text.clone();
                move || block_on(receive_batch_body(ct, text.as_bytes(), MultipartOptions::default()))
            });
            writeln!(
                out,
                "DISP\t({}, {}, {})\t{{\"text\":{},\"impl\":{},\"nontrivial\":{}}}",
                g_ctype(ct),
                gt,
                g_batch_outcome(&res),
                jstr(&format!("content-type {ct:?} body {text}")),
                jstr(&show_batch(&res)),
                matches!(res, Some(Ok(_)))
            )
            .unwrap();
        }
        // the same body as the `operations` part of a multipart request
        if i % 2 == 0 {
            let pcts: [Option<&str>; 9] = [None, None, None, Some("application/json"), Some("text/plain"), Some("multipart/form-data"), Some("multipart/mixed; boundary=q"), Some("garbage"), Some("application/graphql")];
            let pct_ = if i == 0 { Some("multipart/form-data") } else { *rng.pick(&pcts) };
            let boundary = format!("----agv{}", rng.below(1_000_000));
            if text.contains(&boundary) {
                continue;
            }
            let body = multipart_body(
                &boundary,
                &[
                    Part { name: Some("operations".into()), filename: None, content_type: pct_.map(String::from), body: text.clone().into_bytes() },
                    Part { name: Some("map".into()), filename: None, content_type: None, body: b"{}".to_vec() },
                ],
            );
            let ct = format!("multipart/form-data; boundary={boundary}");
            let res = catch({
                let ct = ct.clone();
                move || block_on(receive_batch_body(Some(ct), &body[..], MultipartOptions::default()))
            });
            // multer does not parse an invalid part content type: the part then has none
            let part_class = match pct_ {
                Some(s) if s.parse::<mime::Mime>().is_err() => "CtOther".to_string(),
                x => g_ctype(x),
            };
            writeln!(
                out,
                "MP\t({}, {}, {})\t{{\"text\":{},\"impl\":{},\"nontrivial\":{}}}",
                part_class,
                gt,
                g_batch_outcome(&res),
                jstr(&format!("operations part content-type {pct_:?} body {text}")),
                jstr(&show_batch(&res)),
                matches!(res, Some(Ok(_)))
            )
            .unwrap();
        }
    }

    // ---- query strings through parse_query_string
    let fixed_get: Vec<Vec<(String, String)>> = vec![
        vec![("query".into(), "{a}".into()), ("operationName".into(), "X".into())],
        vec![("query".into(), "{a}".into()), ("operation_name".into(), "X".into())],
        vec![("query".into(), "a".into()), ("query".into(), "b".into())],
        vec![("variables".into(), "1".into())],
        vec![("variables".into(), "null".into())],
        vec![("x".into(), "1".into())],
        vec![],
        vec![("operation_name".into(), "".into())],
        vec![("variables".into(), "{\"a\":1,\"a\":2}".into())],
        vec![("query".into(), "a b+c;d&e=f%".into())],
    ];
    let mut gi = 0usize;
    while gi < n {
        let mut oracle: Vec<(String, Option<J>)> = vec![];
        let pairs: Vec<(String, String)> = if gi < fixed_get.len() {
            let p = fixed_get[gi].clone();
            for (k, v) in &p {
                if k == "variables" || k == "extensions" {
                    let parsed = match v.as_str() {
                        "1" => Some(J::Int(1)),
                        "null" => Some(J::Null),
                        _ => Some(J::Obj(vec![("a".into(), J::Int(1)), ("a".into(), J::Int(2))])),
                    };
                    oracle.push((v.clone(), parsed));
                }
            }
            p
        } else {
            let q = gen_req(&mut rng);
            let mut p: Vec<(String, String)> = vec![];
            if !(q.q.is_empty() && rng.chance(1, 2)) {
                p.push(("query".into(), q.q.clone()));
            }
            if let Some(o) = &q.op {
                let key = match rng.below(6) {
                    0 | 1 => "operation_name",
                    2 => "OperationName",
                    _ => "operationName",
                };
                p.push((key.into(), o.clone()));
            }
            let mut ok = true;
            for (k, m) in [("variables", &q.vars), ("extensions", &q.exts)] {
                if m.is_empty() && rng.chance(1, 2) {
                    continue;
                }
                let tree = match rng.below(12) {
                    0 => J::Null,
                    1 => gen_j(&mut rng, 1, true),
                    2 => J::Obj(gen_members(&mut rng, 2, true, 5)),
                    _ => J::Obj(m.clone()),
                };
                let good = j_text(&mut rng, &tree);
                let (text, parsed) = if rng.chance(1, 10) {
                    (broken_json(&mut rng, &good), None)
                } else {
                    (good, Some(tree))
                };
                if serde_json::from_str::<serde_json::Value>(&text).is_ok() != parsed.is_some() {
                    ok = false;
                }
                // the same text must not be claimed with two different trees
                if let Some((_, prev)) = oracle.iter().find(|(t, _)| *t == text) {
                    if *prev != parsed {
                        ok = false;
                    }
                }
                oracle.push((text.clone(), parsed));
                p.push((k.into(), text));
            }
            if !ok {
                writeln!(out, "GENSKIP\t\t{{}}").unwrap();
                gi += 1;
                continue;
            }
            if rng.chance(1, 6) {
                p.push((gen_key(&mut rng), gen_str(&mut rng, 5)));
            }
            if rng.chance(1, 12) && !p.is_empty() {
                let e = p[rng.below(p.len())].clone();
                if e.0 == "variables" || e.0 == "extensions" || rng.chance(1, 2) {
                    p.push(e);
                } else {
                    p.push((e.0, gen_str(&mut rng, 3)));
                }
            }
            if rng.chance(1, 2) {
                rng.shuffle(&mut p);
            }
            p
        };
        // encode
        let text = if rng.chance(1, 4) {
            serde_urlencoded::to_string(&pairs).unwrap()
        } else {
            let mut o = String::new();
            for (i, (k, v)) in pairs.iter().enumerate() {
                if i > 0 {
                    o.push('&');
                    if rng.chance(1, 20) {
                        o.push('&');
                    }
                }
                pct(&mut rng, k, &mut o);
                if !(v.is_empty() && rng.chance(1, 2)) {
                    o.push('=');
                    pct(&mut rng, v, &mut o);
                }
            }
            o
        };
        let res = catch({
            let text = text.clone();
            move || parse_query_string(&text)
        });
        writeln!(
            out,
            "GET\t({}, {}, {})\t{{\"text\":{},\"impl\":{},\"nontrivial\":{}}}",
            g_list(pairs.iter(), |(k, v)| format!("({}, {})", g_str(k), g_str(v))),
            g_list(oracle.iter(), |(t, p)| format!("({}, {})", g_str(t), g_opt(p.as_ref(), g_j))),
            g_req_outcome(&res),
            jstr(&text),
            jstr(&show_req(&res)),
            matches!(res, Some(Ok(_)))
        )
        .unwrap();
        gi += 1;
    }

    // ---- one request, three transports, encoded by the library encoders
    for i in 0..n {
        let mut q = gen_req(&mut rng);
        if i == 0 {
            q.op = Some("X".into());
        }
        if i == 1 {
            q.op = None;
        }
        // JSON body as a standard client writes it (own printer: member order of
        // nested objects is kept, which serde_json::Value would not do)
        let plain = |rng: &mut Rng, t: &J| -> String {
            let mut o = String::new();
            print_j(rng, t, &mut o);
            o
        };
        let mut members: Vec<(String, J)> = vec![("query".into(), J::Str(q.q.clone()))];
        match &q.op {
            Some(o) => members.push(("operationName".into(), J::Str(o.clone()))),
            None => {
                if rng.chance(1, 2) {
                    members.push(("operationName".into(), J::Null))
                }
            }
        }
        members.push(("variables".into(), J::Obj(q.vars.clone())));
        members.push(("extensions".into(), J::Obj(q.exts.clone())));
        let jtext = plain(&mut rng, &J::Obj(members));
        let vtext = plain(&mut rng, &J::Obj(q.vars.clone()));
        let xtext = plain(&mut rng, &J::Obj(q.exts.clone()));
        if serde_json::from_str::<serde_json::Value>(&jtext).is_err() {
            continue;
        }
        let mut pairs: Vec<(&str, String)> = vec![("query", q.q.clone())];
        if let Some(o) = &q.op {
            pairs.push(("operationName", o.clone()));
        }
        pairs.push(("variables", vtext.clone()));
        pairs.push(("extensions", xtext.clone()));
        let qs = serde_urlencoded::to_string(&pairs).unwrap();
        let boundary = format!("----agv{}", rng.below(1_000_000));
        let mp = multipart_body(
            &boundary,
            &[
                Part { name: Some("operations".into()), filename: None, content_type: None, body: jtext.clone().into_bytes() },
                Part { name: Some("map".into()), filename: None, content_type: None, body: b"{}".to_vec() },
            ],
        );
        let rj = catch({
            let t = jtext.clone();
            move || block_on(receive_batch_body(Some("application/json"), t.as_bytes(), MultipartOptions::default()))
        });
        let rg = catch({
            let t = qs.clone();
            move || parse_query_string(&t)
        });
        let rm = catch({
            let ct = format!("multipart/form-data; boundary={boundary}");
            move || block_on(receive_batch_body(Some(ct), &mp[..], MultipartOptions::default()))
        });
        let oracle = [(vtext.clone(), J::Obj(q.vars.clone())), (xtext.clone(), J::Obj(q.exts.clone()))];
        writeln!(
            out,
            "SAME\t({}, {}, {}, {}, {}, {}, {})\t{{\"text\":{},\"impl\":{},\"nontrivial\":{}}}",
            g_req_parts(&q.q, q.op.as_deref(), &q.vars, &q.exts),
            g_list(oracle.iter(), |(t, p)| format!("({}, Some {})", g_str(t), g_j(p))),
            g_str(&vtext),
            g_str(&xtext),
            g_batch_outcome(&rj),
            g_req_outcome(&rg),
            g_batch_outcome(&rm),
            jstr(&format!("json {jtext} | get {qs}")),
            jstr(&format!("json {} | get {} | multipart {}", show_batch(&rj), show_req(&rg), show_batch(&rm))),
            q.op.is_some() || !q.vars.is_empty()
        )
        .unwrap();
    }

    // ---- batch order under completion schedules
    let n_ord = (n / 4).max(20);
    for i in 0..n_ord {
        let k = if i < 3 { i + 1 } else { 1 + rng.below(7) };
        let (sched, answers, premature) = run_order(&mut rng, k);
        let answers_nat: Vec<String> = answers.iter().map(|x| if *x < 0 { "999%nat".to_string() } else { format!("{}%nat", x) }).collect();
        writeln!(
            out,
            "ORD\t({}%nat, {}, {})\t{{\"text\":{},\"impl\":{},\"nontrivial\":{}}}",
            k,
            g_list(sched.iter(), |x| format!("{}%nat", x)),
            g_list(answers_nat.iter(), |x| x.clone()),
            jstr(&format!("batch of {k}, completion order {sched:?}{}", if premature { " PREMATURE" } else { "" })),
            jstr(&format!("{answers:?}")),
            k > 1
        )
        .unwrap();
        if premature {
            // the batch future finished before every execution had completed
            writeln!(out, "ORD\t({}%nat, {}, [])\t{{\"text\":\"premature completion\"}}", k, g_list(sched.iter(), |x| format!("{}%nat", x))).unwrap();
        }
    }
    std::fs::write(format!("{}/c23.cases", a.out), out).unwrap();
}

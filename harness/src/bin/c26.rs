//! C26 correspondence: the REAL create_multipart_mixed_stream driven by a
//! manual Timer (a flag the schedule raises) and a channel input, one
//! poll_next at a time: all schedules over {arrive, fire, poll, close} up to a
//! small length, then random longer schedules with hostile response contents.
//! Every schedule is completed by closing the input and polling to the end.
//! Printed per case: the actions and what each poll returned (chunk bytes).
use std::fmt::Write as _;
use std::future::Future;
use std::pin::Pin;
use std::sync::Arc;
use std::sync::atomic::{AtomicBool, AtomicUsize, Ordering};
use std::task::{Context as TaskCx, Poll};
use std::time::Duration;

use agv_harness::*;
use async_graphql::http::create_multipart_mixed_stream;
use async_graphql::runtime::Timer;
use async_graphql::*;
use futures_util::StreamExt;
use futures_util::future::BoxFuture;

// ------------------------------------------------------------ manual timer --
#[derive(Clone, Default)]
struct ManualTimer {
    due: Arc<AtomicBool>,
    armed: Arc<AtomicUsize>,
}
struct Delay(Arc<AtomicBool>);
impl Future for Delay {
    type Output = ();
    fn poll(self: Pin<&mut Self>, _cx: &mut TaskCx<'_>) -> Poll<()> {
        if self.0.swap(false, Ordering::SeqCst) { Poll::Ready(()) } else { Poll::Pending }
    }
}
impl Timer for ManualTimer {
    fn delay(&self, _duration: Duration) -> BoxFuture<'static, ()> {
        self.armed.fetch_add(1, Ordering::SeqCst);
        Box::pin(Delay(self.due.clone()))
    }
}

#[derive(Clone, Debug)]
enum Act {
    Arrive(usize), // index into the responses of the case
    Close,
    Fire,
    Poll,
}

#[derive(Clone, Debug, PartialEq)]
enum Obs {
    Chunk(Vec<u8>),
    None,
    Pending,
    Unit,
}

fn g_bytes(b: &[u8]) -> String {
    let mut o = String::from("[");
    for (i, c) in b.iter().enumerate() {
        if i > 0 {
            o.push(';');
        }
        write!(o, "{c}").unwrap();
    }
    o.push_str("]%N");
    o
}

/// run one schedule on the real function; the schedule is completed by
/// Close + polls to the end + `extra` polls after the end
fn run_schedule(acts: &[Act], resps: &[Response], extra: usize) -> (Vec<(Act, Obs)>, usize) {
    let timer = ManualTimer::default();
    let (tx, rx) = futures_channel::mpsc::unbounded::<Response>();
    let mut tx = Some(tx);
    let mut stream = create_multipart_mixed_stream(rx, timer.clone(), Duration::from_secs(30));
    let waker = futures_util::task::noop_waker();
    let mut cx = TaskCx::from_waker(&waker);
    let mut out = vec![];
    let mut ended = false;
    let mut do_act = |a: &Act, tx: &mut Option<futures_channel::mpsc::UnboundedSender<Response>>, ended: &mut bool| -> Obs {
        match a {
            Act::Arrive(i) => {
                if let Some(t) = tx.as_ref() {
                    t.unbounded_send(clone_resp(&resps[*i])).unwrap();
                }
                Obs::Unit
            }
            Act::Close => {
                *tx = None;
                Obs::Unit
            }
            Act::Fire => {
                timer.due.store(true, Ordering::SeqCst);
                Obs::Unit
            }
            Act::Poll => match stream.poll_next_unpin(&mut cx) {
                Poll::Ready(Some(b)) => Obs::Chunk(b.to_vec()),
                Poll::Ready(None) => {
                    *ended = true;
                    Obs::None
                }
                Poll::Pending => Obs::Pending,
            },
        }
    };
    for a in acts {
        if ended && matches!(a, Act::Poll) {
            continue; // a finished stream is not polled again (Stream contract)
        }
        if tx.is_none() && matches!(a, Act::Arrive(_)) {
            continue;
        }
        let o = do_act(a, &mut tx, &mut ended);
        out.push((a.clone(), o));
    }
    if tx.is_some() {
        let o = do_act(&Act::Close, &mut tx, &mut ended);
        out.push((Act::Close, o));
    }
    let mut guard = 0;
    while !ended && guard < 10_000 {
        let o = do_act(&Act::Poll, &mut tx, &mut ended);
        out.push((Act::Poll, o));
        guard += 1;
    }
    let _ = extra;
    (out, timer.armed.load(Ordering::SeqCst))
}

fn clone_resp(r: &Response) -> Response {
    let mut n = Response::new(r.data.clone());
    n.errors = r.errors.clone();
    n.extensions = r.extensions.clone();
    n
}

fn nasty_string(r: &mut Rng) -> String {
    let pool = [
        "ok", "", "\r\n--graphql--\r\n", "--graphql", "\r\n--graphql\r\nContent-Type: application/json\r\n\r\n{}", "{}", "\"quoted\"", "back\\slash", "tab\there", "nul\u{0}x",
        "\u{1b}[0m", "é✓𝄞", "\u{2028}line", "\r", "\n", "--", "}\r\n", "\u{7f}",
    ];
    let mut s = String::new();
    for _ in 0..1 + r.below(3) {
        let p: &str = pool[r.below(pool.len())];
        s.push_str(p);
    }
    s
}

fn rand_value(r: &mut Rng, depth: usize) -> Value {
    match r.below(if depth == 0 { 5 } else { 7 }) {
        0 => Value::Null,
        1 => Value::Number(Number::from(r.range(-5, 1000))),
        2 => Value::String(nasty_string(r)),
        3 => Value::Boolean(r.chance(1, 2)),
        4 => Value::Number(Number::from_f64(r.range(-100, 100) as f64 / 8.0).unwrap()),
        5 => Value::List((0..r.below(3)).map(|_| rand_value(r, depth - 1)).collect()),
        _ => {
            let mut m = indexmap::IndexMap::new();
            for i in 0..r.below(3) {
                let k = if r.chance(1, 3) { format!("k{i}") } else { format!("f{}", r.below(4)) };
                m.insert(Name::new(k), rand_value(r, depth - 1));
            }
            Value::Object(m)
        }
    }
}

fn rand_response(r: &mut Rng, k: usize) -> Response {
    if r.chance(1, 2) {
        let mut m = indexmap::IndexMap::new();
        m.insert(Name::new("v"), Value::Number(Number::from(k as i64)));
        return Response::new(Value::Object(m));
    }
    let mut resp = Response::new(rand_value(r, 2));
    if r.chance(1, 3) {
        let mut e = ServerError::new(nasty_string(r), if r.chance(1, 2) { Some(Pos { line: 1 + r.below(3), column: 1 + r.below(9) }) } else { None });
        if r.chance(1, 2) {
            e.path = vec![PathSegment::Field(nasty_string(r)), PathSegment::Index(r.below(4))];
        }
        resp.errors.push(e);
        if r.chance(1, 3) {
            resp.data = Value::Null;
        }
    }
    if r.chance(1, 5) {
        resp.extensions.insert(nasty_string(r), rand_value(r, 1));
    }
    resp
}

fn show_acts(l: &[(Act, Obs)]) -> String {
    l.iter()
        .map(|(a, _)| match a {
            Act::Arrive(i) => format!("A{i}"),
            Act::Close => "C".into(),
            Act::Fire => "F".into(),
            Act::Poll => "P".into(),
        })
        .collect::<Vec<_>>()
        .join("")
}

fn emit_case(out: &mut String, tag: &str, res: &[(Act, Obs)], resps: &[Response], armed: usize) {
    let jsons: Vec<Vec<u8>> = resps.iter().map(|r| serde_json::to_vec(r).unwrap()).collect();
    let g = g_list(res.iter(), |(a, o)| {
        let ga = match a {
            Act::Arrive(i) => format!("AArrive {}", g_bytes(&jsons[*i])),
            Act::Close => "AClose".into(),
            Act::Fire => "AFire".into(),
            Act::Poll => "APoll true".into(),
        };
        let go = match o {
            Obs::Chunk(b) => format!("OChunk {}", g_bytes(b)),
            Obs::None => "ONone".into(),
            Obs::Pending => "OPending".into(),
            Obs::Unit => "OUnit".into(),
        };
        format!("({ga}, {go})")
    });
    let body: Vec<u8> = res.iter().flat_map(|(_, o)| if let Obs::Chunk(b) = o { b.clone() } else { vec![] }).collect();
    let used: Vec<String> = res.iter().filter_map(|(a, _)| if let Act::Arrive(i) = a { Some(String::from_utf8_lossy(&jsons[*i]).to_string()) } else { None }).collect();
    let hb = res.iter().filter(|(_, o)| matches!(o, Obs::Chunk(b) if b == b"{}\r\n")).count();
    let text = format!("[{tag}] {} resps={}", show_acts(res), serde_json::to_string(&used).unwrap());
    let text = if text.len() > 1200 { format!("{}…", &text.chars().take(1200).collect::<String>()) } else { text };
    let impl_s: String = String::from_utf8_lossy(&body).chars().take(600).collect();
    writeln!(
        out,
        "SCHED\t{}\t{{\"text\":{},\"impl\":{},\"nontrivial\":{},\"heartbeats\":{},\"timers_armed\":{},\"steps\":{}}}",
        g,
        serde_json::to_string(&text).unwrap(),
        serde_json::to_string(&impl_s).unwrap(),
        !used.is_empty() && hb > 0,
        hb,
        armed,
        res.len()
    )
    .unwrap();
}

fn main() {
    let a = parse_args();
    let maxlen: usize = a.rest.first().and_then(|s| s.parse().ok()).unwrap_or(5);
    let mut rng = Rng::new(a.seed);
    let mut out = String::new();
    // simple numbered responses for the exhaustive part
    let simple: Vec<Response> = (0..maxlen + 1)
        .map(|k| {
            let mut m = indexmap::IndexMap::new();
            m.insert(Name::new("v"), Value::Number(Number::from(k as i64)));
            Response::new(Value::Object(m))
        })
        .collect();
    // ---- all schedules over {arrive, fire, poll, close} up to maxlen ----
    let mut total = 0usize;
    for len in 0..=maxlen {
        let count = 4usize.pow(len as u32);
        'seq: for code in 0..count {
            let mut c = code;
            let mut acts = vec![];
            let mut arrivals = 0;
            let mut closed = false;
            for _ in 0..len {
                let k = c % 4;
                c /= 4;
                match k {
                    0 => {
                        if closed {
                            continue 'seq; // nothing can be sent after the end
                        }
                        acts.push(Act::Arrive(arrivals));
                        arrivals += 1;
                    }
                    1 => acts.push(Act::Fire),
                    2 => acts.push(Act::Poll),
                    _ => {
                        if closed {
                            continue 'seq;
                        }
                        closed = true;
                        acts.push(Act::Close);
                    }
                }
            }
            let (res, armed) = run_schedule(&acts, &simple, 0);
            emit_case(&mut out, "all", &res, &simple, armed);
            total += 1;
        }
    }
    // ---- random longer schedules, hostile contents ----
    for case in 0..a.n {
        let len = 4 + rng.below(if case % 10 == 0 { 60 } else { 24 });
        let nresp = 1 + rng.below(6);
        let resps: Vec<Response> = (0..nresp).map(|k| rand_response(&mut rng, k)).collect();
        let mut acts = vec![];
        let pw = 1 + rng.below(5); // weight of polls
        let fw = 1 + rng.below(3);
        let mut next = 0;
        for _ in 0..len {
            let k = rng.below(pw + fw + 3);
            if k < pw {
                acts.push(Act::Poll);
            } else if k < pw + fw {
                acts.push(Act::Fire);
            } else if k < pw + fw + 2 {
                if next < nresp {
                    acts.push(Act::Arrive(next));
                    next += 1;
                } else {
                    acts.push(Act::Arrive(rng.below(nresp)));
                }
            } else if rng.chance(1, 4) {
                acts.push(Act::Close);
            }
        }
        let (res, armed) = run_schedule(&acts, &resps, 0);
        emit_case(&mut out, "rnd", &res, &resps, armed);
        total += 1;
    }
    let _ = total;
    std::fs::write(format!("{}/c26.cases", a.out), out).unwrap();
}

//! C34 correspondence: GraphiQLSource::build()...finish() on configurations
//! drawn from every character class; the whole page is handed to the Coq
//! model (render = template translated from the .jinja + askama's escaper) and
//! to the Coq specification (JS string literal evaluation / RCDATA decoding of
//! every hole).  Every case also carries the real page of the NEUTRAL
//! configuration of the same shape (all strings "x"): the context-safety
//! judgement compares the lexical skeletons of the two real pages and needs no
//! template model.  `node --check` judges the module script of a few pages.
use std::fmt::Write as _;

use agv_harness::*;
use async_graphql::http::{Credentials, GraphiQLSource};

fn jstr(s: &str) -> String {
    serde_json::to_string(s).unwrap()
}

const CLASSES: &[&[&str]] = &[
    &["/", "/graphql", "/api/v1/graphql", "http://localhost:8000", "wss://example.com/ws", "Bearer [token]", "Authorization", "token", "x-api-key"],
    &["&", "a&b", "/q?a=1&b=2", "&amp;", "&#39;", "&#x27;"],
    &["'", "it's", "');alert(1);//", "O'Brien"],
    &["\"", "say \"hi\""],
    &["<", ">", "<b>", "a<b", "</script>", "</SCRIPT >", "<!--", "</title>", "</TITLE>", "<script>alert(1)</script>", "</title><script>alert(1)</script>"],
    &["\\", "a\\", "\\\\", "C:\\path", "\\'", "\\n", "\\u0041", "\\x41", "a\\'b"],
    &["\n", "a\nb", "\r", "a\r\nb", "\u{2028}", "\u{2029}", "\t", "\u{0}"],
    &["é", "漢字", "😀", "naïve café", "\u{feff}x", "\u{10FFFF}"],
    &["", " ", "  x  ", "{{ x }}", "{% if %}", "${x}", "`", "//", "/*", "*/", "%", "#", ";", "="],
    // a query string followed by each dangerous class (a template that treats the part after '?' differently)
    &[
        "/graphql?a=1&b=2",
        "/graphql?a=1&b='x",
        "/graphql?x=';alert(1);//",
        "/g?q=</script><script>alert(1)</script>",
        "/g?</script>",
        "/ws?token=it's",
        "?'",
        "?\"",
        "?<!--",
        "/g?a=\"b\"&c=<d>",
        "/g?x=\\",
        "/g?a\nb",
        "/g?é=漢",
        "??''",
        "/a'b?c",
    ],
];

/// '?' then a value from any class: url-ish prefix, query string, dangerous tail
fn query_value(r: &mut Rng) -> String {
    let mut s = (*r.pick(&["/graphql", "/", "", "/ws", "wss://example.com/ws", "/api/v1/graphql", "http://localhost:8000/q"])).to_string();
    s.push('?');
    s.push_str(*r.pick(&["", "", "a=1&b=", "token=", "q=", "x"]));
    let class = CLASSES[r.below(CLASSES.len())];
    s.push_str(*r.pick(class));
    s
}

fn rand_value(r: &mut Rng) -> String {
    if r.chance(1, 6) {
        return query_value(r);
    }
    let class = CLASSES[r.below(CLASSES.len())];
    let mut s = (*r.pick(class)).to_string();
    if r.chance(1, 3) {
        let class2 = CLASSES[r.below(CLASSES.len())];
        let extra: &str = *r.pick(class2);
        s.push_str(extra);
    }
    if r.chance(1, 6) {
        let pool = ['a', 'Z', '0', '/', '&', '\'', '"', '<', '>', '\\', '\n', 'é', '😀', ' ', '-', '_'];
        for _ in 0..r.below(6) {
            s.push(*r.pick(&pool));
        }
    }
    s
}

fn safe_value(r: &mut Rng) -> String {
    let class = CLASSES[*r.pick(&[0usize, 7, 8])];
    (*r.pick(class)).to_string()
}

#[derive(Clone, Default)]
struct Cfg {
    endpoint: String,
    sub: Option<String>,
    version: Option<String>,
    headers: Vec<(String, String)>,
    has_headers: bool,
    ws: Vec<(String, String)>,
    has_ws: bool,
    title: Option<String>,
    cred: usize,
}

fn build(c: &Cfg) -> String {
    let mut b = GraphiQLSource::build().endpoint(&c.endpoint);
    if let Some(s) = &c.sub {
        b = b.subscription_endpoint(s);
    }
    if let Some(v) = &c.version {
        b = b.version(v);
    }
    for (k, v) in &c.headers {
        b = b.header(k, v);
    }
    for (k, v) in &c.ws {
        b = b.ws_connection_param(k, v);
    }
    if let Some(t) = &c.title {
        b = b.title(t);
    }
    b = b.credentials(match c.cred {
        0 => Credentials::SameOrigin,
        1 => Credentials::Include,
        _ => Credentials::Omit,
    });
    b.finish()
}

/// the neutral configuration of the same shape: every configured string is
/// "x", map keys are k0, k1, ...; version and credentials are kept
fn neutral(c: &Cfg) -> Cfg {
    let pairs = |l: &Vec<(String, String)>| (0..l.len()).map(|i| (format!("k{i}"), "x".to_string())).collect::<Vec<_>>();
    Cfg {
        endpoint: "x".into(),
        sub: c.sub.as_ref().map(|_| "x".to_string()),
        version: c.version.clone(),
        headers: pairs(&c.headers),
        has_headers: c.has_headers,
        ws: pairs(&c.ws),
        has_ws: c.has_ws,
        title: c.title.as_ref().map(|_| "x".to_string()),
        cred: c.cred,
    }
}

fn shape_key(c: &Cfg) -> String {
    format!("{}|{:?}|{}|{}|{}|{}|{}|{}", c.sub.is_some(), c.version, c.has_headers, c.headers.len(), c.has_ws, c.ws.len(), c.title.is_some(), c.cred)
}

/// order in which a two-entry map was rendered: keys carry the unique plain
/// prefixes "k0" / "k1", which cannot be produced by escaping
fn page_order(page: &str, region_start: &str, pairs: &[(String, String)]) -> Vec<(String, String)> {
    if pairs.len() < 2 {
        return pairs.to_vec();
    }
    let base = page.find(region_start).unwrap_or(0);
    let mut v: Vec<(usize, (String, String))> = pairs
        .iter()
        .map(|p| {
            let tag: String = p.0.chars().take(2).collect();
            (page[base..].find(&format!("'{tag}")).unwrap_or(usize::MAX), p.clone())
        })
        .collect();
    v.sort_by_key(|x| x.0);
    v.into_iter().map(|x| x.1).collect()
}

fn g_pairs(has: bool, l: &[(String, String)]) -> String {
    if !has {
        return "None".into();
    }
    format!("(Some {})", g_list(l.iter(), |(k, v)| format!("({}, {})", g_str(k), g_str(v))))
}

fn g_cfg(c: &Cfg, page: &str) -> String {
    let headers = page_order(page, "headers: {", &c.headers);
    let ws = page_order(page, "wsConnectionParams: {", &c.ws);
    format!(
        "{{| c_endpoint := {}; c_sub := {}; c_version := {}; c_headers := {}; c_ws := {}; c_title := {}; c_cred := {}%N |}}",
        g_str(&c.endpoint),
        g_opt(c.sub.as_ref(), |s| g_str(s)),
        g_str(c.version.as_deref().unwrap_or("5.2.2")),
        g_pairs(c.has_headers, &headers),
        g_pairs(c.has_ws, &ws),
        g_opt(c.title.as_ref(), |s| g_str(s)),
        c.cred
    )
}

fn describe(c: &Cfg) -> String {
    format!(
        "endpoint={:?} sub={:?} version={:?} headers={:?} ws={:?} title={:?} cred={}",
        c.endpoint, c.sub, c.version, c.headers, c.ws, c.title, c.cred
    )
}

fn rand_pairs(r: &mut Rng, safe: bool) -> Vec<(String, String)> {
    let n = *r.pick(&[1usize, 1, 1, 2]);
    (0..n)
        .map(|i| {
            let k = if safe { safe_value(r) } else { rand_value(r) };
            let v = if safe { safe_value(r) } else { rand_value(r) };
            (if n > 1 { format!("k{i}{k}") } else { k }, v)
        })
        .collect()
}

fn node_check(dir: &str, idx: usize, page: &str) -> Option<bool> {
    let start = page.find("<script type=\"module\">")? + "<script type=\"module\">".len();
    let end = page.rfind("</script>")?;
    if end < start {
        return Some(false);
    }
    let path = format!("{dir}/c34_syn_{idx}.mjs");
    std::fs::write(&path, &page[start..end]).ok()?;
    let st = std::process::Command::new("node").arg("--check").arg(&path).stdout(std::process::Stdio::null()).stderr(std::process::Stdio::null()).status().ok()?;
    let _ = std::fs::remove_file(&path);
    Some(st.success())
}

fn main() {
    let a = parse_args();
    let mut rng = Rng::new(a.seed);
    let mut out = String::new();
    let n = a.n.max(10);

    // ---- fixed corpus: plain, the tests' configurations, the witnesses of the known findings
    let plain = Cfg { endpoint: "/".into(), ..Default::default() };
    let mut corpus: Vec<Cfg> = vec![
        plain.clone(),
        Cfg { endpoint: "/".into(), sub: Some("/ws".into()), ..Default::default() },
        Cfg {
            endpoint: "/".into(),
            sub: Some("/ws".into()),
            version: Some("3.9.0".into()),
            headers: vec![("Authorization".into(), "Bearer [token]".into())],
            has_headers: true,
            title: Some("Awesome GraphiQL IDE Test".into()),
            cred: 1,
            ..Default::default()
        },
        // finding 1: entity-escaped text inside the script
        Cfg { endpoint: "/a&b".into(), ..Default::default() },
        Cfg { endpoint: "/it's".into(), ..Default::default() },
        // a trailing backslash consumes the closing quote
        Cfg { endpoint: "/a\\".into(), ..Default::default() },
        Cfg { endpoint: "\\".into(), sub: Some(");alert(1);//".into()), ..Default::default() },
        Cfg { endpoint: "a\nb".into(), ..Default::default() },
        // key ends with a backslash: the key literal runs on to the value's opening quote, the value is code
        Cfg { endpoint: "/".into(), headers: vec![("a\\".into(), ":alert(1)//".into())], has_headers: true, ..Default::default() },
        // finding 2: headers and connection parameters together
        Cfg {
            endpoint: "/".into(),
            headers: vec![("Authorization".into(), "Bearer [token]".into())],
            has_headers: true,
            ws: vec![("token".into(), "[token]".into())],
            has_ws: true,
            ..Default::default()
        },
        Cfg { endpoint: "/".into(), ws: vec![("token".into(), "[token]".into())], has_ws: true, ..Default::default() },
        // titles are HTML text: every class must come back verbatim
        Cfg { endpoint: "/".into(), title: Some("</title><script>alert(1)</script>".into()), ..Default::default() },
        Cfg { endpoint: "/".into(), title: Some("a&b <i>'\"\\ &amp; &#39;\n</TITLE >".into()), ..Default::default() },
        Cfg { endpoint: "/é漢😀\u{2028}".into(), sub: Some("wss://ex.com/ws?x=1".into()), title: Some("é漢😀".into()), cred: 2, ..Default::default() },
        // a query string followed by each dangerous class, in every kind of script hole
        Cfg { endpoint: "/graphql?a=1&b=2".into(), ..Default::default() },
        Cfg { endpoint: "/graphql?a=1&b='x".into(), ..Default::default() },
        Cfg { endpoint: "/graphql?x=';alert(1);//".into(), ..Default::default() },
        Cfg { endpoint: "/g?q=</script><script>alert(1)</script>".into(), ..Default::default() },
        Cfg { endpoint: "?'".into(), ..Default::default() },
        Cfg { endpoint: "/g?a=\"b\"&c=<d>&e=<!--".into(), ..Default::default() },
        Cfg { endpoint: "/".into(), sub: Some("/ws?token=it's".into()), ..Default::default() },
        Cfg { endpoint: "/".into(), sub: Some("/ws?x=</script>".into()), ..Default::default() },
        Cfg { endpoint: "/graphql?ok=1".into(), sub: Some("?'+alert(1)+'".into()), title: Some("t?'</title>".into()), ..Default::default() },
        Cfg {
            endpoint: "/".into(),
            headers: vec![("x-q?'".into(), "a?b='c</script>".into())],
            has_headers: true,
            ..Default::default()
        },
        Cfg { endpoint: "/".into(), ws: vec![("p?\"".into(), "?';//".into())], has_ws: true, ..Default::default() },
        // the same after '?' for known class 3
        Cfg { endpoint: "/g?x=\\".into(), ..Default::default() },
        Cfg { endpoint: "/".into(), sub: Some("/ws?a\nb".into()), ..Default::default() },
    ];
    while corpus.len() < n {
        let safe = rng.chance(1, 2);
        let mut c = Cfg { endpoint: if safe { safe_value(&mut rng) } else { rand_value(&mut rng) }, ..Default::default() };
        if rng.chance(1, 2) {
            c.sub = Some(if safe { safe_value(&mut rng) } else { rand_value(&mut rng) });
        }
        if rng.chance(1, 5) {
            c.version = Some((*rng.pick(&["3.9.0", "4", "latest", "5.2.2-rc.1"])).to_string());
        }
        if rng.chance(2, 5) {
            c.has_headers = true;
            c.headers = rand_pairs(&mut rng, safe);
        }
        if rng.chance(1, 4) {
            c.has_ws = true;
            c.ws = rand_pairs(&mut rng, safe);
        }
        if rng.chance(1, 2) {
            c.title = Some(rand_value(&mut rng));
        }
        c.cred = rng.below(3);
        corpus.push(c);
    }
    let mut syn_done = 0usize;
    let mut node_missing = false;
    // the real page of the neutral configuration of each shape, shared as DEF lines
    let mut shapes: std::collections::HashMap<String, String> = std::collections::HashMap::new();
    for (i, c) in corpus.iter().enumerate() {
        let page = build(c);
        let nshapes = shapes.len();
        let nname = shapes
            .entry(shape_key(c))
            .or_insert_with(|| {
                let name = format!("neutral_{nshapes}");
                writeln!(out, "DEF\t{name}\t{}", g_str(&build(&neutral(c)))).unwrap();
                name
            })
            .clone();
        let kc = |s: &str| s.chars().any(|ch| "&<>\"'\\\n\r".contains(ch));
        let any_kc = kc(&c.endpoint) || c.sub.as_deref().is_some_and(kc) || c.headers.iter().chain(c.ws.iter()).any(|(k, v)| kc(k) || kc(v));
        writeln!(
            out,
            "CASE\t({}, {}, {})\t{{\"text\":{},\"uses\":[{}],\"impl\":{},\"nontrivial\":{}}}",
            g_cfg(c, &page),
            g_str(&page),
            nname,
            jstr(&describe(c)),
            jstr(&nname),
            jstr(&format!("page of {} chars", page.chars().count())),
            c.sub.is_some() || c.has_headers || c.has_ws || c.title.is_some()
        )
        .unwrap();
        // node judges the syntax of the module script (pages whose strings are plain)
        if !any_kc && !node_missing && (i < 13 || syn_done < 24) {
            match node_check(&a.out, i, &page) {
                Some(ok) => {
                    syn_done += 1;
                    writeln!(
                        out,
                        "SYN\t({}, {})\t{{\"text\":{},\"impl\":{},\"nontrivial\":{}}}",
                        g_str(&page),
                        g_bool(ok),
                        jstr(&describe(c)),
                        jstr(&format!("node --check: {ok}")),
                        c.has_headers || c.has_ws
                    )
                    .unwrap();
                }
                None => node_missing = true,
            }
        }
    }
    if node_missing {
        writeln!(out, "NOTE\t\t{{\"text\":\"node not available: SYN stream skipped\"}}").unwrap();
    }

    // ---- the escaper alone, through the real template's title hole
    let mut strings: Vec<String> = CLASSES.iter().flat_map(|c| c.iter().map(|s| s.to_string())).collect();
    for _ in 0..n * 6 {
        strings.push(rand_value(&mut rng));
    }
    for s in &strings {
        let page = GraphiQLSource::build().endpoint("/").title(s).finish();
        let st = page.find("<title>").map(|i| i + 7).unwrap_or(0);
        let en = page.rfind("</title>").unwrap_or(page.len());
        let got = if st <= en { &page[st..en] } else { "" };
        writeln!(
            out,
            "ESC\t({}, {})\t{{\"text\":{},\"impl\":{},\"nontrivial\":{}}}",
            g_str(s),
            g_str(got),
            jstr(&format!("{s:?}")),
            jstr(got),
            got != s
        )
        .unwrap();
    }
    std::fs::write(format!("{}/c34.cases", a.out), out).unwrap();
}

//! C19 correspondence: introspection modes gate schema metadata and user
//! resolvers.  The whole matrix
//!   flavour {static, dynamic} x federation {off, flag, entities} x schema mode
//!   {enabled, disabled, only} x request mode {enabled, disabled, only} x
//!   transport {execute, execute_stream} x operation type
//! is crossed with a fixed family of documents mixing the field classes
//! (__typename, __schema, __type, _service, _entities, user, unknown), bare
//! and inside inline fragments / fragment spreads, plus `n` random documents.
//! Every request runs on the REAL library; per case we print the config, the
//! parsed document and what was observed: which response keys carry which
//! class of value, whether data / errors were returned, and how often each
//! user resolver (query, mutation, subscription, entity) ran.
use std::fmt::Write as _;
use std::sync::Mutex;

use agv_harness::*;
use async_graphql::dynamic as dy;
use async_graphql::*;
use futures_util::StreamExt;

// ------------------------------------------------------------- resolver log --
static LOG: Mutex<[u32; 4]> = Mutex::new([0; 4]); // q, m, s, entity
fn hit(i: usize) {
    LOG.lock().unwrap()[i] += 1;
}
fn take_log() -> [u32; 4] {
    std::mem::take(&mut *LOG.lock().unwrap())
}

// ----------------------------------------------------------- static schemas --
#[derive(SimpleObject)]
struct User {
    id: ID,
}

struct QueryPlain;
#[Object(name = "Query")]
impl QueryPlain {
    async fn q(&self) -> i32 {
        hit(0);
        7
    }
}

struct QueryEnt;
#[Object(name = "Query")]
impl QueryEnt {
    async fn q(&self) -> i32 {
        hit(0);
        7
    }
    #[graphql(entity)]
    async fn find_user_by_id(&self, id: ID) -> User {
        hit(3);
        User { id }
    }
}

struct Mutation;
#[Object]
impl Mutation {
    async fn m(&self) -> i32 {
        hit(1);
        7
    }
}

struct Subscription;
#[Subscription]
impl Subscription {
    async fn s(&self) -> impl futures_util::Stream<Item = i32> {
        hit(2);
        futures_util::stream::iter(vec![7])
    }
}

#[derive(Clone, Copy, PartialEq, Eq, Debug)]
enum Mode {
    Enabled,
    Disabled,
    Only,
}
const MODES: [Mode; 3] = [Mode::Enabled, Mode::Disabled, Mode::Only];
impl Mode {
    fn g(self) -> &'static str {
        match self {
            Mode::Enabled => "MEnabled",
            Mode::Disabled => "MDisabled",
            Mode::Only => "MOnly",
        }
    }
}

#[derive(Clone, Copy, PartialEq, Eq, Debug)]
enum Fed {
    Off,
    Flag,
    Ent,
}
const FEDS: [Fed; 3] = [Fed::Off, Fed::Flag, Fed::Ent];
impl Fed {
    fn g(self) -> &'static str {
        match self {
            Fed::Off => "FedOff",
            Fed::Flag => "FedFlag",
            Fed::Ent => "FedEnt",
        }
    }
}

enum AnySchema {
    SP(Schema<QueryPlain, Mutation, Subscription>),
    SE(Schema<QueryEnt, Mutation, Subscription>),
    D(dy::Schema),
}

fn build_static(fed: Fed, sm: Mode) -> AnySchema {
    macro_rules! fin {
        ($q:expr, $variant:ident) => {{
            let mut b = Schema::build($q, Mutation, Subscription);
            b = match sm {
                Mode::Enabled => b,
                Mode::Disabled => b.disable_introspection(),
                Mode::Only => b.introspection_only(),
            };
            if fed == Fed::Flag {
                b = b.enable_federation();
            }
            AnySchema::$variant(b.finish())
        }};
    }
    match fed {
        Fed::Ent => fin!(QueryEnt, SE),
        _ => fin!(QueryPlain, SP),
    }
}

fn build_dynamic(fed: Fed, sm: Mode) -> AnySchema {
    let query = dy::Object::new("Query").field(dy::Field::new("q", dy::TypeRef::named_nn(dy::TypeRef::INT), |_| {
        dy::FieldFuture::new(async {
            hit(0);
            Ok(Some(Value::from(7)))
        })
    }));
    let mutation = dy::Object::new("Mutation").field(dy::Field::new("m", dy::TypeRef::named_nn(dy::TypeRef::INT), |_| {
        dy::FieldFuture::new(async {
            hit(1);
            Ok(Some(Value::from(7)))
        })
    }));
    let subscription = dy::Subscription::new("Subscription").field(dy::SubscriptionField::new(
        "s",
        dy::TypeRef::named_nn(dy::TypeRef::INT),
        |_| {
            dy::SubscriptionFieldFuture::new(async {
                hit(2);
                Ok(futures_util::stream::iter(vec![Ok(Value::from(7))]))
            })
        },
    ));
    let mut b = dy::Schema::build("Query", Some("Mutation"), Some("Subscription"))
        .register(query)
        .register(mutation)
        .register(subscription);
    b = match sm {
        Mode::Enabled => b,
        Mode::Disabled => b.disable_introspection(),
        Mode::Only => b.introspection_only(),
    };
    match fed {
        Fed::Off => {}
        Fed::Flag => b = b.enable_federation(),
        Fed::Ent => {
            let user = dy::Object::new("User")
                .field(dy::Field::new("id", dy::TypeRef::named_nn(dy::TypeRef::ID), |_| {
                    dy::FieldFuture::new(async { Ok(Some(dy::FieldValue::value("1"))) })
                }))
                .key("id");
            b = b.register(user).entity_resolver(|ctx| {
                dy::FieldFuture::new(async move {
                    hit(3);
                    let reps = ctx.args.try_get("representations")?.list()?;
                    let mut values = Vec::new();
                    for _ in reps.iter() {
                        values.push(dy::FieldValue::borrowed_any(&()).with_type("User"));
                    }
                    Ok(Some(dy::FieldValue::list(values)))
                })
            });
        }
    }
    AnySchema::D(b.finish().expect("dynamic schema builds"))
}

fn run(schema: &AnySchema, text: &str, rm: Mode, stream: bool) -> Vec<Response> {
    let mk = || {
        let r = Request::new(text);
        match rm {
            Mode::Enabled => r,
            Mode::Disabled => r.disable_introspection(),
            Mode::Only => r.only_introspection(),
        }
    };
    block_on(async {
        match (schema, stream) {
            (AnySchema::SP(s), false) => vec![s.execute(mk()).await],
            (AnySchema::SE(s), false) => vec![s.execute(mk()).await],
            (AnySchema::D(s), false) => vec![s.execute(mk()).await],
            (AnySchema::SP(s), true) => s.execute_stream(mk()).collect::<Vec<_>>().await,
            (AnySchema::SE(s), true) => s.execute_stream(mk()).collect::<Vec<_>>().await,
            (AnySchema::D(s), true) => s.execute_stream(mk()).collect::<Vec<_>>().await,
        }
    })
}

// ---------------------------------------------------------------- documents --
#[derive(Clone, Copy, PartialEq, Eq, Debug)]
enum Cls {
    Typename,
    Schema,
    Type,
    Service,
    Entities,
    User,
    Unknown,
}
const SIX: [Cls; 6] = [Cls::Typename, Cls::Schema, Cls::Type, Cls::Service, Cls::Entities, Cls::User];

#[derive(Clone, Copy, PartialEq, Eq, Debug)]
enum Op {
    Query,
    Mutation,
    Subscription,
}
const OPS: [Op; 3] = [Op::Query, Op::Mutation, Op::Subscription];
impl Op {
    fn kw(self) -> &'static str {
        match self {
            Op::Query => "query",
            Op::Mutation => "mutation",
            Op::Subscription => "subscription",
        }
    }
    fn root(self) -> &'static str {
        match self {
            Op::Query => "Query",
            Op::Mutation => "Mutation",
            Op::Subscription => "Subscription",
        }
    }
    fn user(self) -> &'static str {
        match self {
            Op::Query => "q",
            Op::Mutation => "m",
            Op::Subscription => "s",
        }
    }
}

/// A root selection tree before printing.
#[derive(Clone, Debug)]
enum Sel {
    F(Cls),
    K(usize, Cls), // explicit alias number (repeated response keys)
    Inline(Option<&'static str>, Vec<Sel>),
    Spread(usize), // index into the fragment list
}

struct DocB {
    op: Op,
    sels: Vec<Sel>,
    frags: Vec<(&'static str, Vec<Sel>)>, // type condition, body
}

struct Printer<'a> {
    op: Op,
    k: usize,
    variant: usize,
    frags: &'a [(&'static str, Vec<Sel>)],
}

impl Printer<'_> {
    fn field(&mut self, c: Cls) -> String {
        let k = self.k;
        self.k += 1;
        self.field_k(k, c)
    }
    fn field_k(&mut self, k: usize, c: Cls) -> String {
        let v = self.variant + k;
        let body = match c {
            Cls::Typename => "__typename".to_string(),
            Cls::Schema => ["__schema { queryType { name } }", "__schema { types { name kind } }", "__schema { directives { name } mutationType { name } }"][v % 3].to_string(),
            Cls::Type => [
                "__type(name: \"Query\") { name }",
                "__type(name: \"Query\") { kind fields { name } }",
                "__type(name: \"Mutation\") { name fields { name type { name kind } } }",
            ][v % 3]
                .to_string(),
            Cls::Service => "_service { sdl }".to_string(),
            Cls::Entities => [
                "_entities(representations: [{__typename: \"User\", id: \"1\"}]) { __typename }",
                "_entities(representations: [{__typename: \"User\", id: \"2\"}]) { ... on User { id } }",
            ][v % 2]
                .to_string(),
            Cls::User => self.op.user().to_string(),
            Cls::Unknown => ["zz", "q", "m", "s"].iter().filter(|x| **x != self.op.user()).nth(v % 3).unwrap().to_string(),
        };
        format!("k{k}: {body}")
    }
    fn sels(&mut self, ss: &[Sel]) -> String {
        let mut o = String::new();
        for s in ss {
            match s {
                Sel::F(c) => o.push_str(&self.field(*c)),
                Sel::K(k, c) => o.push_str(&self.field_k(*k, *c)),
                Sel::Inline(cond, sub) => {
                    let inner = self.sels(sub);
                    match cond {
                        Some(c) => write!(o, "... on {c} {{ {inner} }}").unwrap(),
                        None => write!(o, "... {{ {inner} }}").unwrap(),
                    }
                }
                Sel::Spread(i) => write!(o, "...F{i}").unwrap(),
            }
            o.push(' ');
        }
        o
    }
}

/// Aliases are numbered in textual order; fragments bodies are printed after
/// the operation, so a spread's fields get higher numbers than the fields that
/// follow the spread in the operation.  The harness only needs the aliases to
/// be unique; the order of the observation is the order of the response.
fn print_doc(d: &DocB, variant: usize) -> String {
    let mut p = Printer { op: d.op, k: 0, variant, frags: &d.frags };
    let body = p.sels(&d.sels);
    let mut o = format!("{} {{ {}}}", d.op.kw(), body);
    for (i, (cond, sub)) in d.frags.iter().enumerate() {
        let inner = p.sels(sub);
        write!(o, " fragment F{i} on {cond} {{ {inner}}}").unwrap();
    }
    let _ = p.frags;
    o
}

/// (document, is a single-field document)
fn fixed_docs(op: Op, full: bool) -> Vec<(DocB, bool)> {
    let mut v = vec![];
    let root = op.root();
    let mk = |sels: Vec<Sel>, frags: Vec<(&'static str, Vec<Sel>)>| (DocB { op, sels, frags }, false);
    let classes: Vec<Cls> = match (op, full) {
        (Op::Query, _) => SIX.to_vec(),
        // on the other roots only __typename, the user field and metadata
        // classes are worth pairing (the rest is rejected by validation alike)
        (_, true) => vec![Cls::Typename, Cls::Schema, Cls::Service, Cls::User],
        (_, false) => vec![Cls::Typename, Cls::Schema, Cls::User],
    };
    // singles: all seven classes on every root
    for c in SIX.iter().chain([Cls::Unknown].iter()) {
        v.push((DocB { op, sels: vec![Sel::F(*c)], frags: vec![] }, true));
    }
    // pairs (incl. the same class twice); ordered in the thorough tier
    for (i, a) in classes.iter().enumerate() {
        for (j, b) in classes.iter().enumerate() {
            if full || i <= j {
                v.push(mk(vec![Sel::F(*a), Sel::F(*b)], vec![]));
            }
        }
    }
    // everything, both orders
    v.push(mk(classes.iter().map(|c| Sel::F(*c)).collect(), vec![]));
    v.push(mk(classes.iter().rev().map(|c| Sel::F(*c)).collect(), vec![]));
    // fragment shapes around every class
    for c in &classes {
        v.push(mk(vec![Sel::Inline(None, vec![Sel::F(*c)])], vec![]));
        v.push(mk(vec![Sel::Inline(Some(root), vec![Sel::F(*c)])], vec![]));
        v.push(mk(vec![Sel::Spread(0)], vec![(root, vec![Sel::F(*c)])]));
        v.push(mk(
            vec![Sel::F(Cls::Typename), Sel::Inline(None, vec![Sel::Spread(0), Sel::F(Cls::User)])],
            vec![(root, vec![Sel::Inline(Some(root), vec![Sel::F(*c)])])],
        ));
        v.push(mk(vec![Sel::Spread(0), Sel::F(*c)], vec![(root, vec![Sel::Spread(1)]), (root, vec![Sel::F(Cls::Typename)])]));
    }
    // a repeated response key (same field twice; merged in the response)
    v.push(mk(vec![Sel::K(90, Cls::Typename), Sel::K(90, Cls::Typename)], vec![]));
    v.push(mk(vec![Sel::K(90, Cls::User), Sel::F(Cls::Typename), Sel::K(90, Cls::User)], vec![]));
    v.push(mk(vec![Sel::Spread(0), Sel::Spread(0)], vec![(root, vec![Sel::F(Cls::User), Sel::F(Cls::Typename)])]));
    // a fragment on a type that is not the root (rejected by validation)
    v.push(mk(vec![Sel::Inline(Some("User"), vec![Sel::F(Cls::Typename)])], vec![]));
    v.push(mk(vec![Sel::F(Cls::User), Sel::Inline(Some("Nope"), vec![Sel::F(Cls::Typename)])], vec![]));
    v
}

fn random_doc(r: &mut Rng, op: Op) -> DocB {
    let root = op.root();
    fn cls(r: &mut Rng, op: Op) -> Cls {
        match op {
            Op::Query => match r.below(20) {
                0 => Cls::Unknown,
                k => SIX[k % 6],
            },
            _ => match r.below(12) {
                0 => Cls::Unknown,
                1 => Cls::Schema,
                2 => Cls::Service,
                k if k % 2 == 0 => Cls::Typename,
                _ => Cls::User,
            },
        }
    }
    fn sels(r: &mut Rng, op: Op, root: &'static str, depth: usize, nfrag: usize, lo: usize) -> Vec<Sel> {
        let n = 1 + r.below(4);
        (0..n)
            .map(|_| match r.below(10) {
                0 | 1 if depth < 3 => Sel::Inline(if r.chance(1, 2) { Some(root) } else { None }, sels(r, op, root, depth + 1, nfrag, lo)),
                2 if lo < nfrag => Sel::Spread(lo + r.below(nfrag - lo)),
                _ => Sel::F(cls(r, op)),
            })
            .collect()
    }
    let nfrag = r.below(3);
    // fragment i may only spread fragments with a larger index (acyclic)
    let frags: Vec<(&'static str, Vec<Sel>)> = (0..nfrag).map(|i| (root, sels(r, op, root, 1, nfrag, i + 1))).collect();
    let mut top = sels(r, op, root, 0, nfrag, 0);
    // every fragment must be used (NoUnusedFragments): spread the unreachable ones at the top
    fn mark(ss: &[Sel], frags: &[(&'static str, Vec<Sel>)], seen: &mut Vec<bool>) {
        for s in ss {
            match s {
                Sel::F(_) | Sel::K(..) => {}
                Sel::Inline(_, sub) => mark(sub, frags, seen),
                Sel::Spread(i) => {
                    if !seen[*i] {
                        seen[*i] = true;
                        mark(&frags[*i].1, frags, seen);
                    }
                }
            }
        }
    }
    let mut seen = vec![false; nfrag];
    mark(&top, &frags, &mut seen);
    for i in 0..nfrag {
        if !seen[i] {
            top.push(Sel::Spread(i));
            seen[i] = true;
            mark(&frags[i].1, &frags, &mut seen);
        }
    }
    DocB { op, sels: top, frags }
}

// -------------------------------------------------------------- observation --
fn vclass(it: &mut Interner, v: &Value) -> String {
    match v {
        Value::Null => "VcNull".into(),
        Value::String(s) => format!("(VcTypename {})", it.n(s)),
        Value::Number(_) => "VcUser".into(),
        Value::List(_) => "VcEntity".into(),
        Value::Object(m) => {
            if matches!(m.get("sdl"), Some(Value::String(_))) {
                "VcSdl".into()
            } else {
                "VcMeta".into()
            }
        }
        _ => "VcOther".into(),
    }
}

fn alias_no(k: &str) -> usize {
    k.trim_start_matches('k').parse().unwrap_or(usize::MAX)
}

fn jstr(s: &str) -> String {
    serde_json::to_string(s).unwrap()
}

fn main() {
    let a = parse_args();
    let mut rng = Rng::new(a.seed);
    let mut it = Interner::new();
    // fixed ids used as constants by coq/theories/IntroModes.v
    for s in ["_service", "_entities", "q", "m", "s", "Query", "Mutation", "Subscription", "EmptyMutation", "User"] {
        it.id(s);
    }
    let mut out = String::new();
    // schemas: flavour x fed x schema mode
    let mut schemas: Vec<(bool, Fed, Mode, AnySchema)> = vec![];
    for dynamic in [false, true] {
        for fed in FEDS {
            for sm in MODES {
                schemas.push((dynamic, fed, sm, if dynamic { build_dynamic(fed, sm) } else { build_static(fed, sm) }));
            }
        }
    }
    // documents: the fixed family, then n random ones.  n >= 500 (thorough
    // tier): every fixed document on all 108 configurations.  Otherwise:
    // single-field documents of every class on all 108 configurations, the
    // other query/mutation documents on the 54 configurations of the
    // `execute` transport (execute_stream hands queries and mutations to the
    // same execute_once), the other subscription documents on the 54
    // configurations of `execute_stream`.
    let full = a.n >= 500;
    #[derive(Clone, Copy, PartialEq)]
    enum Cover {
        All,
        ExecuteOnly,
        StreamOnly,
        Random,
    }
    let mut docs: Vec<(Op, String, Cover)> = vec![];
    for op in OPS {
        for (i, (d, single)) in fixed_docs(op, full).iter().enumerate() {
            let cover = if full || *single {
                Cover::All
            } else if op == Op::Subscription {
                Cover::StreamOnly // `execute` answers every subscription "not supported on this transport"
            } else {
                Cover::ExecuteOnly
            };
            docs.push((op, print_doc(d, i), cover));
        }
    }
    for i in 0..a.n {
        let op = OPS[rng.below(3)];
        let d = random_doc(&mut rng, op);
        docs.push((op, print_doc(&d, i), Cover::Random));
    }
    let mut seen = std::collections::HashSet::new();
    let mut ndoc = 0usize;
    for (op, text, cover) in &docs {
        if !seen.insert(text.clone()) {
            continue;
        }
        let parsed = match async_graphql::parser::parse_query(text) {
            Ok(p) => p,
            Err(e) => {
                eprintln!("generated document does not parse: {text}: {e}");
                std::process::exit(2);
            }
        };
        let dname = format!("d{ndoc}");
        ndoc += 1;
        writeln!(out, "DEF\t{dname}\t{}", g_document(&mut it, &parsed)).unwrap();
        // fixed documents run on the whole configuration matrix; a random
        // document on 12 random configurations
        let mut cfgs: Vec<(usize, Mode, bool)> = vec![];
        if *cover != Cover::Random {
            for si in 0..schemas.len() {
                for rm in MODES {
                    for stream in [false, true] {
                        if *cover == Cover::All || (stream && *cover == Cover::StreamOnly) || (!stream && *cover == Cover::ExecuteOnly) {
                            cfgs.push((si, rm, stream));
                        }
                    }
                }
            }
        } else {
            for _ in 0..12 {
                cfgs.push((rng.below(schemas.len()), MODES[rng.below(3)], rng.chance(1, 2)));
            }
        }
        for (si, rm, stream) in cfgs {
            let (dynamic, fed, sm, schema) = &schemas[si];
            take_log();
            let resps = run(schema, text, rm, stream);
            let log = take_log();
            let mut data = false;
            let mut err = false;
            let mut fields: Vec<(String, String)> = vec![];
            for r in &resps {
                if !r.errors.is_empty() {
                    err = true;
                }
                if let Value::Object(m) = &r.data {
                    data = true;
                    for (k, v) in m.iter() {
                        fields.push((k.to_string(), vclass(&mut it, v)));
                    }
                }
            }
            if resps.len() > 1 {
                fields.sort_by_key(|(k, _)| alias_no(k));
            }
            let obs = format!(
                "{{| o_data := {}; o_err := {}; o_fields := {}; o_log := ({}%N, {}%N, {}%N, {}%N) |}}",
                g_bool(data),
                g_bool(err),
                g_list(fields.iter(), |(k, c)| format!("({}, {})", it.n(k), c)),
                log[0],
                log[1],
                log[2],
                log[3]
            );
            let cfg = format!(
                "{{| c_flav := {}; c_fed := {}; c_smode := {}; c_rmode := {}; c_stream := {} |}}",
                if *dynamic { "Dynamic" } else { "Static" },
                fed.g(),
                sm.g(),
                rm.g(),
                g_bool(stream)
            );
            let human = format!(
                "[{} {} schema={:?} request={:?} {}] {}",
                if *dynamic { "dynamic" } else { "static" },
                fed.g(),
                sm,
                rm,
                if stream { "execute_stream" } else { "execute" },
                text
            );
            let impl_h = format!(
                "data={} errors={} fields=[{}] ran(q,m,s,entity)={:?}{}",
                data,
                err,
                fields.iter().map(|(k, c)| format!("{k}:{c}")).collect::<Vec<_>>().join(" "),
                log,
                resps.iter().flat_map(|r| r.errors.first()).next().map(|e| format!(" first-error={}", e.message)).unwrap_or_default()
            );
            let nontrivial = log.iter().any(|x| *x > 0) || fields.iter().any(|(_, c)| c != "VcNull");
            let _ = op;
            writeln!(
                out,
                "CASE\t({cfg}, {dname}, {obs})\t{{\"uses\":[{}],\"text\":{},\"impl\":{},\"nontrivial\":{}}}",
                jstr(&dname),
                jstr(&human),
                jstr(&impl_h),
                nontrivial
            )
            .unwrap();
        }
    }
    writeln!(out, "NAMES\t\t{}", serde_json::to_string(&it.names).unwrap()).unwrap();
    std::fs::write(format!("{}/c19.cases", a.out), out).unwrap();
}

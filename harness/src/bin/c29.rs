//! C29 correspondence: operation histories (load / feed / clear / clear_one /
//! enable_cache / enable_all_cache / get_cached_values) over two key types run
//! on the REAL `DataLoader` with `NoCache`, `HashMapCache` and `LruCache(cap)`.
//! Spawned tasks go to a queue polled by hand, the timer is ready at once, the
//! loader answers what the history says and records the keys it was given and
//! the iteration order of the map it returns (the order in which `do_load`
//! inserts into the cache).  Every operation runs to completion before the
//! next one starts; panics are caught per operation.
use std::collections::HashMap;
use std::fmt::Write as _;
use std::future::Future;
use std::panic::{AssertUnwindSafe, catch_unwind};
use std::sync::{Arc, Mutex};
use std::task::{Context, Poll};
use std::time::Duration;

use agv_harness::*;
use async_graphql::dataloader::*;
use async_graphql::runtime::Timer;
use futures_util::future::BoxFuture;
use futures_util::task::{FutureObj, Spawn, SpawnError, noop_waker};

#[derive(Clone, Debug)]
enum Resp {
    Ok(Vec<(u64, u64)>),
    Err(u64),
}

#[derive(Default)]
struct Ctl {
    next: Option<Resp>,
    /// (keys given to the loader, pairs of the returned map in iteration order)
    calls: Vec<(Vec<u64>, Vec<(u64, u64)>)>,
}

struct L(Arc<Mutex<Ctl>>);

macro_rules! impl_loader {
    ($t:ty) => {
        impl Loader<$t> for L {
            type Value = u64;
            type Error = u64;
            async fn load(&self, keys: &[$t]) -> Result<HashMap<$t, u64>, u64> {
                let mut c = self.0.lock().unwrap();
                let ks: Vec<u64> = keys.iter().map(|k| *k as u64).collect();
                match c.next.clone().unwrap_or(Resp::Ok(vec![])) {
                    Resp::Ok(v) => {
                        let m: HashMap<$t, u64> = v.iter().map(|(k, x)| (*k as $t, *x)).collect();
                        let order = m.iter().map(|(k, x)| (*k as u64, *x)).collect();
                        c.calls.push((ks, order));
                        Ok(m)
                    }
                    Resp::Err(e) => {
                        c.calls.push((ks, vec![]));
                        Err(e)
                    }
                }
            }
        }
    };
}
impl_loader!(i32);
impl_loader!(i64);

#[derive(Clone, Default)]
struct Q(Arc<Mutex<Vec<FutureObj<'static, ()>>>>);
impl Spawn for Q {
    fn spawn_obj(&self, f: FutureObj<'static, ()>) -> Result<(), SpawnError> {
        self.0.lock().unwrap().push(f);
        Ok(())
    }
}

struct NowTimer;
impl Timer for NowTimer {
    fn delay(&self, _d: Duration) -> BoxFuture<'static, ()> {
        Box::pin(async {})
    }
}

enum Run<T> {
    Done(T),
    Panic,
    Hang,
}

/// Poll `fut` to completion, running every spawned task in between.
fn drive<F: Future>(fut: F, q: &Q) -> Run<F::Output> {
    let mut fut = Box::pin(fut);
    let w = noop_waker();
    let mut cx = Context::from_waker(&w);
    for _ in 0..64 {
        match catch_unwind(AssertUnwindSafe(|| fut.as_mut().poll(&mut cx))) {
            Err(_) => return Run::Panic,
            Ok(Poll::Ready(v)) => return Run::Done(v),
            Ok(Poll::Pending) => {}
        }
        for _ in 0..64 {
            let tasks: Vec<_> = std::mem::take(&mut *q.0.lock().unwrap());
            if tasks.is_empty() {
                break;
            }
            for mut t in tasks {
                let mut done = false;
                for _ in 0..16 {
                    match catch_unwind(AssertUnwindSafe(|| std::pin::Pin::new(&mut t).poll(&mut cx))) {
                        Err(_) => {
                            done = true;
                            break;
                        }
                        Ok(Poll::Ready(())) => {
                            done = true;
                            break;
                        }
                        Ok(Poll::Pending) => {}
                    }
                }
                if !done {
                    q.0.lock().unwrap().push(t);
                    return Run::Hang;
                }
            }
        }
    }
    Run::Hang
}

#[derive(Clone, Debug)]
enum Op {
    Load(u8, Vec<u64>, Resp),
    Feed(u8, Vec<(u64, u64)>),
    Clear(u8),
    ClearOne(u8, u64),
    EnableAll(bool),
    Enable(u8, bool),
    Cached(u8),
}

#[derive(Clone, Copy, Debug, PartialEq)]
enum Kind {
    No,
    Hash,
    Lru(usize),
}

fn n(x: u64) -> String {
    format!("{}%N", x)
}
fn g_keys(v: &[u64]) -> String {
    g_list(v.iter(), |k| n(*k))
}
fn g_kvs(v: &[(u64, u64)]) -> String {
    g_list(v.iter(), |(k, x)| format!("({}, {})", n(*k), n(*x)))
}
fn canon(v: &[u64]) -> Vec<u64> {
    let mut c = v.to_vec();
    c.sort();
    c.dedup();
    c
}

/// Run one operation on the real loader; returns (gallina op, gallina obs, text of obs).
fn exec<C: CacheFactory>(dl: &DataLoader<L, C>, ctl: &Arc<Mutex<Ctl>>, q: &Q, op: &Op) -> (String, String, String) {
    macro_rules! by_tid {
        ($t:expr, $k:ident, $body:expr) => {
            if $t == 0 {
                type $k = i32;
                $body
            } else {
                type $k = i64;
                $body
            }
        };
    }
    let unit = |r: Run<()>| match r {
        Run::Done(()) => ("BUnit".to_string(), "unit".to_string()),
        Run::Panic => ("BPanic".to_string(), "PANIC".to_string()),
        Run::Hang => ("(BOther 1%N)".to_string(), "HANG".to_string()),
    };
    let sync = |f: &dyn Fn()| match catch_unwind(AssertUnwindSafe(f)) {
        Ok(()) => Run::Done(()),
        Err(_) => Run::Panic,
    };
    match op {
        Op::Load(t, keys, resp) => {
            {
                let mut c = ctl.lock().unwrap();
                c.next = Some(resp.clone());
                c.calls.clear();
            }
            let r: Run<Result<HashMap<u64, u64>, u64>> = by_tid!(*t, K, {
                match drive(dl.load_many::<K, _>(keys.iter().map(|k| *k as K).collect::<Vec<_>>()), q) {
                    Run::Done(r) => Run::Done(r.map(|m| m.into_iter().map(|(k, v)| (k as u64, v)).collect())),
                    Run::Panic => Run::Panic,
                    Run::Hang => Run::Hang,
                }
            });
            let calls = std::mem::take(&mut ctl.lock().unwrap().calls);
            // the response in the order the returned map iterates (= cache insertion order)
            let resp_g = match (resp, calls.first()) {
                (Resp::Ok(_), Some((_, order))) => format!("(LOk {})", g_kvs(order)),
                (Resp::Ok(v), None) => format!("(LOk {})", g_kvs(v)),
                (Resp::Err(e), _) => format!("(LErr {})", n(*e)),
            };
            let opg = format!("(OLoad {} {} {})", n(*t as u64), g_keys(keys), resp_g);
            let mut anomaly = None;
            if calls.len() > 1 {
                anomaly = Some(3);
            }
            let called = calls.first().map(|(ks, _)| {
                if canon(ks).len() != ks.len() {
                    anomaly = Some(4); // a key twice in one batch
                }
                canon(ks)
            });
            let (obs, txt) = match r {
                Run::Panic => ("BPanic".to_string(), "PANIC".to_string()),
                Run::Hang => ("(BOther 1%N)".to_string(), "HANG".to_string()),
                Run::Done(res) => {
                    let cg = g_opt(called.as_ref(), |c| g_keys(c));
                    match res {
                        Err(e) => (format!("(BLoad {} (RErr {}))", cg, n(e)), format!("loader{:?} -> Err({})", called, e)),
                        Ok(m) => {
                            let ck = canon(keys);
                            if m.keys().any(|k| !ck.contains(k)) {
                                anomaly = Some(2);
                            }
                            let pairs: Vec<(u64, Option<u64>)> = ck.iter().map(|k| (*k, m.get(k).copied())).collect();
                            (
                                format!(
                                    "(BLoad {} (ROk {}))",
                                    cg,
                                    g_list(pairs.iter(), |(k, v)| format!("({}, {})", n(*k), g_opt(*v, n)))
                                ),
                                format!("loader{:?} -> {:?}", called, pairs),
                            )
                        }
                    }
                }
            };
            match anomaly {
                Some(a) => (opg, format!("(BOther {})", n(a)), format!("ANOMALY{a} {txt}")),
                None => (opg, obs, txt),
            }
        }
        Op::Feed(t, kvs) => {
            let r = by_tid!(*t, K, drive(dl.feed_many::<K, _>(kvs.iter().map(|(k, v)| (*k as K, *v)).collect::<Vec<_>>()), q));
            let (o, s) = unit(r);
            (format!("(OFeed {} {})", n(*t as u64), g_kvs(kvs)), o, s)
        }
        Op::Clear(t) => {
            let r = by_tid!(*t, K, sync(&|| dl.clear::<K>()));
            let (o, s) = unit(r);
            (format!("(OClear {})", n(*t as u64)), o, s)
        }
        Op::ClearOne(t, k) => {
            let r = by_tid!(*t, K, sync(&|| dl.clear_one::<K>(&(*k as K))));
            let (o, s) = unit(r);
            (format!("(OClearOne {} {})", n(*t as u64), n(*k)), o, s)
        }
        Op::EnableAll(b) => {
            let r = sync(&|| dl.enable_all_cache(*b));
            let (o, s) = unit(r);
            (format!("(OEnableAll {})", g_bool(*b)), o, s)
        }
        Op::Enable(t, b) => {
            let r = by_tid!(*t, K, drive(dl.enable_cache::<K>(*b), q));
            let (o, s) = unit(r);
            (format!("(OEnable {} {})", n(*t as u64), g_bool(*b)), o, s)
        }
        Op::Cached(t) => {
            let r: Run<Vec<(u64, u64)>> = by_tid!(*t, K, {
                match drive(dl.get_cached_values::<K>(), q) {
                    Run::Done(m) => {
                        let mut v: Vec<(u64, u64)> = m.into_iter().map(|(k, x)| (k as u64, x)).collect();
                        v.sort();
                        Run::Done(v)
                    }
                    Run::Panic => Run::Panic,
                    Run::Hang => Run::Hang,
                }
            });
            let opg = format!("(OCached {})", n(*t as u64));
            match r {
                Run::Done(v) => (opg, format!("(BCached {})", g_kvs(&v)), format!("cached {:?}", v)),
                Run::Panic => (opg, "BPanic".into(), "PANIC".into()),
                Run::Hang => (opg, "(BOther 1%N)".into(), "HANG".into()),
            }
        }
    }
}

fn run_history(kind: Kind, batch: usize, ops: &[Op]) -> (String, String, bool) {
    let ctl = Arc::new(Mutex::new(Ctl::default()));
    let q = Q::default();
    let mut items = vec![];
    let mut texts = vec![];
    let mut go = |f: &mut dyn FnMut(&Op) -> (String, String, String)| {
        for op in ops {
            let (o, b, t) = f(op);
            items.push(format!("({}, {})", o, b));
            texts.push(t);
        }
    };
    match kind {
        Kind::No => {
            let dl = DataLoader::new(L(ctl.clone()), q.clone(), NowTimer).max_batch_size(batch);
            go(&mut |op| exec(&dl, &ctl, &q, op));
        }
        Kind::Hash => {
            let dl = DataLoader::with_cache(L(ctl.clone()), q.clone(), NowTimer, HashMapCache::default()).max_batch_size(batch);
            go(&mut |op| exec(&dl, &ctl, &q, op));
        }
        Kind::Lru(c) => {
            let dl = DataLoader::with_cache(L(ctl.clone()), q.clone(), NowTimer, LruCache::new(c)).max_batch_size(batch);
            go(&mut |op| exec(&dl, &ctl, &q, op));
        }
    }
    let kg = match kind {
        Kind::No => "KNo".to_string(),
        Kind::Hash => "KHash".to_string(),
        Kind::Lru(c) => format!("(KLru {}%nat)", c),
    };
    let nontrivial = texts.iter().any(|t| t.contains("Some(") || t.contains("cached [("));
    (format!("({}, [{}])", kg, items.join("; ")), texts.join(" | "), nontrivial)
}

fn gen_history(r: &mut Rng, step0: u64) -> Vec<Op> {
    let nkeys = 2 + r.below(5) as u64;
    let ntids = 1 + r.below(2) as u8;
    let len = 1 + r.below(40);
    let mut ops = vec![];
    let mut step = step0;
    let key = |r: &mut Rng| r.below(nkeys as usize) as u64;
    if r.chance(1, 2) {
        // start by using every key type (keeps most histories outside the known class)
        for t in 0..ntids {
            let kvs: Vec<(u64, u64)> = (0..r.below(3)).map(|_| (key(r), 500 + r.below(100) as u64)).collect();
            ops.push(Op::Feed(t, kvs));
        }
    }
    while ops.len() < len {
        step += 1;
        let t = r.below(ntids as usize) as u8;
        let w = r.below(100);
        let op = if w < 42 {
            let nk = if r.chance(1, 12) { 0 } else { 1 + r.below(4) };
            let keys: Vec<u64> = (0..nk).map(|_| key(r)).collect();
            let resp = if r.chance(1, 12) {
                Resp::Err(1 + r.below(3) as u64)
            } else {
                let mut v: Vec<(u64, u64)> = vec![];
                for k in canon(&keys) {
                    if r.chance(9, 10) {
                        v.push((k, 1000 + (step % 50) * 10 + k));
                    }
                }
                if r.chance(1, 8) {
                    let k = key(r);
                    if !v.iter().any(|(x, _)| *x == k) {
                        v.push((k, 1000 + (step % 50) * 10 + k));
                    }
                }
                Resp::Ok(v)
            };
            Op::Load(t, keys, resp)
        } else if w < 57 {
            let nk = r.below(4);
            Op::Feed(t, (0..nk).map(|_| (key(r), 500 + r.below(100) as u64)).collect())
        } else if w < 62 {
            Op::Clear(t)
        } else if w < 72 {
            Op::ClearOne(t, key(r))
        } else if w < 79 {
            Op::EnableAll(r.chance(1, 2))
        } else if w < 87 {
            Op::Enable(t, r.chance(1, 2))
        } else {
            Op::Cached(t)
        };
        ops.push(op);
    }
    ops
}

fn jstr(s: &str) -> String {
    serde_json::to_string(s).unwrap()
}

fn main() {
    std::panic::set_hook(Box::new(|_| {}));
    let a = parse_args();
    // fork: Rng::new(s+1) is Rng::new(s) advanced by one draw; the fork's state is a mixed output
    let mut rng = Rng::new(a.seed).fork();
    let mut out = String::new();
    let ok = |v: &[(u64, u64)]| Resp::Ok(v.to_vec());
    // ---- fixed corpus: witnesses of the known finding and boundary cases
    let mut fixed: Vec<(Kind, Vec<Op>)> = vec![];
    for kind in [Kind::No, Kind::Hash, Kind::Lru(1), Kind::Lru(2), Kind::Lru(3)] {
        // enable_cache before first use
        fixed.push((kind, vec![Op::Enable(0, false)]));
        fixed.push((kind, vec![Op::Enable(1, true), Op::Load(1, vec![1], ok(&[(1, 11)])), Op::Load(1, vec![1], ok(&[(1, 12)]))]));
        fixed.push((kind, vec![Op::Cached(0), Op::EnableAll(false), Op::Enable(0, false), Op::Cached(0)]));
        fixed.push((kind, vec![Op::Load(0, vec![1], ok(&[(1, 11)])), Op::Enable(1, false), Op::Load(1, vec![1], ok(&[(1, 21)])), Op::Load(1, vec![1], ok(&[(1, 22)]))]));
        // an empty load creates the entry
        fixed.push((kind, vec![Op::Load(0, vec![], ok(&[])), Op::Enable(0, false), Op::Feed(0, vec![(1, 501)]), Op::Load(0, vec![1], ok(&[(1, 11)])), Op::Enable(0, true), Op::Load(0, vec![1], ok(&[(1, 12)]))]));
        // clear / clear_one / cached before use
        fixed.push((kind, vec![Op::Clear(0), Op::Enable(0, false), Op::ClearOne(1, 3), Op::Enable(1, true), Op::Cached(0), Op::Cached(1)]));
        // feed, hit, partial hit, loader error, missing key, extra key
        fixed.push((kind, vec![
            Op::Feed(0, vec![(1, 501), (2, 502), (3, 503)]),
            Op::Load(0, vec![1, 2, 3], ok(&[])),
            Op::Load(0, vec![1, 5, 6, 5], ok(&[(5, 15), (6, 16)])),
            Op::Load(0, vec![7, 8], Resp::Err(2)),
            Op::Load(0, vec![7, 8], ok(&[(8, 18), (9, 19)])),
            Op::Cached(0),
            Op::Load(0, vec![7, 8, 9], ok(&[(7, 27)])),
            Op::Clear(0),
            Op::Load(0, vec![1, 2], ok(&[(1, 31), (2, 32)])),
            Op::Cached(0),
        ]));
        // disable: loader values, cache not updated; enable again: old cached values
        fixed.push((kind, vec![
            Op::Feed(0, vec![(1, 501), (2, 502)]),
            Op::EnableAll(false),
            Op::Load(0, vec![1, 2, 3], ok(&[(1, 11), (2, 12), (3, 13)])),
            Op::Cached(0),
            Op::EnableAll(true),
            Op::Load(0, vec![1, 2, 3], ok(&[(3, 23)])),
            Op::Enable(0, false),
            Op::Load(0, vec![1, 3], ok(&[(1, 31), (3, 33)])),
            Op::Feed(0, vec![(4, 504)]),
            Op::Enable(0, true),
            Op::Load(0, vec![1, 3, 4], ok(&[])),
            Op::Cached(0),
        ]));
        // recency: promotion by a hit, eviction by feed and by load
        fixed.push((kind, vec![
            Op::Feed(0, vec![(1, 501), (2, 502)]),
            Op::Load(0, vec![1], ok(&[(1, 11)])),
            Op::Feed(0, vec![(3, 503)]),
            Op::Cached(0),
            Op::Load(0, vec![2, 1, 3], ok(&[(2, 12), (1, 13), (3, 14)])),
            Op::Cached(0),
            Op::Load(0, vec![4, 5], ok(&[(4, 14), (5, 15)])),
            Op::Cached(0),
            Op::ClearOne(0, 5),
            Op::Feed(0, vec![(6, 506)]),
            Op::Cached(0),
            Op::Feed(0, vec![(6, 507), (6, 508)]),
            Op::Cached(0),
        ]));
    }
    let mut seen = std::collections::HashSet::new();
    let mut emit = |out: &mut String, stream: &str, kind: Kind, batch: usize, ops: &[Op]| {
        let (g, txt, nontrivial) = run_history(kind, batch, ops);
        let text = format!("{:?} batch={} {:?}", kind, batch, ops);
        if !seen.insert(text.clone()) {
            return false;
        }
        writeln!(out, "{}\t{}\t{{\"text\":{},\"impl\":{},\"nontrivial\":{}}}", stream, g, jstr(&text), jstr(&txt), nontrivial).unwrap();
        true
    };
    let mut count = 0usize;
    for (kind, ops) in &fixed {
        for batch in [1usize, 1000] {
            if emit(&mut out, "CASE", *kind, batch, ops) {
                count += 1;
            }
        }
    }
    // ---- LruCache::new(0): configuration outside the property (model = code only)
    for ops in [
        vec![Op::Cached(0), Op::EnableAll(false), Op::Feed(0, vec![(1, 501)]), Op::Cached(0)],
        vec![Op::Load(0, vec![1], ok(&[(1, 11)])), Op::Enable(0, true)],
        vec![Op::Clear(0), Op::ClearOne(1, 2), Op::Load(1, vec![], ok(&[]))],
    ] {
        emit(&mut out, "CFG", Kind::Lru(0), 1000, &ops);
    }
    // ---- random histories
    let mut step0 = 0u64;
    while count < a.n {
        let kind = match rng.below(10) {
            0 => Kind::No,
            1 | 2 | 3 => Kind::Hash,
            _ => Kind::Lru(1 + rng.below(4)),
        };
        let batch = *rng.pick(&[1usize, 2, 3, 1000, 1000]);
        step0 += 7;
        let ops = gen_history(&mut rng, step0);
        if emit(&mut out, "CASE", kind, batch, &ops) {
            count += 1;
        }
    }
    std::fs::write(format!("{}/c29.cases", a.out), out).unwrap();
}

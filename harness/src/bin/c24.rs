//! C24 correspondence: generated multipart/form-data bodies (part order
//! permutations, several paths per file, batch paths, missing and extra
//! files, odd path spellings, sizes around the limits) under generated
//! MultipartOptions through the REAL receive_batch_body ->
//! receive_batch_multipart, plus Request::set_upload in isolation.
#[path = "../httpgen.rs"]
mod httpgen;

use std::fmt::Write as _;

use agv_harness::*;
use async_graphql::http::*;
use async_graphql::*;
use httpgen::*;

fn vars_template(r: &mut Rng) -> Vec<(String, J)> {
    let mut v: Vec<(String, J)> = vec![
        ("file".into(), J::Null),
        ("files".into(), J::Arr(vec![J::Null, J::Null, J::Null])),
        ("o".into(), J::Obj(vec![("f".into(), J::Null), ("g".into(), J::Arr(vec![J::Null, J::Obj(vec![("h".into(), J::Null)])])), ("1".into(), J::Int(7))])),
        ("x".into(), J::Int(1)),
    ];
    if r.chance(1, 3) {
        v.push(("".into(), J::Null));
    }
    if r.chance(1, 3) {
        v.remove(r.below(3));
    }
    v.sort_by(|a, b| a.0.cmp(&b.0));
    v
}

const PATHS: &[&str] = &[
    "variables.file",
    "variables.file",
    "variables.files.0",
    "variables.files.1",
    "variables.files.2",
    "variables.files.01",
    "variables.files.+1",
    "variables.files.3",
    "variables.files.-1",
    "variables.files.4294967296",
    "variables.files.x",
    "variables.files",
    "variables.o.f",
    "variables.o.g.0",
    "variables.o.g.1.h",
    "variables.o.g.1.h.z",
    "variables.o.1",
    "variables.o",
    "variables.x",
    "variables.x.y",
    "variables.nosuch",
    "variables.",
    "variables",
    "variables..",
    "file",
    "",
    "Variables.file",
    "variables.file.",
    "variables.o.f.0",
];

fn gen_path(r: &mut Rng, batch: Option<usize>) -> String {
    let p = r.pick(PATHS).to_string();
    match batch {
        None => {
            if r.chance(1, 12) {
                format!("0.{p}")
            } else {
                p
            }
        }
        Some(n) => match r.below(12) {
            0 => p,
            1 => format!("{}.{p}", n),
            2 => format!("+0.{p}"),
            3 => format!("00.{p}"),
            4 => format!("x.{p}"),
            5 => format!(".{p}"),
            6 => "0".to_string(),
            7 => format!("18446744073709551616.{p}"),
            _ => format!("{}.{p}", r.below(n)),
        },
    }
}

fn g_optn(x: Option<usize>) -> String {
    match x {
        Some(v) => format!("(Some {}%N)", v),
        None => "None".into(),
    }
}

fn result_g(res: &Option<Result<BatchRequest, ParseRequestError>>) -> String {
    let one = |r: &Request| -> String {
        let ids: Vec<String> = r.uploads.iter().map(|u| format!("{}%N", u.filename.trim_start_matches('f'))).collect();
        format!("({}, {})", g_request(r), g_list(ids.iter(), |x| x.clone()))
    };
    match res {
        None => "Panic".into(),
        Some(Err(e)) => format!("(Err {}%N)", err_kind(e)),
        Some(Ok(BatchRequest::Single(r))) => format!("(Ok (false, [{}]))", one(r)),
        Some(Ok(BatchRequest::Batch(rs))) => format!("(Ok (true, {}))", g_list(rs.iter(), one)),
    }
}

fn result_show(res: &Option<Result<BatchRequest, ParseRequestError>>) -> String {
    let one = |r: &Request| -> String {
        let ups: Vec<String> = r.uploads.iter().map(|u| format!("{}({}B)", u.filename, u.size().unwrap_or(0))).collect();
        format!("vars {} uploads {:?}", r.variables, ups)
    };
    match res {
        None => "PANIC".into(),
        Some(Err(e)) => format!("Err({e:?})"),
        Some(Ok(BatchRequest::Single(r))) => format!("Single[{}]", one(r)),
        Some(Ok(BatchRequest::Batch(rs))) => format!("Batch[{}]", rs.iter().map(one).collect::<Vec<_>>().join(" | ")),
    }
}

enum P {
    Ops(Option<String>, String, Option<J>),
    Map(String, Option<J>),
    File(String, usize, usize), // name, id, size
    Skip(Option<String>, usize),
}

struct Case {
    max_size: Option<usize>,
    max_files: Option<usize>,
    parts: Vec<P>,
}

fn run_case(c: &Case, boundary: &str) -> (String, String, String, bool) {
    let mut ps: Vec<Part> = vec![];
    let mut gparts: Vec<String> = vec![];
    let mut desc = String::new();
    for p in &c.parts {
        match p {
            P::Ops(ct, text, tree) => {
                ps.push(Part { name: Some("operations".into()), filename: None, content_type: ct.clone(), body: text.clone().into_bytes() });
                let class = match ct.as_deref() {
                    Some(s) if s.parse::<mime::Mime>().is_err() => "CtOther".to_string(),
                    x => g_ctype(x),
                };
                gparts.push(format!("POps {} {}%N {}", class, text.len(), g_opt(tree.as_ref(), g_j)));
                write!(desc, "[operations {text}] ").unwrap();
            }
            P::Map(text, tree) => {
                ps.push(Part { name: Some("map".into()), filename: None, content_type: None, body: text.clone().into_bytes() });
                gparts.push(format!("PMap {}%N {}", text.len(), g_opt(tree.as_ref(), g_j)));
                write!(desc, "[map {text}] ").unwrap();
            }
            P::File(name, id, size) => {
                ps.push(Part { name: Some(name.clone()), filename: Some(format!("f{id}")), content_type: Some("text/plain".into()), body: vec![b'a' + (*id % 26) as u8; *size] });
                gparts.push(format!("PFile {} {}%N {}%N", g_str(name), id, size));
                write!(desc, "[file name={name} f{id} {size}B] ").unwrap();
            }
            P::Skip(name, size) => {
                ps.push(Part { name: name.clone(), filename: if name.is_some() { None } else { Some("anon".into()) }, content_type: None, body: vec![b'z'; *size] });
                gparts.push(format!("PSkip {}%N", size));
                write!(desc, "[ignored part name={name:?} {size}B] ").unwrap();
            }
        }
    }
    let body = multipart_body(boundary, &ps);
    let body_len = body.len();
    let mut opts = MultipartOptions::default();
    if let Some(s) = c.max_size {
        opts = opts.max_file_size(s);
    }
    if let Some(n) = c.max_files {
        opts = opts.max_num_files(n);
    }
    let ct = format!("multipart/form-data; boundary={boundary}");
    let res = catch(move || block_on(receive_batch_body(Some(ct), &body[..], opts)));
    let term = format!(
        "({{| max_size := {}; max_files := {} |}}, {}%N, {}, {})",
        g_optn(c.max_size),
        g_optn(c.max_files),
        body_len,
        g_list(gparts.iter(), |x| format!("({x})")),
        result_g(&res)
    );
    let text = format!("max_file_size={:?} max_num_files={:?} body={}B {}", c.max_size, c.max_files, body_len, desc.trim());
    (term, text, result_show(&res), matches!(res, Some(Ok(_))))
}

fn ops_text(r: &mut Rng, reqs: &[Vec<(String, J)>], batch: bool) -> (String, J) {
    let one = |v: &Vec<(String, J)>| J::Obj(vec![("query".into(), J::Str("mutation($file: Upload) { up(file: $file) }".into())), ("variables".into(), J::Obj(v.clone()))]);
    let t = if batch { J::Arr(reqs.iter().map(one).collect()) } else { one(&reqs[0]) };
    let mut o = String::new();
    print_j(r, &t, &mut o);
    (o, t)
}

fn map_text(r: &mut Rng, m: &[(String, Vec<String>)]) -> (String, J) {
    let t = J::Obj(m.iter().map(|(k, ps)| (k.clone(), J::Arr(ps.iter().map(|p| J::Str(p.clone())).collect()))).collect());
    let mut o = String::new();
    print_j(r, &t, &mut o);
    (o, t)
}

fn gen_case(r: &mut Rng) -> Case {
    let batch = r.chance(1, 3);
    let nreq = if batch { 1 + r.below(3) } else { 1 };
    let reqs: Vec<Vec<(String, J)>> = (0..nreq).map(|_| vars_template(r)).collect();
    let names = ["0", "1", "2", "a", ""];
    let nentries = r.below(4);
    let mut map: Vec<(String, Vec<String>)> = vec![];
    for _ in 0..nentries {
        let name = r.pick(&names).to_string();
        let np = r.below(4);
        let paths = (0..np).map(|_| gen_path(r, if batch { Some(nreq) } else { None })).collect();
        map.push((name, paths));
    }
    // limits and sizes
    let max_size = match r.below(5) {
        0 | 1 => None,
        2 => Some([0usize, 1, 10, 50][r.below(4)]),
        _ => Some([250usize, 300, 400, 500][r.below(4)]),
    };
    let max_files = match r.below(5) {
        0 | 1 => None,
        _ => Some(r.below(5)),
    };
    let mut near_used = false;
    let mut size_near = |r: &mut Rng| -> usize {
        let k = r.below(8);
        match (max_size, k) {
            (Some(s), 0..=2) if !near_used && s >= 50 => {
                near_used = true;
                [s, s + 1, s - 1][k]
            }
            (_, 3) => 0,
            _ => r.below(40),
        }
    };
    let mut parts: Vec<P> = vec![];
    let mut id = 0usize;
    // files for the entries (some missing), extra files, duplicates
    let mut distinct: Vec<String> = vec![];
    for (k, _) in &map {
        if !distinct.contains(k) {
            distinct.push(k.clone());
        }
    }
    for k in &distinct {
        if r.chance(1, 8) {
            continue; // missing file
        }
        let s = size_near(r);
        parts.push(P::File(k.clone(), id, s));
        id += 1;
        if r.chance(1, 8) {
            let s = size_near(r);
            parts.push(P::File(k.clone(), id, s));
            id += 1;
        }
    }
    let nextra = if r.chance(1, 3) { 1 + r.below(3) } else { 0 };
    for _ in 0..nextra {
        let s = size_near(r);
        parts.push(P::File(r.pick(&["extra", "9", "operationsx"]).to_string(), id, s));
        id += 1;
    }
    if r.chance(1, 10) {
        parts.push(P::Skip(if r.chance(1, 2) { Some("nofilename".into()) } else { None }, r.below(5)));
    }
    // operations and map
    let (otext, otree) = ops_text(r, &reqs, batch);
    match r.below(20) {
        0 => {}
        1 => parts.push(P::Ops(None, "{\"query\":".into(), None)),
        2 => {
            parts.push(P::Ops(None, "{\"query\":\"{ other }\"}".into(), Some(J::Obj(vec![("query".into(), J::Str("{ other }".into()))]))));
            parts.push(P::Ops(None, otext, Some(otree)));
        }
        3 => parts.push(P::Ops(Some("application/json".into()), otext, Some(otree))),
        _ => parts.push(P::Ops(None, otext, Some(otree))),
    }
    let (mtext, mtree) = map_text(r, &map);
    match r.below(20) {
        0 => {}
        1 => parts.push(P::Map("{\"0\":\"variables.file\"}".into(), Some(J::Obj(vec![("0".into(), J::Str("variables.file".into()))])))),
        2 => parts.push(P::Map("{\"0\":[1]}".into(), Some(J::Obj(vec![("0".into(), J::Arr(vec![J::Int(1)]))])))),
        3 => parts.push(P::Map("[".into(), None)),
        4 => parts.push(P::Map("null".into(), Some(J::Null))),
        _ => parts.push(P::Map(mtext, Some(mtree))),
    }
    // order: the usual order (operations, map, files) or a permutation
    if r.chance(1, 2) {
        parts.reverse();
    } else {
        r.shuffle(&mut parts);
    }
    Case { max_size, max_files, parts }
}

fn fixed_cases() -> Vec<Case> {
    let ops = |v: &str| -> P {
        let t = J::Obj(vec![("query".into(), J::Str("q".into())), ("variables".into(), J::Obj(vec![("a".into(), J::Null), ("b".into(), J::Null), ("c".into(), J::Null)]))]);
        let _ = v;
        let mut o = String::new();
        print_j(&mut Rng::new(0), &t, &mut o);
        P::Ops(None, o, Some(t))
    };
    let map3 = || -> P {
        let m = vec![("0".to_string(), vec!["variables.a".to_string()]), ("1".to_string(), vec!["variables.b".to_string()]), ("2".to_string(), vec!["variables.c".to_string()])];
        let (t, j) = map_text(&mut Rng::new(0), &m);
        P::Map(t, Some(j))
    };
    let files3 = |s: usize| -> Vec<P> { vec![P::File("0".into(), 0, s), P::File("1".into(), 1, s), P::File("2".into(), 2, s)] };
    let mk = |ms: Option<usize>, mf: Option<usize>, s: usize| -> Case {
        let mut parts = vec![ops(""), map3()];
        parts.extend(files3(s));
        Case { max_size: ms, max_files: mf, parts }
    };
    vec![
        // the count limit alone: three files, max_num_files = 1
        mk(None, Some(1), 5),
        // both limits: three small files within the byte budget of one
        mk(Some(600), Some(1), 5),
        mk(Some(600), Some(0), 5),
        mk(Some(10), Some(3), 10),
        mk(Some(10), Some(3), 11),
        mk(None, None, 5),
        mk(Some(600), Some(3), 5),
    ]
}

fn main() {
    let a = parse_args();
    let mut rng = Rng::new(a.seed);
    let mut out = String::new();
    let mut cases = fixed_cases();
    while cases.len() < a.n {
        cases.push(gen_case(&mut rng));
    }
    for c in &cases {
        let boundary = format!("----agv{}", rng.below(1_000_000));
        let (term, text, show, ok) = run_case(c, &boundary);
        writeln!(out, "CASE\t{term}\t{{\"text\":{},\"impl\":{},\"nontrivial\":{}}}", jstr(&text), jstr(&show), ok).unwrap();
    }
    // Request::set_upload in isolation (no multipart framing)
    for _ in 0..a.n {
        let vars = vars_template(&mut rng);
        let k = 1 + rng.below(4);
        let paths: Vec<String> = (0..k).map(|_| gen_path(&mut rng, None)).collect();
        let mut o = String::new();
        print_j(&mut rng, &J::Obj(vars.clone()), &mut o);
        let mut req = Request::new("q");
        req.variables = serde_json::from_str(&o).unwrap();
        // the decoded variables must be what we printed (object member order is kept by ConstValue)
        for (i, p) in paths.iter().enumerate() {
            let f = tempfile_with(&a.out, i);
            req.set_upload(p, UploadValue { filename: format!("f{i}"), content_type: None, content: f });
        }
        let ids: Vec<String> = req.uploads.iter().map(|u| format!("{}%N", u.filename.trim_start_matches('f'))).collect();
        writeln!(
            out,
            "SET\t({}, {}, ({}, {}))\t{{\"text\":{},\"impl\":{},\"nontrivial\":{}}}",
            g_req_parts("q", None, &vars, &[]),
            g_list(paths.iter(), |p| g_str(p)),
            g_request(&req),
            g_list(ids.iter(), |x| x.clone()),
            jstr(&format!("vars {o} paths {paths:?}")),
            jstr(&format!("{} uploads {:?}", req.variables, ids)),
            !req.uploads.is_empty()
        )
        .unwrap();
    }
    std::fs::write(format!("{}/c24.cases", a.out), out).unwrap();
}

fn tempfile_with(dir: &str, i: usize) -> std::fs::File {
    use std::io::Write;
    let path = std::path::Path::new(dir).join(format!("agv-c24-{}-{}", std::process::id(), i));
    let mut f = std::fs::OpenOptions::new().create(true).read(true).write(true).truncate(true).open(&path).unwrap();
    f.write_all(b"x").unwrap();
    let _ = std::fs::remove_file(&path);
    f
}

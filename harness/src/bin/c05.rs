//! C05 (and the serial half of C04) correspondence: the derive-built schema
//! family (harness/src/family.rs) executed under EVERY order in which a chosen
//! set of gated resolvers completes.  `schema.execute(request)` is driven by
//! manual polling with a no-op waker: poll until Pending, open one of the
//! gates that are currently registered and alive, poll again, ...  A schedule
//! is the list of gate registration numbers in opening order.
//! `c05 <seed> <n trees> <out> [maxgates] [cap per tree] [max lines]`.
use std::collections::{BTreeSet, HashMap, HashSet};
use std::fmt::Write as _;
use std::future::Future;
use std::sync::{Arc, Mutex};
use std::task::{Context as TaskContext, Poll};

use agv_harness::family::*;
use agv_harness::genschema::set_probe;
use agv_harness::*;
use async_graphql::parser::types::{ExecutableDocument, Selection, SelectionSet};
use async_graphql::registry::{MetaType, Registry};
use async_graphql::*;
use futures_channel::oneshot;

// (field, type string) — must agree with family.rs; the registry dump is what the model sees
const FIELDS: &[(&str, &str)] = &[
    ("id", "Int!"), ("name", "String"), ("score", "Float!"), ("ratio", "Float"), ("flag", "Boolean"),
    ("kind", "Kind!"), ("a", "A"), ("b", "B!"), ("bs", "[B!]!"), ("cs", "[C]"), ("aList", "[A]!"),
    ("csNn", "[C!]"), ("node", "Node"), ("nodes", "[Node!]!"), ("ab", "Pair"), ("abs", "[Pair]!"),
    ("grid", "[[Int!]!]!"), ("named", "Named"),
];

type Nodes = Vec<(Option<NodeTy>, HashMap<String, Out>)>;

fn g_ty(it: &mut Interner, t: &str) -> String {
    if let Some(inner) = t.strip_suffix('!') {
        format!("(TNonNull {})", g_ty(it, inner))
    } else if t.starts_with('[') && t.ends_with(']') {
        format!("(TList {})", g_ty(it, &t[1..t.len() - 1]))
    } else {
        format!("(TNamed {})", it.n(t))
    }
}

fn dump_registry(it: &mut Interner, r: &Registry) -> String {
    let fields = |it: &mut Interner, fs: &indexmap::IndexMap<String, async_graphql::registry::MetaField>| {
        g_list(fs.iter().filter(|(k, _)| !k.starts_with("__")), |(k, f)| format!("({}, {})", it.n(k), g_ty(it, &f.ty)))
    };
    let mut tnames = vec![];
    let types = g_list(r.types.iter().filter(|(k, _)| !k.starts_with("__")), |(k, t)| {
        tnames.push(k.clone());
        let body = match t {
            MetaType::Object { fields: fs, .. } => {
                let imp: Vec<String> = r.implements.get(k).map(|s| s.iter().cloned().collect()).unwrap_or_default();
                format!("(DObject {} {})", fields(it, fs), g_list(imp.iter(), |i| it.n(i)))
            }
            MetaType::Interface { fields: fs, possible_types, .. } => format!("(DInterface {} {})", fields(it, fs), g_list(possible_types.iter(), |p| it.n(p))),
            MetaType::Union { possible_types, .. } => format!("(DUnion {})", g_list(possible_types.iter(), |p| it.n(p))),
            MetaType::Enum { enum_values, .. } => format!("(DEnum {})", g_list(enum_values.keys(), |v| it.n(v))),
            MetaType::Scalar { .. } => format!(
                "(DScalar {}%N)",
                match k.as_str() {
                    "Int" => 0,
                    "Float" => 1,
                    "String" => 2,
                    "Boolean" => 3,
                    _ => 4,
                }
            ),
            _ => "(DScalar 9%N)".to_string(),
        };
        format!("({}, {})", it.n(k), body)
    });
    format!(
        "{{| s_types := {}; s_query := {}; s_mutation := {}; s_tname := {} |}}",
        types,
        it.n(&r.query_type),
        g_opt(r.mutation_type.as_ref(), |m| it.n(m)),
        g_list(tnames.iter(), |k| format!("({}, {})", it.n(k), g_str(k)))
    )
}

fn g_out(it: &mut Interner, o: &Out) -> String {
    match o {
        Out::Err => "OErr".into(),
        Out::Null => "ONull".into(),
        Out::Int(i) => format!("(OInt {})", g_z(*i as i128)),
        Out::Float(f) => format!("(OFloat {}%N)", f.to_bits()),
        Out::Str(s) => format!("(OStr {})", g_str(s)),
        Out::Bool(b) => format!("(OBool {})", g_bool(*b)),
        Out::Enum(e) => format!("(OEnum {})", it.n(e)),
        Out::Ref(n) => format!("(ORef {}%N)", n),
        Out::List(l) => format!("(OList {})", g_list(l.iter(), |x| g_out(it, x))),
    }
}

/// Only the fields the document names are printed: no other resolver can run.
fn g_world(it: &mut Interner, nodes: &Nodes, used: &HashSet<String>) -> String {
    let ns = g_list(nodes.iter().enumerate().filter(|(_, n)| n.0.is_some()), |(i, n)| {
        let mut fs: Vec<(&String, &Out)> = n.1.iter().filter(|(k, _)| used.contains(*k)).collect();
        fs.sort_by(|a, b| a.0.cmp(b.0));
        format!(
            "({}%N, {{| n_ty := {}; n_fields := {} |}})",
            i,
            it.n(n.0.unwrap().name()),
            g_list(fs.iter(), |(k, o)| format!("({}, {})", it.n(k), g_out(it, o)))
        )
    });
    let defaults = g_list(FIELDS.iter().filter(|(f, _)| *f != "id"), |(f, _)| format!("({}, {})", it.n(f), g_out(it, &default_out(0, f))));
    format!("{{| w_nodes := {}; w_defaults := {}; w_idname := {} |}}", ns, defaults, it.n("id"))
}

// ------------------------------------------------------------ worlds
fn gen_out(r: &mut Rng, ty: &str, by_ty: &HashMap<&str, Vec<usize>>) -> Out {
    if let Some(inner) = ty.strip_suffix('!') {
        let o = gen_out(r, inner, by_ty);
        return if o == Out::Null { if r.chance(1, 30) { Out::Null } else { gen_nonnull(r, inner, by_ty) } } else { o };
    }
    if r.chance(1, 6) {
        return Out::Null;
    }
    gen_nonnull(r, ty, by_ty)
}

fn gen_nonnull(r: &mut Rng, ty: &str, by_ty: &HashMap<&str, Vec<usize>>) -> Out {
    if ty.starts_with('[') {
        let inner = &ty[1..ty.len() - 1];
        let n = if r.chance(1, 2) { r.below(3) } else { 3 + r.below(2) };
        return Out::List((0..n).map(|_| gen_out(r, inner, by_ty)).collect());
    }
    let pick = |r: &mut Rng, names: &[&str]| -> Out {
        let mut c: Vec<usize> = vec![];
        for n in names {
            c.extend(by_ty.get(n).cloned().unwrap_or_default());
        }
        if c.is_empty() { Out::Null } else { Out::Ref(*r.pick(&c)) }
    };
    match ty {
        "Int" => Out::Int(r.range(-9, 9)),
        "Float" => Out::Float(r.range(-8, 8) as f64 / 4.0),
        "String" => Out::Str(["", "x", "yz"][r.below(3)].to_string()),
        "Boolean" => Out::Bool(r.chance(1, 2)),
        "Kind" => Out::Enum(if r.chance(1, 2) { "X".into() } else { "Y".into() }),
        "A" => pick(r, &["A"]),
        "B" => pick(r, &["B"]),
        "C" => pick(r, &["C"]),
        "Node" => pick(r, &["A", "B", "C"]),
        "Named" | "Pair" => pick(r, &["A", "B"]),
        _ => Out::Null,
    }
}

fn gen_world(r: &mut Rng, fault_pm: usize) -> Nodes {
    let n = 6 + r.below(4);
    let mut tys = vec![Some(NodeTy::Query), Some(NodeTy::Mutation)];
    for _ in 2..n {
        tys.push(Some([NodeTy::A, NodeTy::B, NodeTy::C][r.below(3)]));
    }
    tys.push(Some(NodeTy::A));
    tys.push(Some(NodeTy::B));
    tys.push(Some(NodeTy::C));
    let mut by_ty: HashMap<&str, Vec<usize>> = HashMap::new();
    for (i, t) in tys.iter().enumerate() {
        by_ty.entry(t.unwrap().name()).or_default().push(i);
    }
    let mut nodes = vec![];
    for (i, t) in tys.iter().enumerate() {
        let mut m = HashMap::new();
        for (f, ty) in FIELDS {
            if i > 1 && r.chance(1, 3) {
                continue;
            }
            let o = if r.below(1000) < fault_pm { Out::Err } else { gen_out(r, ty, &by_ty) };
            m.insert(f.to_string(), o);
        }
        nodes.push((*t, m));
    }
    nodes
}

// ------------------------------------------------------------ documents
struct DocGen {
    r: Rng,
    frags: Vec<(String, String, String)>,
    dup: bool,
}

fn fields_of(ty: &str) -> Vec<(&'static str, &'static str)> {
    match ty {
        "Query" | "Mutation" | "A" | "B" | "C" => FIELDS.to_vec(),
        "Node" => vec![("id", "Int!"), ("name", "String")],
        "Named" => vec![("name", "String")],
        _ => vec![],
    }
}
fn base(t: &str) -> &str {
    t.trim_matches(|c| c == '[' || c == ']' || c == '!')
}
fn is_composite(t: &str) -> bool {
    matches!(t, "A" | "B" | "C" | "Node" | "Named" | "Pair" | "Query" | "Mutation")
}
fn conds_for(ty: &str) -> Vec<&'static str> {
    match ty {
        "A" => vec!["A", "Node", "Named"],
        "B" => vec!["B", "Node", "Named"],
        "C" => vec!["C", "Node"],
        "Node" => vec!["Node", "A", "B", "C"],
        "Named" => vec!["Named", "A", "B"],
        "Pair" => vec!["A", "B"],
        "Query" => vec!["Query"],
        "Mutation" => vec!["Mutation"],
        _ => vec![],
    }
}

impl DocGen {
    fn sels(&mut self, ty: &str, depth: usize) -> String {
        let mut out = String::from("{");
        let n = 2 + self.r.below(3);
        let fields = fields_of(ty);
        let mut emitted = 0;
        let mut last_field: Option<(String, String)> = None;
        for _ in 0..n {
            let k = self.r.below(12);
            if k < 8 && !fields.is_empty() {
                let (f, t) = *self.r.pick(&fields);
                let b = base(t).to_string();
                let alias = if self.r.chance(1, 8) { format!("k{}: ", self.r.below(2)) } else { String::new() };
                if is_composite(&b) {
                    if depth == 0 {
                        continue;
                    }
                    let sub = self.sels(&b, depth - 1);
                    write!(out, " {alias}{f} {sub}").unwrap();
                    last_field = Some((f.to_string(), b));
                } else {
                    write!(out, " {alias}{f}").unwrap();
                }
                emitted += 1;
            } else if k == 8 {
                out.push_str(" __typename");
                emitted += 1;
            } else if k == 9 && self.dup && depth > 0 {
                if let Some((f, b)) = last_field.clone() {
                    let sub = self.sels(&b, depth - 1);
                    write!(out, " {f} {sub}").unwrap();
                    emitted += 1;
                }
            } else if k == 10 && depth > 0 {
                let conds = conds_for(ty);
                if conds.is_empty() {
                    continue;
                }
                let c = *self.r.pick(&conds);
                let sub = self.sels(c, depth - 1);
                write!(out, " ... on {c} {sub}").unwrap();
                emitted += 1;
            } else if depth > 0 {
                let conds = conds_for(ty);
                if conds.is_empty() {
                    continue;
                }
                let c = self.r.pick(&conds).to_string();
                let name = format!("F{}", self.frags.len());
                self.frags.push((name.clone(), c.clone(), String::new()));
                let idx = self.frags.len() - 1;
                let body = self.sels(&c, depth - 1);
                self.frags[idx].2 = body;
                write!(out, " ...{name}").unwrap();
                emitted += 1;
            }
        }
        if emitted == 0 {
            out.push_str(if fields.is_empty() { " __typename" } else { " id" });
        }
        out.push_str(" }");
        out
    }
    fn document(&mut self, mutation: bool) -> String {
        let root = if mutation { "Mutation" } else { "Query" };
        let depth = 1 + self.r.below(3);
        let body = self.sels(root, depth);
        let mut s = String::new();
        writeln!(s, "{}{body}", if mutation { "mutation " } else { "" }).unwrap();
        for (n, c, b) in &self.frags {
            writeln!(s, "fragment {n} on {c} {b}").unwrap();
        }
        s
    }
}

/// largest number of fields one selection set can flatten to (fragments expanded)
fn max_flat(doc: &ExecutableDocument) -> usize {
    fn flat(doc: &ExecutableDocument, ss: &SelectionSet, depth: usize, best: &mut usize) -> usize {
        if depth > 12 {
            return 1000;
        }
        let mut n = 0;
        for s in &ss.items {
            match &s.node {
                Selection::Field(f) => {
                    n += 1;
                    flat(doc, &f.node.selection_set.node, depth + 1, best);
                }
                Selection::FragmentSpread(sp) => {
                    if let Some(fr) = doc.fragments.get(&sp.node.fragment_name.node) {
                        n += flat(doc, &fr.node.selection_set.node, depth + 1, best);
                    }
                }
                Selection::InlineFragment(fr) => n += flat(doc, &fr.node.selection_set.node, depth + 1, best),
            }
        }
        *best = (*best).max(n);
        n
    }
    let mut best = 0;
    for (_, op) in doc.operations.iter() {
        flat(doc, &op.node.selection_set.node, 0, &mut best);
    }
    best
}

fn field_names(doc: &ExecutableDocument) -> HashSet<String> {
    fn go(ss: &SelectionSet, acc: &mut HashSet<String>) {
        for s in &ss.items {
            match &s.node {
                Selection::Field(f) => {
                    acc.insert(f.node.name.node.to_string());
                    go(&f.node.selection_set.node, acc);
                }
                Selection::FragmentSpread(_) => {}
                Selection::InlineFragment(fr) => go(&fr.node.selection_set.node, acc),
            }
        }
    }
    let mut acc = HashSet::new();
    for (_, op) in doc.operations.iter() {
        go(&op.node.selection_set.node, &mut acc);
    }
    for (_, fr) in doc.fragments.iter() {
        go(&fr.node.selection_set.node, &mut acc);
    }
    acc
}

fn jstr(s: &str) -> String {
    serde_json::to_string(s).unwrap()
}

fn g_path(it: &mut Interner, p: &[PathSegment]) -> String {
    g_list(p.iter(), |s| match s {
        PathSegment::Field(f) => format!("PF {}", it.n(f)),
        PathSegment::Index(i) => format!("PI {}%N", i),
    })
}

fn g_strpath(it: &mut Interner, p: &str) -> String {
    g_list(p.split('/').filter(|s| !s.is_empty()), |s| match s.parse::<usize>() {
        Ok(i) => format!("PI {}%N", i),
        Err(_) => format!("PF {}", it.n(s)),
    })
}

// ------------------------------------------------------------ scheduler
struct RunOut {
    resp: Response,
    events: Vec<Event>,
    sched: Vec<usize>,
    widths: Vec<usize>,
}

/// Drive one execution.  `choose(step, alive)` returns an index into `alive`
/// (registration numbers of gates that are registered, unopened, and whose
/// resolver future has not been dropped).
fn run_once(schema: &FamilySchema, text: &str, nodes: &Nodes, gated: &HashSet<String>, choose: &mut dyn FnMut(usize, &[usize]) -> usize) -> Option<RunOut> {
    let w = Arc::new(World { nodes: nodes.clone(), gated: gated.clone(), ..Default::default() });
    let req = Request::new(text.to_string()).data(w.clone());
    let fut = schema.execute(req);
    futures_util::pin_mut!(fut);
    let waker = futures_util::task::noop_waker();
    let mut cx = TaskContext::from_waker(&waker);
    let mut opened: HashSet<usize> = HashSet::new();
    let mut sched = vec![];
    let mut widths = vec![];
    loop {
        match fut.as_mut().poll(&mut cx) {
            Poll::Ready(resp) => {
                let events = w.trace.lock().unwrap().clone();
                return Some(RunOut { resp, events, sched, widths });
            }
            Poll::Pending => {
                let mut wt = w.waiting.lock().unwrap();
                let alive: Vec<usize> = (0..wt.len()).filter(|i| !opened.contains(i) && !wt[*i].1.is_canceled()).collect();
                if alive.is_empty() {
                    return None; // pending with nothing to open: not expected
                }
                let k = choose(sched.len(), &alive).min(alive.len() - 1);
                let id = alive[k];
                widths.push(alive.len());
                sched.push(id);
                opened.insert(id);
                let (dummy, _rx) = oneshot::channel::<()>();
                let tx = std::mem::replace(&mut wt[id].1, dummy);
                let _ = tx.send(());
            }
        }
    }
}

fn start_paths(o: &RunOut) -> Vec<String> {
    let mut seen = BTreeSet::new();
    let mut v = vec![];
    for e in &o.events {
        if let Event::Start(p, _, _) = e {
            if seen.insert(p.clone()) {
                v.push(p.clone());
            }
        }
    }
    v
}

fn parent(p: &str) -> &str {
    match p.rfind('/') {
        Some(i) => &p[..i],
        None => "",
    }
}

fn main() {
    let a = parse_args();
    let maxg: usize = a.rest.first().and_then(|s| s.parse().ok()).unwrap_or(5);
    let cap: usize = a.rest.get(1).and_then(|s| s.parse().ok()).unwrap_or(130);
    let max_lines: usize = a.rest.get(2).and_then(|s| s.parse().ok()).unwrap_or(1200);
    let mut rng = Rng::new(a.seed);
    let mut out = String::new();
    let mut it = Interner::new();
    it.id("id");
    for (f, _) in FIELDS {
        it.id(f);
    }
    for k in ["X", "Y", "A", "B", "C", "Query", "Mutation", "Node", "Named", "Pair"] {
        it.id(k);
    }
    let schema = build().finish();

    // registry dump through a probe request
    let dumped: Arc<Mutex<Option<String>>> = Arc::new(Mutex::new(None));
    let it_cell = Arc::new(Mutex::new(std::mem::take(&mut it)));
    {
        let it_cell = it_cell.clone();
        let dumped = dumped.clone();
        set_probe(move |r| {
            let mut it = it_cell.lock().unwrap();
            *dumped.lock().unwrap() = Some(dump_registry(&mut it, r));
        });
    }
    let w0 = Arc::new(World { nodes: gen_world(&mut rng.fork(), 0), ..Default::default() });
    let _ = block_on(schema.execute(Request::new("{ id }").data(w0)));
    it = std::mem::take(&mut *it_cell.lock().unwrap());
    let gschema = dumped.lock().unwrap().take().expect("probe did not run");
    writeln!(out, "DEF\tfam\t(DSchema {gschema})").unwrap();

    // fixed corpus: (document, world patches, gated paths); witnesses of the findings first
    let r2 = Out::Ref(2);
    let r3 = Out::Ref(3);
    let r4 = Out::Ref(4);
    let corpus: Vec<(&str, Vec<(usize, &str, Out)>, Vec<&str>)> = vec![
        // two failing non-null siblings: which error is reported depends on the order
        ("{ id score }", vec![(0, "id", Out::Err), (0, "score", Out::Err)], vec!["id", "score"]),
        // an uncaught error drops a sibling whose error would have been caught and reported
        ("{ a { id } score }", vec![(0, "a", r2.clone()), (2, "id", Out::Err), (0, "score", Out::Err)], vec!["a/id", "score"]),
        // one gate is enough: the gated failing field loses against the ready failing one
        ("{ id score }", vec![(0, "id", Out::Err), (0, "score", Out::Err)], vec!["id"]),
        // two failing items of a [B!]! list
        ("{ bs { id } }", vec![(0, "bs", Out::List(vec![r3.clone(), r3.clone()])), (3, "id", Out::Err)], vec!["bs/0/id", "bs/1/id"]),
        // errors caught at nullable positions: only their order changes
        ("{ a { id } k0: a { id } name }", vec![(0, "a", r2.clone()), (2, "id", Out::Err), (0, "name", Out::Str("n".into()))], vec!["a", "k0", "a/id", "k0/id", "name"]),
        ("{ cs { id score } b { id } }", vec![(0, "cs", Out::List(vec![r4.clone(), r4.clone(), Out::Null])), (4, "id", Out::Err), (0, "b", r3.clone())], vec!["cs/0/id", "cs/1/id", "cs/0/score", "b", "b/id"]),
        // lists of 3-4 distinct object items whose fields suspend: every completion order of the items,
        // the exact reverse included (non-null items; nullable items with one failing item; mixed with a sibling)
        ("{ bs { id } }", vec![(0, "bs", Out::List(vec![r3.clone(), Out::Ref(6), Out::Ref(8)]))], vec!["bs/0/id", "bs/1/id", "bs/2/id"]),
        ("{ bs { id score } }", vec![(0, "bs", Out::List(vec![r3.clone(), Out::Ref(6), Out::Ref(8), Out::Ref(10)]))], vec!["bs/0/id", "bs/1/id", "bs/2/id", "bs/3/id"]),
        ("{ cs { id } }", vec![(0, "cs", Out::List(vec![r4.clone(), Out::Ref(5), Out::Ref(9)])), (5, "id", Out::Err)], vec!["cs/0/id", "cs/1/id", "cs/2/id"]),
        ("{ cs { id } name }", vec![(0, "cs", Out::List(vec![r4.clone(), Out::Null, Out::Ref(5), Out::Ref(9)])), (5, "id", Out::Err)], vec!["cs/0/id", "cs/2/id", "cs/3/id", "name"]),
        ("{ aList { id name } }", vec![(0, "aList", Out::List(vec![r2.clone(), Out::Ref(7), Out::Null, Out::Ref(7)])), (7, "name", Out::Err)], vec!["aList/0/id", "aList/1/id", "aList/3/id", "aList/1/name"]),
        ("{ nodes { id } abs { ... on A { id } ... on B { score } } }", vec![(0, "nodes", Out::List(vec![r2.clone(), r3.clone(), r4.clone()])), (0, "abs", Out::List(vec![r3.clone(), r2.clone(), Out::Ref(6)]))], vec!["nodes/0/id", "nodes/1/id", "nodes/2/id", "abs/0/score", "abs/2/score"]),
        ("mutation { bs { id } name }", vec![(1, "bs", Out::List(vec![r3.clone(), Out::Ref(6), Out::Ref(8)]))], vec!["bs/0/id", "bs/1/id", "bs/2/id"]),
        // no fault at all
        ("{ a { id name b { id } } bs { id } __typename }", vec![(0, "a", r2.clone()), (2, "b", r3.clone()), (0, "bs", Out::List(vec![r3.clone(), r3.clone()]))], vec!["a", "bs", "a/id", "a/b", "bs/0/id"]),
        // mutations: root fields one after the other, whatever the order below them
        ("mutation { a { id name } b { id score } name }", vec![(1, "a", r2.clone()), (1, "b", r3.clone())], vec!["a", "a/id", "a/name", "b", "b/score"]),
        ("mutation { a { id } a { id } k0: id }", vec![(1, "a", r2.clone())], vec!["a", "a/id", "k0"]),
        ("mutation { a { id b { id } } score name }", vec![(1, "a", r2.clone()), (2, "b", Out::Err), (1, "score", Out::Err)], vec!["a", "a/id", "a/b", "score"]),
        ("mutation { bs { id score } cs { id } }", vec![(1, "bs", Out::List(vec![r3.clone(), r3.clone()])), (1, "cs", Out::List(vec![r4.clone()])), (4, "id", Out::Err)], vec!["bs", "bs/0/id", "bs/1/id", "cs", "cs/0/id"]),
    ];
    let mut corpus_iter = corpus.into_iter();

    let mut tree_no = 0usize;
    let mut attempts = 0usize;
    let mut lines = 0usize;
    let mut stats = (0usize, 0usize, 0usize); // exhaustive trees, sampled trees, schedules
    while tree_no < a.n && lines < max_lines && attempts < a.n * 40 + 100 {
        attempts += 1;
        let (text, nodes, fixed_gates): (String, Nodes, Option<Vec<String>>) = if let Some((doc, patches, gates)) = corpus_iter.next() {
            let mut nodes: Nodes = vec![
                (Some(NodeTy::Query), HashMap::new()),
                (Some(NodeTy::Mutation), HashMap::new()),
                (Some(NodeTy::A), HashMap::new()),
                (Some(NodeTy::B), HashMap::new()),
                (Some(NodeTy::C), HashMap::new()),
                (Some(NodeTy::C), HashMap::new()),
                (Some(NodeTy::B), HashMap::new()),
                (Some(NodeTy::A), HashMap::new()),
                (Some(NodeTy::B), HashMap::new()),
                (Some(NodeTy::C), HashMap::new()),
                (Some(NodeTy::B), HashMap::new()),
            ];
            for (n, f, o) in patches {
                nodes[n].1.insert(f.to_string(), o);
            }
            (doc.to_string(), nodes, Some(gates.iter().map(|s| s.to_string()).collect()))
        } else {
            let fault_pm = [0usize, 25, 50, 100, 160][rng.below(5)];
            let nodes = gen_world(&mut rng.fork(), fault_pm);
            let mut dg = DocGen { r: rng.fork(), frags: vec![], dup: rng.chance(1, 3) };
            let text = dg.document(rng.chance(1, 3));
            (text, nodes, None)
        };
        let Ok(parsed) = async_graphql::parser::parse_query(&text) else { continue };
        if max_flat(&parsed) > 30 {
            continue;
        }
        // all-ready run
        let none = HashSet::new();
        let Some(ready) = run_once(&schema, &text, &nodes, &none, &mut |_, _| 0) else { continue };
        let rejected = ready.resp.data == Value::Null && ready.events.is_empty() && ready.resp.errors.iter().any(|e| e.path.is_empty() && e.message != "boom" && e.message != "shape");
        if rejected {
            writeln!(out, "REJ\t\t{}", jstr(&format!("{} -> {}", text.trim(), ready.resp.errors[0].message))).unwrap();
            continue;
        }
        let p0 = start_paths(&ready);
        if p0.is_empty() || ready.events.len() > 90 {
            continue;
        }
        // candidates: resolvers started when everything is ready, plus those that start when all of these wait
        let all0: HashSet<String> = p0.iter().cloned().collect();
        let mut cands = p0.clone();
        if let Some(o) = run_once(&schema, &text, &nodes, &all0, &mut |_, _| 0) {
            for p in start_paths(&o) {
                if !cands.contains(&p) {
                    cands.push(p);
                }
            }
        }
        // the same field of every item of one list: (list path, field) -> candidate paths
        let mut item_groups: Vec<((String, String), Vec<String>)> = vec![];
        for c in &cands {
            let segs: Vec<&str> = c.split('/').collect();
            if segs.len() >= 3 && segs[segs.len() - 2].parse::<usize>().is_ok() {
                let key = (segs[..segs.len() - 2].join("/"), segs[segs.len() - 1].to_string());
                match item_groups.iter_mut().find(|g| g.0 == key) {
                    Some(g) => g.1.push(c.clone()),
                    None => item_groups.push((key, vec![c.clone()])),
                }
            }
        }
        item_groups.retain(|g| g.1.len() >= 3);
        let gates: Vec<String> = match fixed_gates {
            Some(g) => g,
            None if !item_groups.is_empty() && rng.chance(1, 2) => {
                let mut g = rng.pick(&item_groups).1.clone();
                g.truncate(maxg);
                if g.len() < maxg && rng.chance(1, 2) {
                    let extra: Vec<&String> = cands.iter().filter(|c| !g.contains(c)).collect();
                    if !extra.is_empty() {
                        g.push((*rng.pick(&extra)).clone());
                    }
                }
                g
            }
            None => {
                let k = (if rng.chance(1, 5) { 1 + rng.below(2) } else { 3 + rng.below(maxg.saturating_sub(2).max(1)) }).min(cands.len());
                // prefer a group of siblings (same parent path) with several members, then what lies beneath them
                let mut groups: Vec<(String, usize)> = vec![];
                for c in &cands {
                    let p = parent(c).to_string();
                    match groups.iter_mut().find(|g| g.0 == p) {
                        Some(g) => g.1 += 1,
                        None => groups.push((p, 1)),
                    }
                }
                let is_mut = text.starts_with("mutation");
                let big: Vec<&(String, usize)> = groups.iter().filter(|g| g.1 >= 2 && !(is_mut && g.0.is_empty())).collect();
                let pre = if !big.is_empty() && !rng.chance(1, 6) { rng.pick(&big).0.clone() } else { rng.pick(&groups).0.clone() };
                let mut near: Vec<String> = cands.iter().filter(|c| parent(c) == pre).cloned().collect();
                let mut below: Vec<String> = cands.iter().filter(|c| !near.contains(c) && near.iter().any(|a| c.starts_with(&format!("{a}/")))).cloned().collect();
                let mut far: Vec<String> = cands.iter().filter(|c| !near.contains(c) && !below.contains(c)).cloned().collect();
                rng.shuffle(&mut near);
                rng.shuffle(&mut below);
                rng.shuffle(&mut far);
                if rng.chance(1, 2) {
                    // mix the levels
                    below.extend(far);
                    rng.shuffle(&mut below);
                    near.truncate(2 + rng.below(3));
                    near.extend(below);
                } else {
                    near.extend(below);
                    near.extend(far);
                }
                near.truncate(k);
                near
            }
        };
        let gset: HashSet<String> = gates.iter().cloned().collect();

        // schedules: exhaustive (stateless depth-first search over the choices) when small, random otherwise
        let mut runs: Vec<RunOut> = vec![];
        let mut exhaustive = true;
        {
            let mut prefix: Vec<usize> = vec![];
            loop {
                let pf = prefix.clone();
                let Some(o) = run_once(&schema, &text, &nodes, &gset, &mut |i, _| pf.get(i).copied().unwrap_or(0)) else { break };
                let mut taken: Vec<usize> = (0..o.widths.len()).map(|i| pf.get(i).copied().unwrap_or(0)).collect();
                let widths = o.widths.clone();
                runs.push(o);
                if runs.len() >= cap {
                    exhaustive = false;
                }
                // next choice vector
                let mut i = taken.len();
                let mut found = false;
                while i > 0 {
                    i -= 1;
                    if taken[i] + 1 < widths[i] {
                        taken[i] += 1;
                        taken.truncate(i + 1);
                        found = true;
                        break;
                    }
                }
                if !found || !exhaustive {
                    if found {
                        exhaustive = false;
                    }
                    break;
                }
                prefix = taken;
            }
        }
        if !exhaustive {
            // too many orders: keep the first one and sample the rest at random
            runs.truncate(1);
            let mut seen: HashSet<Vec<usize>> = runs.iter().map(|r| r.sched.clone()).collect();
            let mut tries = 0;
            while runs.len() < cap && tries < cap * 3 {
                tries += 1;
                let mut r = rng.fork();
                if let Some(o) = run_once(&schema, &text, &nodes, &gset, &mut |_, alive| r.below(alive.len())) {
                    if seen.insert(o.sched.clone()) {
                        runs.push(o);
                    }
                }
            }
            stats.1 += 1;
        } else {
            stats.0 += 1;
        }
        if runs.is_empty() {
            writeln!(out, "STUCK\t\t{}", jstr(text.trim())).unwrap();
            continue;
        }

        let cname = format!("case{tree_no}");
        let gdoc = g_document(&mut it, &parsed);
        writeln!(out, "DEF\t{cname}\t(DCase {} {gdoc} None [])", g_world(&mut it, &nodes, &field_names(&parsed))).unwrap();
        let ggates = g_list(gates.iter(), |p| g_strpath(&mut it, p));
        let faults: usize = nodes.iter().map(|n| n.1.values().filter(|o| **o == Out::Err).count()).sum();
        let ready_errs: BTreeSet<String> = ready.resp.errors.iter().map(|e| format!("{:?}", e.path)).collect();
        for o in &runs {
            let gresp = format!(
                "{{| sr_data := {}; sr_errors := {}; sr_events := {} |}}",
                g_const(&mut it, &o.resp.data),
                g_list(o.resp.errors.iter(), |e| g_path(&mut it, &e.path)),
                g_list(o.events.iter(), |e| match e {
                    Event::Start(p, _, _) => format!("IStart {}", g_strpath(&mut it, p)),
                    Event::End(p) => format!("IEnd {}", g_strpath(&mut it, p)),
                })
            );
            let errs: BTreeSet<String> = o.resp.errors.iter().map(|e| format!("{:?}", e.path)).collect();
            let nontrivial = !o.sched.is_empty() && (o.resp.data != Value::Null || !o.resp.errors.is_empty());
            let meta = format!(
                "{{\"uses\":[\"fam\",\"{cname}\"],\"text\":{},\"impl\":{},\"nontrivial\":{}}}",
                jstr(&format!("[faults={faults} gates={} order={:?}] {}", gates.join(","), o.sched, text.trim())),
                jstr(&format!(
                    "{} errors={:?}{}",
                    serde_json::to_string(&o.resp.data).unwrap().chars().take(160).collect::<String>(),
                    o.resp.errors.iter().map(|e| format!("{:?}", e.path)).collect::<Vec<_>>(),
                    if errs != ready_errs || o.resp.data != ready.resp.data { " DIFFERS-FROM-READY-RUN" } else { "" }
                )),
                nontrivial
            );
            writeln!(out, "CASE\t(fam, {cname}, {ggates}, {}, {gresp})\t{meta}", g_list(o.sched.iter(), |i| format!("{i}%nat"))).unwrap();
            lines += 1;
        }
        stats.2 += runs.len();
        tree_no += 1;
    }
    writeln!(out, "STATS\t\t{}", jstr(&format!("trees={tree_no} exhaustive={} sampled={} schedules={} lines={lines}", stats.0, stats.1, stats.2))).unwrap();
    writeln!(out, "NAMES\t\t{}", serde_json::to_string(&it.names).unwrap()).unwrap();
    std::fs::write(format!("{}/c05.cases", a.out), out).unwrap();
}

//! C35 correspondence: HTTP GET requests never execute mutations.
//!
//! What is EXECUTED here: the decoder and the executor that every bundled
//! integration's GET branch chains together,
//!     async_graphql::http::parse_query_string(<raw query string>)  ->  Schema::execute
//! (axum extract.rs, actix-web request.rs, poem extractor.rs, warp
//! batch_request.rs) and, for rocket, `Request::new(query).operation_name(..)
//! .variables(..)` as its `From<GraphQLQuery>` does, followed by
//! Schema::execute.  What is MODELLED FROM SOURCE TEXT only: that each
//! integration's GET branch is exactly this chain with no operation-type test
//! in between (tools/factsgen/getguard.py re-reads the branches on every run),
//! the frameworks' own routing / query-string extraction, and rocket's
//! FromForm parser (its field names are read from the source).
//!
//! Per case: integration, the document and operation name AS DECODED from the
//! query string, and what the library did (error, or how many query-root and
//! mutation-root resolvers ran).
use std::fmt::Write as _;
use std::sync::Mutex;

use agv_harness::*;
use async_graphql::*;

static LOG: Mutex<[u32; 2]> = Mutex::new([0; 2]); // query-root, mutation-root resolver runs
fn hit(i: usize) {
    LOG.lock().unwrap()[i] += 1;
}
fn take_log() -> [u32; 2] {
    std::mem::take(&mut *LOG.lock().unwrap())
}

struct Query;
#[Object]
impl Query {
    async fn q(&self) -> i32 {
        hit(0);
        1
    }
    async fn q2(&self, n: Option<i32>) -> i32 {
        hit(0);
        n.unwrap_or(2)
    }
}

struct Mutation;
#[Object]
impl Mutation {
    async fn m(&self) -> i32 {
        hit(1);
        1
    }
    async fn m2(&self, n: Option<i32>) -> i32 {
        hit(1);
        n.unwrap_or(2)
    }
}

const INTEGS: [&str; 5] = ["Axum", "ActixWeb", "Poem", "Warp", "Rocket"];

fn jstr(s: &str) -> String {
    serde_json::to_string(s).unwrap()
}

/// One generated GET request before encoding.
struct Get {
    query: String,
    opname: Option<String>,
    /// key under which the operation name is sent ("operation_name" is what
    /// parse_query_string reads today, "operationName" what rocket reads)
    opkey: &'static str,
    variables: Option<String>,
}

fn gen_op(r: &mut Rng, kind: usize, name: Option<&str>) -> String {
    let (kw, fields): (&str, &[&str]) = match kind {
        0 => ("query", &["q", "q2", "q2(n: 5)", "a: q", "__typename"]),
        _ => ("mutation", &["m", "m2", "m2(n: 5)", "a: m", "b: m2(n: $v)", "__typename"]),
    };
    let n = 1 + r.below(3);
    let mut body = String::new();
    let mut uses_var = false;
    for i in 0..n {
        let f = *r.pick(fields);
        if f.contains("$v") {
            uses_var = true;
        }
        // distinct response keys: alias every field unless it already has one
        if f.starts_with("a:") || f.starts_with("b:") {
            write!(body, " {f}").unwrap();
        } else {
            write!(body, " x{i}: {f}").unwrap();
        }
    }
    let vars = if uses_var { "($v: Int)" } else { "" };
    match name {
        Some(nm) => format!("{kw} {nm}{vars} {{{body} }}"),
        None if uses_var => format!("{kw} Anon{vars} {{{body} }}"),
        None => {
            if kind == 0 && r.chance(1, 2) {
                format!("{{{body} }}")
            } else {
                format!("{kw} {{{body} }}")
            }
        }
    }
}

fn fixed() -> Vec<Get> {
    let g = |q: &str, n: Option<&str>, k: &'static str, v: Option<&str>| Get {
        query: q.to_string(),
        opname: n.map(|s| s.to_string()),
        opkey: k,
        variables: v.map(|s| s.to_string()),
    };
    vec![
        // the witnesses of the finding
        g("mutation { m }", None, "operation_name", None),
        g("query A { q } mutation B { m b: m }", Some("B"), "operation_name", None),
        g("query A { q } mutation B { m b: m }", Some("B"), "operationName", None),
        // boundary cases
        g("{ q }", None, "operation_name", None),
        g("query A { q } mutation B { m }", Some("A"), "operation_name", None),
        g("query A { q } mutation B { m }", None, "operation_name", None),
        g("query A { q } mutation B { m }", Some("C"), "operation_name", None),
        g("mutation B { m }", None, "operation_name", None),
        g("mutation B { m }", Some("B"), "operation_name", None),
        g("mutation { m }", Some("B"), "operation_name", None),
        g("mutation B($v: Int) { m2(n: $v) }", Some("B"), "operation_name", Some("{\"v\": 3}")),
        g("mutation { __typename }", None, "operation_name", None),
        g("mutation B { m } mutation C { m2 x: m }", Some("C"), "operation_name", None),
        g("subscription { s }", None, "operation_name", None),
    ]
}

fn random(r: &mut Rng) -> Get {
    let opkey = if r.chance(1, 2) { "operation_name" } else { "operationName" };
    match r.below(5) {
        0 => {
            let k = r.below(2);
            Get { query: gen_op(r, k, None), opname: None, opkey, variables: None }
        }
        1 => {
            let k = r.below(2);
            let q = gen_op(r, k, Some("Op"));
            Get { query: q, opname: if r.chance(2, 3) { Some("Op".into()) } else { None }, opkey, variables: if r.chance(1, 3) { Some("{\"v\": 7}".into()) } else { None } }
        }
        _ => {
            // mixed document: 2-4 named operations, selected by name (or not / wrongly)
            let n = 2 + r.below(3);
            let names = ["A", "B", "C", "D"];
            let mut q = String::new();
            for (i, nm) in names.iter().enumerate().take(n) {
                let kind = if i == 0 { r.below(2) } else { 1 - (i + r.below(2)) % 2 };
                q.push_str(&gen_op(r, kind, Some(nm)));
                q.push(' ');
            }
            let sel = match r.below(8) {
                0 => None,
                1 => Some("Z".to_string()),
                _ => Some(names[r.below(n)].to_string()),
            };
            Get { query: q, opname: sel, opkey, variables: if r.chance(1, 2) { Some("{\"v\": 7}".into()) } else { None } }
        }
    }
}

fn encode(g: &Get) -> String {
    let mut pairs: Vec<(&str, &str)> = vec![("query", &g.query)];
    if let Some(n) = &g.opname {
        pairs.push((g.opkey, n));
    }
    if let Some(v) = &g.variables {
        pairs.push(("variables", v));
    }
    serde_urlencoded::to_string(&pairs).unwrap()
}

/// rocket's `From<GraphQLQuery> for GraphQLRequest`, fed from the same raw
/// query string (form fields `query`, `operationName`, `variables`).
fn rocket_decode(raw: &str) -> Option<Request> {
    let pairs: Vec<(String, String)> = serde_urlencoded::from_str(raw).ok()?;
    let get = |k: &str| pairs.iter().find(|(a, _)| a == k).map(|(_, b)| b.clone());
    let mut request = Request::new(get("query")?);
    if let Some(n) = get("operationName") {
        request = request.operation_name(n);
    }
    if let Some(v) = get("variables") {
        let value = serde_json::from_str(&v).unwrap_or_default();
        request = request.variables(Variables::from_json(value));
    }
    Some(request)
}

fn main() {
    let a = parse_args();
    let mut rng = Rng::new(a.seed);
    let mut it = Interner::new();
    // fixed ids used by the witnesses of coq/theories/GetGuardProofs.v
    for s in ["_service", "_entities", "q", "m"] {
        it.id(s);
    }
    let schema = Schema::build(Query, Mutation, EmptySubscription).finish();
    let mut out = String::new();
    let mut reqs = fixed();
    while reqs.len() < a.n.max(20) {
        reqs.push(random(&mut rng));
    }
    let mut ndoc = 0usize;
    for g in &reqs {
        let raw = encode(g);
        for integ in INTEGS {
            let decoded = if integ == "Rocket" {
                rocket_decode(&raw)
            } else {
                async_graphql::http::parse_query_string(&raw).ok()
            };
            let Some(request) = decoded else {
                writeln!(out, "UNDECODED\t\t{{\"text\":{}}}", jstr(&format!("[{integ}] GET ?{raw}"))).unwrap();
                continue;
            };
            let opname = request.operation_name.clone();
            let Ok(parsed) = async_graphql::parser::parse_query(&request.query) else {
                writeln!(out, "UNPARSED\t\t{{\"text\":{}}}", jstr(&format!("[{integ}] GET ?{raw}"))).unwrap();
                continue;
            };
            take_log();
            let resp = block_on(schema.execute(request));
            let log = take_log();
            let is_err = resp.data == Value::Null && !resp.errors.is_empty();
            let res = if is_err { "GError".to_string() } else { format!("(GRan {} {})", log[0], log[1]) };
            let dname = format!("d{ndoc}");
            ndoc += 1;
            writeln!(out, "DEF\t{dname}\t{}", g_document(&mut it, &parsed)).unwrap();
            let text = format!("[{integ}] GET ?{raw}   (query={} operation name as decoded={:?})", g.query, opname);
            let impl_h = format!(
                "{} query-root runs={} mutation-root runs={}{}",
                if is_err { "error" } else { "data" },
                log[0],
                log[1],
                resp.errors.first().map(|e| format!(" first-error={}", e.message)).unwrap_or_default()
            );
            writeln!(
                out,
                "CASE\t({integ}, {dname}, {}, {res})\t{{\"uses\":[{}],\"text\":{},\"impl\":{},\"nontrivial\":{}}}",
                g_opt(opname.as_deref(), |n| it.n(n)),
                jstr(&dname),
                jstr(&text),
                jstr(&impl_h),
                log[1] > 0 || log[0] > 0
            )
            .unwrap();
        }
    }
    writeln!(out, "NAMES\t\t{}", serde_json::to_string(&it.names).unwrap()).unwrap();
    std::fs::write(format!("{}/c35.cases", a.out), out).unwrap();
}

//! C35 correspondence: HTTP GET requests never execute mutations.
//!
//! What is EXECUTED here: the decoder and the executor that every bundled
//! integration's GET branch chains together,
//!     async_graphql::http::parse_query_string(<raw query string>)  ->  Schema::execute
//! (axum extract.rs, actix-web request.rs, poem extractor.rs, warp
//! batch_request.rs) and, for rocket, `Request::new(query).operation_name(..)
//! .variables(..)` as its `From<GraphQLQuery>` does, followed by
//! Schema::execute.  What is MODELLED FROM SOURCE TEXT only: that each
//! integration's GET branch is exactly this chain with no operation-type test
//! in between (tools/factsgen/getguard.py re-reads the branches on every run),
//! the frameworks' own routing / query-string extraction, and rocket's
//! FromForm parser (its field names are read from the source).
//!
//! Per case: integration, the RAW query string as sent on the wire (bytes; the
//! Coq model decodes it itself), the document the real parser makes of the
//! query the library decoded (None = syntax error), the spelling of its
//! operation names, the request AS DECODED BY THE LIBRARY (query text and
//! operation name, byte for byte, or a decoding error) and what the library
//! did with it (error, or how many query-root and mutation-root resolvers ran).
use std::fmt::Write as _;
use std::sync::Mutex;

use agv_harness::*;
use async_graphql::parser::types::DocumentOperations;
use async_graphql::*;

static LOG: Mutex<[u32; 2]> = Mutex::new([0; 2]); // query-root, mutation-root resolver runs
fn hit(i: usize) {
    LOG.lock().unwrap()[i] += 1;
}
fn take_log() -> [u32; 2] {
    std::mem::take(&mut *LOG.lock().unwrap())
}

struct Query;
#[Object]
impl Query {
    async fn q(&self) -> i32 {
        hit(0);
        1
    }
    async fn q2(&self, n: Option<i32>) -> i32 {
        hit(0);
        n.unwrap_or(2)
    }
}

struct Mutation;
#[Object]
impl Mutation {
    async fn m(&self) -> i32 {
        hit(1);
        1
    }
    async fn m2(&self, n: Option<i32>) -> i32 {
        hit(1);
        n.unwrap_or(2)
    }
}

const INTEGS: [&str; 5] = ["Axum", "ActixWeb", "Poem", "Warp", "Rocket"];

fn jstr(s: &str) -> String {
    serde_json::to_string(s).unwrap()
}

fn g_bytes(b: &[u8]) -> String {
    let mut o = String::from("[");
    for (i, c) in b.iter().enumerate() {
        if i > 0 {
            o.push(';');
        }
        write!(o, "{c}").unwrap();
    }
    o.push_str("]%N");
    o
}

/// One generated GET request: the raw query string and how it was made.
struct Get {
    raw: String,
    note: String,
}

fn gen_op(r: &mut Rng, kind: usize, name: Option<&str>) -> String {
    let (kw, fields): (&str, &[&str]) = match kind {
        0 => ("query", &["q", "q2", "q2(n: 5)", "a: q", "__typename"]),
        _ => ("mutation", &["m", "m2", "m2(n: 5)", "a: m", "b: m2(n: $v)", "__typename"]),
    };
    let n = 1 + r.below(3);
    let mut body = String::new();
    let mut uses_var = false;
    for i in 0..n {
        let f = *r.pick(fields);
        if f.contains("$v") {
            uses_var = true;
        }
        // distinct response keys: alias every field unless it already has one
        if f.starts_with("a:") || f.starts_with("b:") {
            write!(body, " {f}").unwrap();
        } else {
            write!(body, " x{i}: {f}").unwrap();
        }
    }
    let vars = if uses_var { "($v: Int)" } else { "" };
    match name {
        Some(nm) => format!("{kw} {nm}{vars} {{{body} }}"),
        None if uses_var => format!("{kw} Anon{vars} {{{body} }}"),
        None => {
            if kind == 0 && r.chance(1, 2) {
                format!("{{{body} }}")
            } else {
                format!("{kw} {{{body} }}")
            }
        }
    }
}

/// application/x-www-form-urlencoded spellings of one value.
///  0 form encoding (space -> '+'), 1 space -> %20, 2 every byte %xx (random hex
///  case), 3 only what must be escaped, 4 a different spelling per character
fn enc(r: &mut Rng, s: &str, mode: usize) -> String {
    let mut o = String::new();
    for &c in s.as_bytes() {
        let m = if mode == 4 { r.below(4) } else { mode };
        let plain = c.is_ascii_alphanumeric() || b"*-._".contains(&c);
        let must = b"&=+%#".contains(&c) || c < 0x21 || c >= 0x7f;
        let pct = |r: &mut Rng, o: &mut String| {
            if r.chance(1, 2) {
                write!(o, "%{c:02X}").unwrap()
            } else {
                write!(o, "%{c:02x}").unwrap()
            }
        };
        match m {
            0 if c == b' ' => o.push('+'),
            0 | 1 if plain => o.push(c as char),
            0 | 1 => write!(o, "%{c:02X}").unwrap(),
            2 => pct(r, &mut o),
            _ if must => pct(r, &mut o),
            _ => o.push(c as char),
        }
    }
    o
}

const KEY_SPELLINGS: [&str; 6] =
    ["operationName", "operation_name", "operation%4Eame", "%6Fperation_name", "operationName", "operationName"];

fn fixed() -> Vec<Get> {
    let g = |raw: &str, note: &str| Get { raw: raw.to_string(), note: note.to_string() };
    vec![
        // the witnesses of the finding
        g("query=mutation%20%7B%20m%20%7D", "anonymous mutation, no name"),
        g("query=query%20A%20%7B%20q%20%7D%20mutation%20B%20%7B%20m%20b%3A%20m%20%7D&operation_name=B", "mixed, matching name"),
        g("query=query%20A%20%7B%20q%20%7D%20mutation%20B%20%7B%20m%20b%3A%20m%20%7D&operationName=B", "mixed, matching name"),
        // an EMPTY operation name is a name: error, nothing runs
        g("query=mutation%20M%20%7B%20m%20%7D&operationName=", "named mutation, empty name"),
        g("query=mutation%20%7B%20m%20%7D&operationName=", "anonymous mutation, empty name"),
        g("operationName=&query=mutation+M+%7B+m+%7D", "named mutation, empty name first"),
        g("query=mutation+M+%7B+m+%7D&operation_name=", "named mutation, empty name under the alias"),
        g("query=mutation+M+%7B+m+%7D&operationName", "named mutation, name key without '='"),
        g("query=mutation+M+%7B+m+%7D&operation%4Eame=", "named mutation, empty name, encoded key"),
        g("query=mutation+M+%7B+m2+a%3A+m+%7D&operationName=&variables=%7B%22v%22%3A7%7D", "named mutation, empty name, variables"),
        g("query=%7B+q+%7D&operationName=", "anonymous query, empty name"),
        g("query=query+Q+%7B+q+%7D&operationName=", "named query, empty name"),
        g("query=query+A+%7B+q+%7D+mutation+B+%7B+m+%7D&operationName=", "mixed, empty name"),
        // blank / non-matching / matching names
        g("query=mutation+M+%7B+m+%7D&operationName=+", "named mutation, blank name"),
        g("query=mutation+M+%7B+m+%7D&operationName=%20", "named mutation, blank name"),
        g("query=mutation+M+%7B+m+%7D&operationName=%09", "named mutation, tab name"),
        g("query=mutation+M+%7B+m+%7D&operationName=M%20", "named mutation, name + space"),
        g("query=mutation+M+%7B+m+%7D&operationName=+M", "named mutation, space + name"),
        g("query=mutation+M+%7B+m+%7D&operationName=m", "named mutation, name in the wrong case"),
        g("query=mutation+M+%7B+m+%7D&operationName=null", "named mutation, name `null`"),
        g("query=mutation+M+%7B+m+%7D&operationName=%C3%A9", "named mutation, non-ASCII name"),
        g("query=mutation+M+%7B+m+%7D&operationName=%4D", "named mutation, matching name percent-encoded"),
        g("query=mutation+M+%7B+m+%7D&operationName=M", "named mutation, matching name"),
        g("query=mutation+M+%7B+m+%7D&operationname=&OperationName=", "named mutation, unknown keys only"),
        g("query=mutation+%7B+m+%7D&operationName=B", "anonymous mutation, a name"),
        // duplicated parameters
        g("query=mutation+M+%7B+m+%7D&operationName=&operationName=M", "named mutation, name twice (empty, matching)"),
        g("query=mutation+M+%7B+m+%7D&operationName=M&operationName=", "named mutation, name twice (matching, empty)"),
        g("query=mutation+M+%7B+m+%7D&operationName=M&operation_name=", "named mutation, name under both keys"),
        g("query=mutation+M+%7B+m+%7D&operation_name=&operationName=M", "named mutation, name under both keys"),
        g("query=mutation+M+%7B+m+%7D&operationName=&operationName=", "named mutation, empty name twice"),
        // boundary cases
        g("query=%7B%20q%20%7D", "anonymous query"),
        g("query=query+A+%7B+q+%7D+mutation+B+%7B+m+%7D&operation_name=A", "mixed, the query by name"),
        g("query=query+A+%7B+q+%7D+mutation+B+%7B+m+%7D", "mixed, no name"),
        g("query=query+A+%7B+q+%7D+mutation+B+%7B+m+%7D&operation_name=C", "mixed, non-matching name"),
        g("query=mutation+B+%7B+m+%7D", "named mutation, no name"),
        g("query=mutation+B(%24v%3A+Int)+%7B+m2(n%3A+%24v)+%7D&operation_name=B&variables=%7B%22v%22%3A+3%7D", "named mutation with variables"),
        g("query=mutation+%7B+__typename+%7D", "mutation without a resolver"),
        g("query=mutation+B+%7B+m+%7D+mutation+C+%7B+m2+x%3A+m+%7D&operation_name=C", "two mutations"),
        g("query=subscription+%7B+s+%7D", "subscription"),
        // batches have no GET form: a JSON array as query, repeated query parameters, a bare JSON array
        g("query=%5B%7B%22query%22%3A%22mutation+%7B+m+%7D%22%7D%5D", "JSON batch inside query"),
        g("query=mutation+%7B+m+%7D&query=%7B+q+%7D", "query twice"),
        g("query=%7B+q+%7D&query=mutation+%7B+m+%7D&operationName=", "query twice, empty name"),
        g("%5B%7B%22query%22%3A%22mutation%20%7B%20m%20%7D%22%7D%5D", "bare JSON batch"),
        g("operationName=M", "no query"),
        g("", "empty query string"),
        g("&&query=mutation+M+%7B+m+%7D&&operationName=&", "named mutation, empty name, empty pieces"),
    ]
}

/// a document, the names of its operations and which of them are mutations
fn gen_doc(r: &mut Rng) -> (String, Vec<(String, bool)>, &'static str) {
    match r.below(10) {
        0 | 1 => {
            // single named mutation
            let nm = *r.pick(&["M", "Op", "Bump", "m"]);
            (gen_op(r, 1, Some(nm)), vec![(nm.to_string(), true)], "named mutation")
        }
        2 => (gen_op(r, 1, None), vec![], "anonymous mutation"),
        3 => {
            let k = r.below(2);
            let nm = *r.pick(&["Q", "Op"]);
            if r.chance(1, 2) {
                (gen_op(r, k, None), vec![], if k == 0 { "anonymous query" } else { "anonymous mutation" })
            } else {
                (gen_op(r, k, Some(nm)), vec![(nm.to_string(), k == 1)], if k == 0 { "named query" } else { "named mutation" })
            }
        }
        4 => {
            // batched: no GET form exists
            let m = gen_op(r, 1, None);
            let q = gen_op(r, 0, None);
            (format!("[{{\"query\":{}}},{{\"query\":{}}}]", jstr(&m), jstr(&q)), vec![], "JSON batch inside query")
        }
        _ => {
            // mixed document: 2-4 named operations
            let n = 2 + r.below(3);
            let names = ["A", "B", "C", "D"];
            let mut q = String::new();
            let mut ops = vec![];
            for (i, nm) in names.iter().enumerate().take(n) {
                let kind = if i == 0 { r.below(2) } else { 1 - (i + r.below(2)) % 2 };
                q.push_str(&gen_op(r, kind, Some(nm)));
                q.push(' ');
                ops.push((nm.to_string(), kind == 1));
            }
            (q, ops, "mixed")
        }
    }
}

fn random(r: &mut Rng) -> Get {
    let (query, ops, dkind) = gen_doc(r);
    let qmode = r.below(5);
    let mut pieces: Vec<String> = vec![format!("query={}", enc(r, &query, qmode))];
    let key = |r: &mut Rng| KEY_SPELLINGS[r.below(KEY_SPELLINGS.len())];
    let some_name = |r: &mut Rng, ops: &[(String, bool)]| {
        if ops.is_empty() { "M".to_string() } else { ops[r.below(ops.len())].0.clone() }
    };
    let blanks = ["+", "%20", "%09", "%20%20", "%0A", "+%20"];
    let note;
    match r.below(12) {
        0 | 1 => note = "no name",
        2 | 3 | 4 => {
            let k = key(r);
            pieces.push(if r.chance(1, 6) { k.to_string() } else { format!("{k}=") });
            note = "empty name";
        }
        5 => {
            pieces.push(format!("{}={}", key(r), r.pick(&blanks)));
            note = "blank name";
        }
        6 | 7 => {
            let nm = some_name(r, &ops);
            let wrong = match r.below(7) {
                0 => "Z".to_string(),
                1 => format!("{nm} "),
                2 => format!(" {nm}"),
                3 => if nm.to_lowercase() != nm { nm.to_lowercase() } else { nm.to_uppercase() },
                4 => "null".to_string(),
                5 => format!("{nm}\u{e9}"),
                _ => format!("{nm}{nm}"),
            };
            let m = r.below(5);
            pieces.push(format!("{}={}", key(r), enc(r, &wrong, m)));
            note = "non-matching name";
        }
        8 | 9 | 10 => {
            let nm = some_name(r, &ops);
            let m = r.below(5);
            pieces.push(format!("{}={}", key(r), enc(r, &nm, m)));
            note = if ops.is_empty() { "a name" } else { "matching name" };
        }
        _ => {
            // the parameter twice: same key or both keys, one value empty / matching / wrong
            let nm = some_name(r, &ops);
            let vals = ["".to_string(), nm.clone(), "Z".to_string(), nm];
            let (k1, k2) = (key(r), key(r));
            let (v1, v2) = (r.pick(&vals).clone(), r.pick(&vals).clone());
            pieces.push(format!("{k1}={}", enc(r, &v1, 0)));
            pieces.push(format!("{k2}={}", enc(r, &v2, 1)));
            note = "name twice";
        }
    }
    if r.chance(1, 3) {
        let m = r.below(2);
        pieces.push(format!("variables={}", enc(r, "{\"v\": 7}", m)));
    }
    if r.chance(1, 8) {
        pieces.push("extensions=%7B%7D".to_string());
    }
    if r.chance(1, 8) {
        pieces.push((*r.pick(&["foo=bar", "operationname=M", "OperationName=", "name=M", "x"])).to_string());
    }
    if r.chance(1, 12) {
        // batched by repetition
        let m = r.below(2);
        pieces.push(format!("query={}", enc(r, "{ q }", m)));
    }
    if r.chance(1, 2) {
        r.shuffle(&mut pieces);
    }
    let mut raw = pieces.join(if r.chance(1, 10) { "&&" } else { "&" });
    if r.chance(1, 12) {
        raw.push('&');
    }
    Get { raw, note: format!("{dkind}, {note}") }
}

/// rocket's `From<GraphQLQuery> for GraphQLRequest`, fed from the same raw
/// query string (form fields `query`, `operationName`, `variables`).
fn rocket_decode(raw: &str) -> Option<Request> {
    let pairs: Vec<(String, String)> = serde_urlencoded::from_str(raw).ok()?;
    let get = |k: &str| pairs.iter().find(|(a, _)| a == k).map(|(_, b)| b.clone());
    let mut request = Request::new(get("query")?);
    if let Some(n) = get("operationName") {
        request = request.operation_name(n);
    }
    if let Some(v) = get("variables") {
        let value = serde_json::from_str(&v).unwrap_or_default();
        request = request.variables(Variables::from_json(value));
    }
    Some(request)
}

fn main() {
    let a = parse_args();
    let mut rng = Rng::new(a.seed);
    let mut it = Interner::new();
    // fixed ids used by the witnesses of coq/theories/GetGuardProofs.v
    for s in ["_service", "_entities", "q", "m"] {
        it.id(s);
    }
    let schema = Schema::build(Query, Mutation, EmptySubscription).finish();
    let mut out = String::new();
    let mut reqs = fixed();
    while reqs.len() < a.n.max(60) {
        reqs.push(random(&mut rng));
    }
    let mut ndoc = 0usize;
    for g in &reqs {
        let raw = &g.raw;
        for integ in INTEGS {
            let decoded = if integ == "Rocket" {
                rocket_decode(raw)
            } else {
                async_graphql::http::parse_query_string(raw).ok()
            };
            let text = format!("[{integ}] GET /?{raw}   ({})", g.note);
            let Some(request) = decoded else {
                // the integration answers 400 Bad Request; nothing reaches the executor
                writeln!(
                    out,
                    "CASE\t({integ}, {}, None, [], DErr, GError)\t{{\"text\":{},\"impl\":\"rejected by the decoder (400), nothing executed\",\"nontrivial\":false}}",
                    g_bytes(raw.as_bytes()),
                    jstr(&text)
                )
                .unwrap();
                continue;
            };
            let opname = request.operation_name.clone();
            let query = request.query.clone();
            let parsed = async_graphql::parser::parse_query(&request.query).ok();
            take_log();
            let resp = block_on(schema.execute(request));
            let log = take_log();
            let is_err = resp.data == Value::Null && !resp.errors.is_empty();
            let res = if is_err { "GError".to_string() } else { format!("(GRan {} {})", log[0], log[1]) };
            let mut uses = String::new();
            let mut tab: Vec<(String, String)> = vec![];
            let mut has_mutation = false;
            let doc_term = match &parsed {
                Some(doc) => {
                    let dname = format!("d{ndoc}");
                    ndoc += 1;
                    writeln!(out, "DEF\t{dname}\t{}", g_document(&mut it, doc)).unwrap();
                    uses = jstr(&dname);
                    match &doc.operations {
                        DocumentOperations::Single(op) => {
                            has_mutation |= op.node.ty == async_graphql::parser::types::OperationType::Mutation;
                        }
                        DocumentOperations::Multiple(m) => {
                            let mut names: Vec<&str> = m.keys().map(|k| k.as_str()).collect();
                            names.sort();
                            for n in names {
                                tab.push((it.n(n), g_bytes(n.as_bytes())));
                            }
                            has_mutation |= m.values().any(|op| op.node.ty == async_graphql::parser::types::OperationType::Mutation);
                        }
                    }
                    format!("(Some {dname})")
                }
                None => "None".to_string(),
            };
            let impl_h = format!(
                "decoded query={:?} operation_name={:?}; {} query-root runs={} mutation-root runs={}{}",
                query,
                opname,
                if is_err { "error" } else { "data" },
                log[0],
                log[1],
                resp.errors.first().map(|e| format!(" first-error={}", e.message)).unwrap_or_default()
            );
            writeln!(
                out,
                "CASE\t({integ}, {}, {doc_term}, {}, (DReq {} {}), {res})\t{{\"uses\":[{uses}],\"text\":{},\"impl\":{},\"nontrivial\":{}}}",
                g_bytes(raw.as_bytes()),
                g_list(tab.iter(), |(i, s)| format!("({i}, {s})")),
                g_bytes(query.as_bytes()),
                g_opt(opname.as_deref(), |n| g_bytes(n.as_bytes())),
                jstr(&text),
                jstr(&impl_h),
                log[1] > 0 || log[0] > 0 || has_mutation
            )
            .unwrap();
        }
    }
    writeln!(out, "NAMES\t\t{}", serde_json::to_string(&it.names).unwrap()).unwrap();
    std::fs::write(format!("{}/c35.cases", a.out), out).unwrap();
}

//! C02 correspondence: schemas assembled at run time with the dynamic-schema
//! API.  The first type system is the one of harness/src/family.rs (objects
//! Query/Mutation/A/B/C with the same 18 fields, interfaces Node and Named,
//! union Pair, enum Kind), the second a fixed interface hierarchy (P <- Ch <- G);
//! further type systems are generated (interface inheritance included).  Resolvers are
//! data-driven: what a resolver returns is read from a world keyed by
//! (node id, field) and converted into a `FieldValue` (see `top_fv`/`item_fv`,
//! mirrored by `hfails`/`dyn_exec` in coq/theories/DynExec.v).
//! `c02 <seed> <n> <out>`
use std::collections::HashMap;
use std::fmt::Write as _;
use std::sync::{Arc, Mutex};

use agv_harness::family::{default_out, Out};
use agv_harness::*;
use async_graphql::dynamic::{
    Enum, Field, FieldFuture, FieldValue, Interface, InterfaceField, Object, Schema, TypeRef, Union,
};
use async_graphql::registry::{MetaType, Registry};
use async_graphql::{Error, Name, PathSegment, Request, ValidationMode, Value, Variables};

// ------------------------------------------------------------ type systems
#[derive(Clone, Debug)]
struct ObjDesc {
    name: String,
    fields: Vec<(String, String)>,
    implements: Vec<String>,
}

#[derive(Clone, Debug, Default)]
struct TypeSys {
    objects: Vec<ObjDesc>,
    interfaces: Vec<(String, Vec<(String, String)>)>,
    /// interface -> the interfaces it declares to implement (transitively closed)
    iface_implements: Vec<(String, Vec<String>)>,
    unions: Vec<(String, Vec<String>)>,
    enums: Vec<(String, Vec<String>)>,
    mutation: bool,
}

#[derive(Clone, Copy, Debug, PartialEq, Eq)]
enum Kind {
    Scalar,
    Enum,
    Object,
    Interface,
    Union,
}

impl TypeSys {
    fn kind(&self, n: &str) -> Option<Kind> {
        if matches!(n, "Int" | "Float" | "String" | "Boolean" | "ID") {
            return Some(Kind::Scalar);
        }
        if self.enums.iter().any(|e| e.0 == n) {
            return Some(Kind::Enum);
        }
        if self.objects.iter().any(|o| o.name == n) {
            return Some(Kind::Object);
        }
        if self.interfaces.iter().any(|i| i.0 == n) {
            return Some(Kind::Interface);
        }
        if self.unions.iter().any(|u| u.0 == n) {
            return Some(Kind::Union);
        }
        None
    }
    fn is_root(&self, n: &str) -> bool {
        n == "Query" || n == "Mutation"
    }
    /// object types a value of the named composite type may be
    fn possible(&self, n: &str) -> Vec<String> {
        match self.kind(n) {
            Some(Kind::Object) => vec![n.to_string()],
            Some(Kind::Interface) => self.objects.iter().filter(|o| o.implements.iter().any(|i| i == n)).map(|o| o.name.clone()).collect(),
            Some(Kind::Union) => self.unions.iter().find(|u| u.0 == n).map(|u| u.1.clone()).unwrap_or_default(),
            _ => vec![],
        }
    }
    fn fields_of(&self, n: &str) -> Vec<(String, String)> {
        if let Some(o) = self.objects.iter().find(|o| o.name == n) {
            return o.fields.clone();
        }
        if let Some(i) = self.interfaces.iter().find(|i| i.0 == n) {
            return i.1.clone();
        }
        vec![]
    }
    fn is_composite(&self, n: &str) -> bool {
        matches!(self.kind(n), Some(Kind::Object | Kind::Interface | Kind::Union))
    }
    /// type conditions that validation accepts inside a selection on `n`
    fn conds_for(&self, n: &str) -> Vec<String> {
        if self.is_root(n) {
            return vec![n.to_string()];
        }
        let mine = self.possible(n);
        let mut out = vec![n.to_string()];
        let all: Vec<String> = self.objects.iter().map(|o| o.name.clone()).chain(self.interfaces.iter().map(|i| i.0.clone())).chain(self.unions.iter().map(|u| u.0.clone())).collect();
        for t in all {
            if t != n && !self.is_root(&t) && self.possible(&t).iter().any(|p| mine.contains(p)) {
                out.push(t);
            }
        }
        out
    }
    /// every composite type that is not a root
    fn all_conds(&self) -> Vec<String> {
        self.objects.iter().map(|o| o.name.clone()).chain(self.interfaces.iter().map(|i| i.0.clone())).chain(self.unions.iter().map(|u| u.0.clone())).filter(|t| !self.is_root(t)).collect()
    }
    fn all_field_names(&self) -> Vec<String> {
        let mut v: Vec<String> = vec![];
        for o in &self.objects {
            for (f, _) in &o.fields {
                if !v.contains(f) {
                    v.push(f.clone());
                }
            }
        }
        v
    }
}

const FIELDS: &[(&str, &str)] = &[
    ("id", "Int!"), ("name", "String"), ("score", "Float!"), ("ratio", "Float"), ("flag", "Boolean"),
    ("kind", "Kind!"), ("a", "A"), ("b", "B!"), ("bs", "[B!]!"), ("cs", "[C]"), ("aList", "[A]!"),
    ("csNn", "[C!]"), ("node", "Node"), ("nodes", "[Node!]!"), ("ab", "Pair"), ("abs", "[Pair]!"),
    ("grid", "[[Int!]!]!"), ("named", "Named"),
];

/// the type system of harness/src/family.rs
fn family_sys() -> TypeSys {
    let fs: Vec<(String, String)> = FIELDS.iter().map(|(a, b)| (a.to_string(), b.to_string())).collect();
    let obj = |n: &str, imp: &[&str]| ObjDesc { name: n.into(), fields: fs.clone(), implements: imp.iter().map(|s| s.to_string()).collect() };
    TypeSys {
        objects: vec![obj("Query", &[]), obj("Mutation", &[]), obj("A", &["Node", "Named"]), obj("B", &["Node", "Named"]), obj("C", &["Node"])],
        interfaces: vec![
            ("Node".into(), vec![("id".into(), "Int!".into()), ("name".into(), "String".into())]),
            ("Named".into(), vec![("name".into(), "String".into())]),
        ],
        iface_implements: vec![],
        unions: vec![("Pair".into(), vec!["A".into(), "B".into()])],
        enums: vec![("Kind".into(), vec!["X".into(), "Y".into()])],
        mutation: true,
    }
}

/// a fixed type system with an interface hierarchy: P <- Ch <- G, objects implementing
/// {P}, {Ch, P}, {G, Ch, P} and nothing, every object with the same fields
fn inherit_sys() -> TypeSys {
    let fs: Vec<(String, String)> = [
        ("id", "Int!"), ("name", "String"), ("flag", "Boolean"), ("ps", "[P!]!"), ("chs", "[Ch]"), ("g", "G"), ("p", "P"),
        ("u", "U"), ("us", "[U!]"), ("plain", "Plain"), ("mids", "[Mid!]"),
    ]
    .iter()
    .map(|(a, b)| (a.to_string(), b.to_string()))
    .collect();
    let obj = |n: &str, imp: &[&str]| ObjDesc { name: n.into(), fields: fs.clone(), implements: imp.iter().map(|s| s.to_string()).collect() };
    let f = |l: &[(&str, &str)]| -> Vec<(String, String)> { l.iter().map(|(a, b)| (a.to_string(), b.to_string())).collect() };
    TypeSys {
        objects: vec![obj("Query", &[]), obj("Mutation", &[]), obj("Plain", &["P"]), obj("Mid", &["Ch", "P"]), obj("Deep", &["G", "Ch", "P"]), obj("Loose", &[])],
        interfaces: vec![
            ("P".into(), f(&[("id", "Int!")])),
            ("Ch".into(), f(&[("id", "Int!"), ("name", "String")])),
            ("G".into(), f(&[("id", "Int!"), ("name", "String"), ("flag", "Boolean")])),
        ],
        iface_implements: vec![("Ch".into(), vec!["P".into()]), ("G".into(), vec!["Ch".into(), "P".into()])],
        unions: vec![("U".into(), vec!["Plain".into(), "Mid".into(), "Deep".into(), "Loose".into()])],
        enums: vec![],
        mutation: true,
    }
}

/// a generated type system: 2-5 object types, 0-3 interfaces (with interface inheritance), 0-2 unions, 0-1 enums
fn gen_sys(r: &mut Rng) -> TypeSys {
    let nobj = 2 + r.below(4);
    let onames: Vec<String> = (0..nobj).map(|i| format!("O{i}")).collect();
    let mut ts = TypeSys { mutation: r.chance(1, 2), ..Default::default() };
    if r.chance(2, 3) {
        ts.enums.push(("E0".into(), vec!["P".into(), "Q".into(), "R".into()]));
    }
    let nif = r.below(4);
    // interface fields are leaf fields every implementor gets; an interface may implement
    // the previous ones (it then repeats their fields, and lists its parents' parents too)
    let leafs = ["Int", "Int!", "String", "Float", "Boolean!"];
    for i in 0..nif {
        let mut fs = vec![(format!("i{i}"), r.pick(&leafs).to_string())];
        if r.chance(1, 2) {
            fs.push((format!("j{i}"), r.pick(&leafs).to_string()));
        }
        let mut parents: Vec<String> = vec![];
        if i > 0 && r.chance(2, 3) {
            let par = r.below(i);
            parents.push(format!("I{par}"));
            if let Some(pp) = ts.iface_implements.iter().find(|x| x.0 == format!("I{par}")) {
                parents.extend(pp.1.iter().cloned());
            }
            for pn in parents.clone() {
                for f in &ts.interfaces.iter().find(|x| x.0 == pn).unwrap().1 {
                    if !fs.iter().any(|x| x.0 == f.0) {
                        fs.push(f.clone());
                    }
                }
            }
        }
        ts.interfaces.push((format!("I{i}"), fs));
        if !parents.is_empty() {
            ts.iface_implements.push((format!("I{i}"), parents));
        }
    }
    let mut imps: Vec<Vec<String>> = vec![vec![]; nobj];
    for (i, _) in ts.interfaces.clone().iter().enumerate() {
        // at least one implementor; an implementor lists the interface's parents too
        let must = r.below(nobj);
        for (k, imp) in imps.iter_mut().enumerate() {
            if k == must || r.chance(1, 3) {
                let mut add = vec![format!("I{i}")];
                if let Some(pp) = ts.iface_implements.iter().find(|x| x.0 == format!("I{i}")) {
                    add.extend(pp.1.iter().cloned());
                }
                for a in add {
                    if !imp.contains(&a) {
                        imp.push(a);
                    }
                }
            }
        }
    }
    let nun = r.below(3);
    for i in 0..nun {
        let mut ms: Vec<String> = onames.iter().filter(|_| r.chance(1, 2)).cloned().collect();
        if ms.is_empty() {
            ms.push(r.pick(&onames).clone());
        }
        ts.unions.push((format!("U{i}"), ms));
    }
    let mut targets: Vec<String> = onames.clone();
    targets.extend(ts.interfaces.iter().map(|i| i.0.clone()));
    targets.extend(ts.unions.iter().map(|u| u.0.clone()));
    let wraps = ["{}", "{}!", "[{}]", "[{}!]", "[{}]!", "[{}!]!", "[[{}]]", "[[{}!]!]"];
    let gen_fields = |r: &mut Rng, ts: &TypeSys, imp: &[String], rich: bool| -> Vec<(String, String)> {
        let mut fs: Vec<(String, String)> = vec![("id".into(), "Int!".into())];
        for i in imp {
            for f in &ts.interfaces.iter().find(|x| &x.0 == i).unwrap().1 {
                if !fs.iter().any(|x| x.0 == f.0) {
                    fs.push(f.clone());
                }
            }
        }
        let n = if rich { 5 + r.below(4) } else { 2 + r.below(5) };
        for k in 0..n {
            let base: String = match r.below(10) {
                0 => "Int".into(),
                1 => "String".into(),
                2 => "Float".into(),
                3 => "Boolean".into(),
                4 if !ts.enums.is_empty() => "E0".into(),
                _ => r.pick(&targets).clone(),
            };
            let w = if rich && k < 2 { "{}" } else { *r.pick(&wraps) };
            fs.push((format!("f{k}"), w.replace("{}", &base)));
        }
        fs
    };
    for (k, n) in onames.iter().enumerate() {
        let fields = gen_fields(r, &ts, &imps[k], false);
        ts.objects.push(ObjDesc { name: n.clone(), fields, implements: imps[k].clone() });
    }
    let qf = gen_fields(r, &ts, &[], true);
    ts.objects.insert(0, ObjDesc { name: "Query".into(), fields: qf, implements: vec![] });
    if ts.mutation {
        let mf = gen_fields(r, &ts, &[], true);
        ts.objects.insert(1, ObjDesc { name: "Mutation".into(), fields: mf, implements: vec![] });
    }
    ts
}

fn parse_ty(t: &str) -> TypeRef {
    if let Some(inner) = t.strip_suffix('!') {
        TypeRef::NonNull(Box::new(parse_ty(inner)))
    } else if t.starts_with('[') && t.ends_with(']') {
        TypeRef::List(Box::new(parse_ty(&t[1..t.len() - 1])))
    } else {
        TypeRef::Named(t.to_string().into())
    }
}

// ------------------------------------------------------------ worlds
struct DWorld {
    sys: Arc<TypeSys>,
    nodes: Vec<(String, HashMap<String, Out>)>,
    trace: Mutex<Vec<(usize, String)>>,
    /// a resolver whose outcome is null returns `Some(FieldValue::NULL)` (true) or `None` (false)
    nullv: bool,
    /// enum values are returned as `Value::String` instead of `Value::Enum`
    enum_str: bool,
    /// lists of leaves are returned as `Value::List` instead of `FieldValue::list`
    vlist: bool,
}

impl DWorld {
    fn out(&self, nid: usize, field: &str) -> Out {
        self.nodes.get(nid).and_then(|n| n.1.get(field).cloned()).unwrap_or_else(|| default_out(nid, field))
    }
    fn ty(&self, nid: usize) -> Option<&str> {
        self.nodes.get(nid).map(|n| n.0.as_str())
    }
}

fn strip_nn(t: &TypeRef) -> &TypeRef {
    match t {
        TypeRef::NonNull(i) => i,
        t => t,
    }
}

/// Conversion of a list item / non-null outcome (DynExec.v: hfails_item).
fn item_fv(w: &DWorld, o: &Out, t: &TypeRef) -> Result<FieldValue<'static>, Error> {
    let t = strip_nn(t);
    let shape = || Error::new("shape");
    match o {
        Out::Err => Err(shape()),
        Out::Null => Ok(FieldValue::NULL),
        Out::Int(_) | Out::Float(_) | Out::Str(_) | Out::Bool(_) | Out::Enum(_) => {
            let TypeRef::Named(tn) = t else { return Err(shape()) };
            if !matches!(w.sys.kind(tn), Some(Kind::Scalar | Kind::Enum)) {
                return Err(shape());
            }
            Ok(FieldValue::value(leaf_value(w, o, w.sys.kind(tn) == Some(Kind::Enum))))
        }
        Out::Ref(n) => {
            let TypeRef::Named(tn) = t else { return Err(shape()) };
            let Some(nt) = w.ty(*n) else { return Err(shape()) };
            match w.sys.kind(tn) {
                Some(Kind::Object) => {
                    if nt == tn.as_ref() {
                        Ok(FieldValue::owned_any(*n))
                    } else {
                        Err(shape())
                    }
                }
                Some(Kind::Interface | Kind::Union) => Ok(FieldValue::owned_any(*n).with_type(nt.to_string())),
                _ => Err(shape()),
            }
        }
        Out::List(l) => {
            let TypeRef::List(inner) = t else { return Err(shape()) };
            if w.vlist && l.iter().all(|x| matches!(x, Out::Int(_) | Out::Float(_) | Out::Str(_) | Out::Bool(_) | Out::Enum(_) | Out::Null)) {
                if let TypeRef::Named(tn) = strip_nn(inner) {
                    if matches!(w.sys.kind(tn), Some(Kind::Scalar | Kind::Enum)) {
                        let en = w.sys.kind(tn) == Some(Kind::Enum);
                        return Ok(FieldValue::value(Value::List(l.iter().map(|x| leaf_value(w, x, en)).collect())));
                    }
                }
            }
            let mut items = vec![];
            for x in l {
                items.push(item_fv(w, x, inner)?);
            }
            Ok(FieldValue::list(items))
        }
    }
}

fn leaf_value(w: &DWorld, o: &Out, enum_ty: bool) -> Value {
    match o {
        Out::Int(i) => Value::Number((*i).into()),
        Out::Float(f) => Value::from(*f),
        Out::Str(s) => Value::String(s.clone()),
        Out::Bool(b) => Value::Boolean(*b),
        Out::Enum(e) => {
            if w.enum_str && enum_ty {
                Value::String(e.clone())
            } else {
                Value::Enum(Name::new(e))
            }
        }
        _ => Value::Null,
    }
}

/// Conversion of a resolver's outcome (DynExec.v: hfails + the `nullv` style).
fn top_fv(w: &DWorld, o: &Out, t: &TypeRef) -> Result<Option<FieldValue<'static>>, Error> {
    match o {
        Out::Err => Err(Error::new("boom")),
        Out::Null => Ok(if w.nullv { Some(FieldValue::NULL) } else { None }),
        o => item_fv(w, o, t).map(Some),
    }
}

fn make_field(obj: &str, fname: &str, tstr: &str) -> Field {
    let tr = parse_ty(tstr);
    let obj = obj.to_string();
    let fname_s = fname.to_string();
    Field::new(fname, tr.clone(), move |ctx| {
        let tr = tr.clone();
        let obj = obj.clone();
        let fname = fname_s.clone();
        FieldFuture::new(async move {
            let w = ctx.data_unchecked::<Arc<DWorld>>().clone();
            let nid = match obj.as_str() {
                "Query" => 0usize,
                "Mutation" => 1usize,
                _ => match ctx.parent_value.downcast_ref::<usize>() {
                    Some(n) => *n,
                    None => return Err(Error::new("shape")), // parent is not a node (a null resolved as an object)
                },
            };
            w.trace.lock().unwrap().push((nid, fname.clone()));
            let o = w.out(nid, &fname);
            top_fv(&w, &o, &tr)
        })
    })
}

fn build_schema(ts: &TypeSys, fast: bool) -> Result<Schema, String> {
    let mut b = Schema::build("Query", if ts.mutation { Some("Mutation") } else { None }, None);
    if fast {
        b = b.validation_mode(ValidationMode::Fast);
    }
    for o in &ts.objects {
        let mut obj = Object::new(o.name.clone());
        for (f, t) in &o.fields {
            obj = obj.field(make_field(&o.name, f, t));
        }
        for i in &o.implements {
            obj = obj.implement(i.clone());
        }
        b = b.register(obj);
    }
    for (n, fs) in &ts.interfaces {
        let mut i = Interface::new(n.clone());
        for (f, t) in fs {
            i = i.field(InterfaceField::new(f.clone(), parse_ty(t)));
        }
        if let Some(pp) = ts.iface_implements.iter().find(|x| &x.0 == n) {
            for par in &pp.1 {
                i = i.implement(par.clone());
            }
        }
        b = b.register(i);
    }
    for (n, ms) in &ts.unions {
        let mut u = Union::new(n.clone());
        for m in ms {
            u = u.possible_type(m.clone());
        }
        b = b.register(u);
    }
    for (n, vs) in &ts.enums {
        b = b.register(Enum::new(n.clone()).items(vs.iter().map(|v| v.as_str())));
    }
    b.finish().map_err(|e| e.to_string())
}

// ------------------------------------------------------------ printers
fn g_ty(it: &mut Interner, t: &str) -> String {
    if let Some(inner) = t.strip_suffix('!') {
        format!("(TNonNull {})", g_ty(it, inner))
    } else if t.starts_with('[') && t.ends_with(']') {
        format!("(TList {})", g_ty(it, &t[1..t.len() - 1]))
    } else {
        format!("(TNamed {})", it.n(t))
    }
}

/// the schema as the library registered it (types, implements, possible types)
fn dump_registry(it: &mut Interner, r: &Registry) -> String {
    let fields = |it: &mut Interner, fs: &indexmap::IndexMap<String, async_graphql::registry::MetaField>| {
        g_list(fs.iter().filter(|(k, _)| !k.starts_with("__")), |(k, f)| format!("({}, {})", it.n(k), g_ty(it, &f.ty)))
    };
    let mut tnames = vec![];
    let types = g_list(r.types.iter().filter(|(k, _)| !k.starts_with("__")), |(k, t)| {
        tnames.push(k.clone());
        let body = match t {
            MetaType::Object { fields: fs, .. } => {
                let imp: Vec<String> = r.implements.get(k).map(|s| s.iter().cloned().collect()).unwrap_or_default();
                format!("(DObject {} {})", fields(it, fs), g_list(imp.iter(), |i| it.n(i)))
            }
            MetaType::Interface { fields: fs, possible_types, .. } => format!("(DInterface {} {})", fields(it, fs), g_list(possible_types.iter(), |p| it.n(p))),
            MetaType::Union { possible_types, .. } => format!("(DUnion {})", g_list(possible_types.iter(), |p| it.n(p))),
            MetaType::Enum { enum_values, .. } => format!("(DEnum {})", g_list(enum_values.keys(), |v| it.n(v))),
            MetaType::Scalar { .. } => format!(
                "(DScalar {}%N)",
                match k.as_str() {
                    "Int" => 0,
                    "Float" => 1,
                    "String" => 2,
                    "Boolean" => 3,
                    _ => 4,
                }
            ),
            _ => "(DScalar 9%N)".to_string(),
        };
        format!("({}, {})", it.n(k), body)
    });
    format!(
        "{{| s_types := {}; s_query := {}; s_mutation := {}; s_tname := {} |}}",
        types,
        it.n(&r.query_type),
        g_opt(r.mutation_type.as_ref(), |m| it.n(m)),
        g_list(tnames.iter(), |k| format!("({}, {})", it.n(k), g_str(k)))
    )
}

fn g_out(it: &mut Interner, o: &Out) -> String {
    match o {
        Out::Err => "OErr".into(),
        Out::Null => "ONull".into(),
        Out::Int(i) => format!("(OInt {})", g_z(*i as i128)),
        Out::Float(f) => format!("(OFloat {}%N)", f.to_bits()),
        Out::Str(s) => format!("(OStr {})", g_str(s)),
        Out::Bool(b) => format!("(OBool {})", g_bool(*b)),
        Out::Enum(e) => format!("(OEnum {})", it.n(e)),
        Out::Ref(n) => format!("(ORef {}%N)", n),
        Out::List(l) => format!("(OList {})", g_list(l.iter(), |x| g_out(it, x))),
    }
}

fn g_world(it: &mut Interner, w: &DWorld) -> String {
    let nodes = g_list(w.nodes.iter().enumerate(), |(i, n)| {
        let mut fs: Vec<(&String, &Out)> = n.1.iter().collect();
        fs.sort_by(|a, b| a.0.cmp(b.0));
        format!("({}%N, {{| n_ty := {}; n_fields := {} |}})", i, it.n(&n.0), g_list(fs.iter(), |(k, o)| format!("({}, {})", it.n(k), g_out(it, o))))
    });
    let names = w.sys.all_field_names();
    let defaults = g_list(names.iter().filter(|f| *f != "id"), |f| format!("({}, {})", it.n(f), g_out(it, &default_out(0, f))));
    format!("{{| w_nodes := {}; w_defaults := {}; w_idname := {} |}}", nodes, defaults, it.n("id"))
}

// ------------------------------------------------------------ world generator (as c01.rs, over a TypeSys)
fn gen_out(r: &mut Rng, ts: &TypeSys, ty: &str, by_ty: &HashMap<String, Vec<usize>>) -> Out {
    if let Some(inner) = ty.strip_suffix('!') {
        let o = gen_out(r, ts, inner, by_ty);
        return if o == Out::Null { if r.chance(1, 30) { Out::Null } else { gen_nonnull(r, ts, inner, by_ty) } } else { o };
    }
    if r.chance(1, 5) {
        return Out::Null;
    }
    gen_nonnull(r, ts, ty, by_ty)
}

fn gen_leaf(r: &mut Rng, ts: &TypeSys, ty: &str) -> Out {
    match ty {
        "Int" | "ID" => Out::Int(match r.below(6) { 0 => i32::MAX as i64, 1 => i32::MIN as i64, 2 => 0, _ => r.range(-50, 50) }),
        "Float" => Out::Float(match r.below(12) { 2 => -0.0, _ => r.range(-40, 40) as f64 / 4.0 }),
        "String" => Out::Str(["", "x", "héllo", "a\"b"][r.below(4)].to_string()),
        "Boolean" => Out::Bool(r.chance(1, 2)),
        t => match ts.enums.iter().find(|e| e.0 == t) {
            Some(e) => Out::Enum(r.pick(&e.1).clone()),
            None => Out::Null,
        },
    }
}

fn gen_nonnull(r: &mut Rng, ts: &TypeSys, ty: &str, by_ty: &HashMap<String, Vec<usize>>) -> Out {
    if ty.starts_with('[') {
        let inner = &ty[1..ty.len() - 1];
        let n = r.below(4);
        return Out::List((0..n).map(|_| gen_out(r, ts, inner, by_ty)).collect());
    }
    if ts.is_composite(ty) {
        let mut c: Vec<usize> = vec![];
        for n in ts.possible(ty) {
            c.extend(by_ty.get(&n).cloned().unwrap_or_default());
        }
        return if c.is_empty() { Out::Null } else { Out::Ref(*r.pick(&c)) };
    }
    gen_leaf(r, ts, ty)
}

/// replace a leaf by a leaf of another kind / a reference by one outside the declared abstract type
fn mutate(r: &mut Rng, ts: &TypeSys, ty: &str, o: Out, by_ty: &HashMap<String, Vec<usize>>) -> Out {
    let b = base(ty);
    match o {
        Out::Int(_) | Out::Float(_) | Out::Str(_) | Out::Bool(_) | Out::Enum(_) => {
            let cands: Vec<Out> = vec![Out::Int(7), Out::Float(2.5), Out::Str("x".into()), Out::Bool(true), Out::Enum("P".into()), Out::Enum("ZZ".into())];
            let c = r.pick(&cands).clone();
            // an integer at a Float position is a valid Float: not a wrong kind
            if b == "Float" && matches!(c, Out::Int(_)) {
                return o;
            }
            c
        }
        Out::Ref(_) if matches!(ts.kind(b), Some(Kind::Interface | Kind::Union)) => {
            let all: Vec<usize> = by_ty.iter().filter(|(k, _)| !ts.is_root(k)).flat_map(|(_, v)| v.iter().cloned()).collect();
            let mut all = all;
            all.sort();
            if all.is_empty() { o } else { Out::Ref(*r.pick(&all)) }
        }
        Out::List(l) if !l.is_empty() => {
            let inner = &ty.trim_end_matches('!')[1..ty.trim_end_matches('!').len() - 1];
            let k = r.below(l.len());
            Out::List(l.into_iter().enumerate().map(|(i, x)| if i == k { mutate(r, ts, inner, x, by_ty) } else { x }).collect())
        }
        o => o,
    }
}

fn gen_world(r: &mut Rng, ts: &Arc<TypeSys>, fault_pm: u64, mutate_pm: u64) -> DWorld {
    let n = 5 + r.below(5);
    let objs: Vec<String> = ts.objects.iter().filter(|o| !ts.is_root(&o.name)).map(|o| o.name.clone()).collect();
    // node 0 is the query root, node 1 the mutation root (also when there is no mutation type: never reached)
    let mut tys: Vec<String> = vec!["Query".into(), if ts.mutation { "Mutation".into() } else { "Query".into() }];
    for _ in 2..n {
        tys.push(r.pick(&objs).clone());
    }
    for o in &objs {
        tys.push(o.clone());
    }
    let mut by_ty: HashMap<String, Vec<usize>> = HashMap::new();
    for (i, t) in tys.iter().enumerate() {
        by_ty.entry(t.clone()).or_default().push(i);
    }
    let mut nodes = vec![];
    for (i, t) in tys.iter().enumerate() {
        let mut m = HashMap::new();
        for (f, ty) in ts.fields_of(t) {
            if i > 1 && r.chance(1, 3) {
                continue;
            }
            let mut o = if (r.below(1000) as u64) < fault_pm { Out::Err } else { gen_out(r, ts, &ty, &by_ty) };
            if (r.below(1000) as u64) < mutate_pm {
                o = mutate(r, ts, &ty, o, &by_ty);
            }
            m.insert(f.clone(), o);
        }
        nodes.push((t.clone(), m));
    }
    DWorld { sys: ts.clone(), nodes, trace: Mutex::new(vec![]), nullv: r.chance(1, 3), enum_str: r.chance(1, 3), vlist: r.chance(1, 3) }
}

// ------------------------------------------------------------ documents (as c01.rs, over a TypeSys)
struct DocGen<'a> {
    ts: &'a TypeSys,
    r: Rng,
    frags: Vec<(String, String, String)>,
    uses: Vec<(String, bool, Option<bool>)>,
    dup: bool,
    /// type conditions range over every composite type, also ones validation would reject
    any_cond: bool,
}

fn base(t: &str) -> &str {
    t.trim_matches(|c| c == '[' || c == ']' || c == '!')
}

impl DocGen<'_> {
    fn dirs(&mut self) -> String {
        if !self.r.chance(1, 6) {
            return String::new();
        }
        let which = if self.r.chance(1, 2) { "skip" } else { "include" };
        match self.r.below(3) {
            0 => format!(" @{which}(if: {})", self.r.chance(1, 2)),
            _ => {
                let k = self.r.below(3);
                let name = format!("v{k}");
                if !self.uses.iter().any(|u| u.0 == name) {
                    let has_default = self.r.chance(1, 2);
                    let d = if has_default { Some(self.r.chance(1, 2)) } else { None };
                    self.uses.push((name.clone(), has_default, d));
                }
                format!(" @{which}(if: ${name})")
            }
        }
    }
    fn sels(&mut self, ty: &str, depth: usize) -> String {
        let mut out = String::from("{");
        let n = 1 + self.r.below(4);
        let fields = self.ts.fields_of(ty);
        let mut emitted = 0;
        let mut last_field: Option<(String, String)> = None;
        for _ in 0..n {
            let k = self.r.below(12);
            if k < 6 && !fields.is_empty() {
                let (f, t) = self.r.pick(&fields).clone();
                let b = base(&t).to_string();
                // the alias is derived from the field name: one response key never stands for two different
                // fields (such documents are invalid, yet the validator accepts some of them: C09's subject)
                let alias = if self.r.chance(1, 10) { format!("k{}{f}: ", self.r.below(2)) } else { String::new() };
                let d = self.dirs();
                if self.ts.is_composite(&b) {
                    if depth == 0 {
                        continue;
                    }
                    let sub = self.sels(&b, depth - 1);
                    write!(out, " {alias}{f}{d} {sub}").unwrap();
                    last_field = Some((f.to_string(), b));
                } else {
                    write!(out, " {alias}{f}{d}").unwrap();
                }
                emitted += 1;
            } else if k == 6 {
                out.push_str(" __typename");
                emitted += 1;
            } else if k == 7 && self.dup && depth > 0 {
                if let Some((f, b)) = last_field.clone() {
                    let sub = self.sels(&b, depth - 1);
                    write!(out, " {f} {sub}").unwrap();
                    emitted += 1;
                }
            } else if k < 10 && depth > 0 {
                let conds = if self.any_cond && !self.ts.is_root(ty) { self.ts.all_conds() } else { self.ts.conds_for(ty) };
                if conds.is_empty() {
                    continue;
                }
                let c = self.r.pick(&conds).clone();
                let d = self.dirs();
                if self.r.chance(1, 5) {
                    let sub = self.sels(ty, depth - 1);
                    write!(out, " ...{d} {sub}").unwrap();
                } else {
                    let sub = self.sels(&c, depth - 1);
                    write!(out, " ... on {c}{d} {sub}").unwrap();
                }
                emitted += 1;
            } else if depth > 0 {
                let conds = if self.any_cond && !self.ts.is_root(ty) { self.ts.all_conds() } else { self.ts.conds_for(ty) };
                if conds.is_empty() {
                    continue;
                }
                let c = self.r.pick(&conds).to_string();
                let reuse: Vec<String> = self.frags.iter().filter(|f| f.1 == c && !f.2.is_empty()).map(|f| f.0.clone()).collect();
                let d = self.dirs();
                if !reuse.is_empty() && self.r.chance(1, 2) {
                    write!(out, " ...{}{d}", self.r.pick(&reuse)).unwrap();
                } else {
                    let name = format!("F{}", self.frags.len());
                    self.frags.push((name.clone(), c.clone(), String::new()));
                    let idx = self.frags.len() - 1;
                    let body = self.sels(&c, depth - 1);
                    self.frags[idx].2 = body;
                    write!(out, " ...{name}{d}").unwrap();
                }
                emitted += 1;
            }
        }
        if emitted == 0 {
            out.push_str(" __typename");
        }
        out.push_str(" }");
        out
    }
    fn document(&mut self) -> (String, serde_json::Value, Option<String>) {
        let mutation = self.ts.mutation && self.r.chance(1, 6);
        let root = if mutation { "Mutation" } else { "Query" };
        let depth = 1 + self.r.below(4);
        let body = self.sels(root, depth);
        let mut vars = serde_json::Map::new();
        let mut vd = vec![];
        for (name, has_default, d) in &self.uses {
            let supplied = !has_default || self.r.chance(1, 2);
            if supplied {
                vars.insert(name.clone(), serde_json::json!(self.r.chance(1, 2)));
            }
            match d {
                Some(b) => vd.push(format!("${name}: Boolean = {b}")),
                None => vd.push(format!("${name}: Boolean!")),
            }
        }
        let kw = if mutation { "mutation" } else { "query" };
        let mut s = String::new();
        let named = !vd.is_empty() || mutation || self.r.chance(1, 2);
        let mut opname = None;
        if named {
            let two = self.r.chance(1, 8);
            writeln!(s, "{kw} Op0{} {body}", if vd.is_empty() { String::new() } else { format!("({})", vd.join(", ")) }).unwrap();
            if two {
                writeln!(s, "query Op1 {{ __typename }}").unwrap();
                opname = Some("Op0".to_string());
            }
        } else {
            writeln!(s, "{body}").unwrap();
        }
        for (n, c, b) in &self.frags {
            writeln!(s, "fragment {n} on {c} {b}").unwrap();
        }
        (s, serde_json::Value::Object(vars), opname)
    }
}

fn jstr(s: &str) -> String {
    serde_json::to_string(s).unwrap()
}

fn g_vars(it: &mut Interner, v: &serde_json::Value) -> String {
    match v {
        serde_json::Value::Object(m) => g_list(m.iter(), |(k, x)| {
            let gv = match x {
                serde_json::Value::Bool(b) => format!("(VBool {})", g_bool(*b)),
                serde_json::Value::Number(n) if n.is_i64() => format!("(VInt {})", g_z(n.as_i64().unwrap() as i128)),
                _ => "VNull".to_string(),
            };
            format!("({}, {})", it.n(k), gv)
        }),
        _ => "[]".into(),
    }
}

fn g_path(it: &mut Interner, p: &[PathSegment]) -> String {
    g_list(p.iter(), |s| match s {
        PathSegment::Field(f) => format!("PF {}", it.n(f)),
        PathSegment::Index(i) => format!("PI {}%N", i),
    })
}

struct Sys {
    name: String,
    ts: Arc<TypeSys>,
    strict: Schema,
    fast: Schema,
}

fn main() {
    let a = parse_args();
    let mut rng = Rng::new(a.seed);
    let mut out = String::new();
    let mut it = Interner::new();
    it.id("id");
    for (f, _) in FIELDS {
        it.id(f);
    }
    for k in ["X", "Y", "A", "B", "C", "Query", "Mutation", "Node", "Named", "Pair"] {
        it.id(k);
    }

    // type systems: the family first, then generated ones
    let mut systems: Vec<Sys> = vec![];
    let nsys = 2 + (a.n / 60).clamp(2, 40);
    let mut srng = rng.fork();
    let mut attempts = 0;
    while systems.len() < nsys && attempts < nsys * 4 {
        attempts += 1;
        let ts = match systems.len() {
            0 => family_sys(),
            1 => inherit_sys(),
            _ => gen_sys(&mut srng),
        };
        let (strict, fast) = match (build_schema(&ts, false), build_schema(&ts, true)) {
            (Ok(s), Ok(f)) => (s, f),
            (Err(e), _) | (_, Err(e)) => {
                writeln!(out, "BUILDERR\t\t{}", jstr(&format!("{e}: {ts:?}"))).unwrap();
                continue;
            }
        };
        let name = match systems.len() {
            0 => "fam".to_string(),
            1 => "inh".to_string(),
            k => format!("sys{k}"),
        };
        let g = dump_registry(&mut it, strict.registry());
        writeln!(out, "DEF\t{name}\t{g}").unwrap();
        systems.push(Sys { name, ts: Arc::new(ts), strict, fast });
    }

    // fixed corpus on the family: witnesses of the recorded deviations and boundary cases
    // (document, world patches, nullv)
    let mut corpus: Vec<(usize, bool, &str, Vec<(usize, &str, Out)>, bool)> = vec![];
    corpus.push((0, false, "{ a { id name } }", vec![(0, "a", Out::Ref(2)), (2, "name", Out::Err)], false));
    corpus.push((0, false, "{ id name a { id } }", vec![(0, "a", Out::Ref(2)), (0, "name", Out::Err)], false));
    corpus.push((0, false, "{ a { ... on Pair { t: __typename } } ab { ... on Pair { t: __typename } ... on A { name } } node { ... on Pair { t: __typename } ... on Named { name } } }", vec![(0, "a", Out::Ref(2)), (0, "ab", Out::Ref(2)), (0, "node", Out::Ref(2))], false));
    corpus.push((0, false, "query($s: Boolean = true) { a @skip(if: $s) { id } b @include(if: $s) { id } }", vec![(0, "a", Out::Ref(2)), (0, "b", Out::Ref(3))], false));
    corpus.push((0, false, "{ b { id score } }", vec![(0, "b", Out::Ref(3)), (3, "id", Out::Null)], true));
    corpus.push((0, false, "{ b { id score } }", vec![(0, "b", Out::Ref(3)), (3, "id", Out::Null)], false));
    corpus.push((0, false, "{ id name flag }", vec![(0, "id", Out::Str("x".into())), (0, "name", Out::Int(7)), (0, "flag", Out::Float(2.5))], false));
    corpus.push((0, false, "{ cs { __typename } }", vec![(0, "cs", Out::List(vec![Out::Ref(4), Out::Null]))], false));
    corpus.push((0, false, "{ cs { id } }", vec![(0, "cs", Out::List(vec![Out::Ref(4), Out::Null]))], false));
    corpus.push((0, false, "{ a { __typename } }", vec![(0, "a", Out::Null)], true));
    corpus.push((0, false, "{ a { id } }", vec![(0, "a", Out::Null)], true));
    corpus.push((0, false, "{ cs { id } ab { __typename } }", vec![(0, "cs", Out::Null), (0, "ab", Out::Null)], true));
    corpus.push((0, false, "{ ab { __typename } }", vec![(0, "ab", Out::Null)], true));
    corpus.push((0, false, "{ abs { __typename } }", vec![(0, "abs", Out::List(vec![Out::Ref(2), Out::Null]))], false));
    corpus.push((0, false, "{ ab { __typename } nodes { id } }", vec![(0, "ab", Out::Ref(4))], false));
    corpus.push((0, false, "{ kind k0: kind }", vec![(0, "kind", Out::Enum("ZZ".into()))], false));
    corpus.push((0, false, "{ a { id } a { b { score } } }", vec![(0, "a", Out::Ref(2)), (2, "b", Out::Ref(3)), (3, "score", Out::Err)], false));
    corpus.push((0, false, "mutation { a { id } a { id } k0: id }", vec![(1, "a", Out::Ref(2))], false));
    corpus.push((0, false, "{ a { id } a { name } grid bs { id } }", vec![(0, "a", Out::Ref(2)), (0, "grid", Out::List(vec![Out::List(vec![Out::Int(1), Out::Int(2)]), Out::List(vec![])])), (0, "bs", Out::List(vec![Out::Ref(3), Out::Ref(3)]))], false));

    // interface hierarchy (system 1: P <- Ch <- G; nodes 2 Plain{P}, 3 Mid{Ch,P}, 4 Deep{G,Ch,P}, 5 Loose{})
    let ps = || Out::List(vec![Out::Ref(2), Out::Ref(3), Out::Ref(4)]);
    corpus.push((1, false, "{ ps { ... on Ch { kind: __typename id } } }", vec![(0, "ps", ps())], false));
    corpus.push((1, false, "fragment N on Ch { name id } { ps { __typename ... on P { ...N } } }", vec![(0, "ps", ps())], false));
    corpus.push((1, false, "{ ps { ... on G { t: __typename flag } ... on Ch { name } ... on P { id } } us { ... on P { id } ... on Ch { name } ... on G { flag } ... on Loose { t: __typename } } }", vec![(0, "ps", ps()), (0, "us", Out::List(vec![Out::Ref(2), Out::Ref(3), Out::Ref(4), Out::Ref(5)]))], false));
    corpus.push((1, false, "{ p { ... on Ch { t: __typename } ... on G { id } } chs { ... on G { t: __typename } ... on P { id } } }", vec![(0, "p", Out::Ref(2)), (0, "chs", Out::List(vec![Out::Ref(3), Out::Ref(4)]))], false));
    corpus.push((1, false, "{ p { ... on Ch { t: __typename } } u { ... on G { t: __typename } ... on U { k: __typename } } }", vec![(0, "p", Out::Ref(2)), (0, "u", Out::Ref(3))], false));
    corpus.push((1, true, "{ plain { ... on Ch { t: __typename } ... on Mid { id } ... on G { name } } mids { ... on G { t: __typename } ... on Plain { id } ... on Loose { id } } }", vec![(0, "plain", Out::Ref(2)), (0, "mids", Out::List(vec![Out::Ref(3)]))], false));
    let mut case_no = 0;
    let mut corpus_iter = corpus.into_iter();
    while case_no < a.n {
        let (si, text, vars, opname, world, fast_mode) = if let Some((si, fast, doc, patches, nullv)) = corpus_iter.next() {
            let ts = systems[si].ts.clone();
            let tys: &[&str] = if si == 0 { &["Query", "Mutation", "A", "B", "C"] } else { &["Query", "Mutation", "Plain", "Mid", "Deep", "Loose"] };
            let mut nodes: Vec<(String, HashMap<String, Out>)> = tys.iter().map(|t| (t.to_string(), HashMap::new())).collect();
            for (n, f, o) in patches {
                nodes[n].1.insert(f.to_string(), o);
            }
            let w = DWorld { sys: ts, nodes, trace: Mutex::new(vec![]), nullv, enum_str: false, vlist: false };
            (si, doc.to_string(), serde_json::json!({}), None, w, fast)
        } else {
            let si = match rng.below(6) {
                0 | 1 => 0,
                2 => 1,
                _ => rng.below(systems.len()),
            };
            let ts = systems[si].ts.clone();
            let fault_pm = [0u64, 0, 0, 30][rng.below(4)];
            let mutate_pm = [0u64, 0, 0, 30, 100][rng.below(5)];
            let world = gen_world(&mut rng.fork(), &ts, fault_pm, mutate_pm);
            let fast_mode = rng.chance(1, 4);
            // without validation every composite type may appear as a type condition
            let mut dg = DocGen { ts: &ts, r: rng.fork(), frags: vec![], uses: vec![], dup: rng.chance(1, 2), any_cond: fast_mode && rng.chance(2, 3) };
            let (text, vars, opname) = dg.document();
            (si, text, vars, opname, world, fast_mode)
        };
        let Ok(parsed) = async_graphql::parser::parse_query(&text) else { continue };
        let sys = &systems[si];
        let w = Arc::new(world);
        let mut req = Request::new(text.clone()).variables(Variables::from_json(vars.clone())).data(w.clone());
        if let Some(n) = &opname {
            req = req.operation_name(n.clone());
        }
        let resp = block_on(if fast_mode { sys.fast.execute(req) } else { sys.strict.execute(req) });
        let trace: Vec<(usize, String)> = w.trace.lock().unwrap().clone();
        // rejected before execution: no data, no resolver ran, an error without path that no resolver raised
        let rejected = resp.data == Value::Null && trace.is_empty() && resp.errors.iter().any(|e| e.path.is_empty() && e.message != "boom" && e.message != "shape");
        if rejected {
            writeln!(out, "REJ\t\t{}", jstr(&format!("[{}] {} -> {}", sys.name, text.trim(), resp.errors[0].message))).unwrap();
            continue;
        }
        let gdoc = g_document(&mut it, &parsed);
        let gresp = format!(
            "{{| rs_data := {}; rs_errors := {}; rs_trace := {} |}}",
            g_const(&mut it, &resp.data),
            g_list(resp.errors.iter(), |e| g_path(&mut it, &e.path)),
            g_list(trace.iter(), |(n, f)| format!("({}%N, {})", n, it.n(f)))
        );
        let nontrivial = resp.data != Value::Null || !resp.errors.is_empty();
        let wsum: String = {
            // the part of the world that is not the default, compactly (for distinctness and replays)
            let mut s = String::new();
            for (i, n) in w.nodes.iter().enumerate() {
                let mut fs: Vec<(&String, &Out)> = n.1.iter().collect();
                fs.sort_by(|a, b| a.0.cmp(b.0));
                write!(s, "{}:{}{{", i, n.0).unwrap();
                for (k, o) in fs {
                    write!(s, "{k}={o:?},").unwrap();
                }
                s.push('}');
            }
            s
        };
        let meta = format!(
            "{{\"uses\":[{}],\"text\":{},\"impl\":{},\"world\":{},\"nontrivial\":{}}}",
            jstr(&sys.name),
            jstr(&format!(
                "[{} {}vars={} nullv={} faults={} w#{:x}] {}",
                sys.name,
                if fast_mode { "fast " } else { "" },
                vars,
                w.nullv,
                w.nodes.iter().map(|n| n.1.values().filter(|o| **o == Out::Err).count()).sum::<usize>(),
                fxhash(&wsum),
                text.trim()
            )),
            jstr(&format!("{} errors={:?}", serde_json::to_string(&resp.data).unwrap().chars().take(200).collect::<String>(), resp.errors.iter().map(|e| format!("{:?} {}", e.path, e.message)).collect::<Vec<_>>())),
            jstr(&wsum.chars().take(1500).collect::<String>()),
            nontrivial
        );
        writeln!(
            out,
            "CASE\t({}, {}, {gdoc}, {}, {}, {}, {gresp})\t{meta}",
            sys.name,
            g_world(&mut it, &w),
            g_opt(opname.as_ref(), |n| it.n(n)),
            g_vars(&mut it, &vars),
            g_bool(w.nullv)
        )
        .unwrap();
        case_no += 1;
    }
    writeln!(out, "NAMES\t\t{}", serde_json::to_string(&it.names).unwrap()).unwrap();
    std::fs::write(format!("{}/c02.cases", a.out), out).unwrap();
}

fn fxhash(s: &str) -> u64 {
    let mut h: u64 = 0xcbf29ce484222325;
    for b in s.bytes() {
        h ^= b as u64;
        h = h.wrapping_mul(0x100000001b3);
    }
    h
}

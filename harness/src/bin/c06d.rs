//! C06, dynamic flavour: the signatures of c06.rs (plus a few multi-argument
//! fields with defaults) built with `async_graphql::dynamic`; every field
//! resolver records, for each declared argument, whether `ctx.args` holds it and
//! the raw value it holds.  Same documents / variables families as c06.rs.
#![allow(dead_code)]
use std::cell::RefCell;
use std::fmt::Write as _;

use agv_harness::*;
use async_graphql::dynamic::{Enum, Field, FieldFuture, InputObject, InputValue, Object, Schema, TypeRef};
use async_graphql::{Request, ValidationMode, Value, Variables};

#[path = "c06.rs"]
mod base;
use base::{Case, Fld, Sig, Ty, Xv};

thread_local! {
    static LOG: RefCell<Vec<(String, Vec<(String, Option<Value>)>)>> = const { RefCell::new(Vec::new()) };
}

fn type_ref(t: &Ty) -> TypeRef {
    fn inner(t: &Ty) -> TypeRef {
        match t {
            Ty::Opt(i) | Ty::Maybe(i) => inner(i),
            Ty::Vec(i) => TypeRef::List(Box::new(type_ref(i))),
            t => TypeRef::Named(t.gql_inner().into()),
        }
    }
    if t.nullable() { inner(t) } else { TypeRef::NonNull(Box::new(inner(t))) }
}

fn to_value(v: &Xv) -> Value {
    match v {
        Xv::Null | Xv::Var(_) => Value::Null,
        Xv::Int(z) => Value::from(*z),
        Xv::Str(s) => Value::String(s.clone()),
        Xv::Bool(b) => Value::Boolean(*b),
        Xv::Enum(n) => Value::Enum(async_graphql::Name::new(n)),
        Xv::List(l) => Value::List(l.iter().map(to_value).collect()),
        Xv::Obj(kv) => Value::Object(kv.iter().map(|(k, v)| (async_graphql::Name::new(k), to_value(v))).collect()),
    }
}

fn input_value(f: &Fld, member_of_oneof: bool) -> InputValue {
    let ty = if member_of_oneof { type_ref(&base::opt(f.ty.clone())) } else { type_ref(&f.ty) };
    let mut iv = InputValue::new(f.name, ty);
    if let Some((d, _)) = &f.default {
        iv = iv.default_value(to_value(d));
    }
    iv
}

fn dyn_sigs() -> Vec<(&'static str, Sig)> {
    let mut v = base::sigs();
    let d = |n: &'static str, t: Ty, x: Xv, y: base::Tv| base::fldd(n, t, x, y);
    v.push(("add", vec![d("a", base::opt(Ty::Int), Xv::Int(7), base::Tv::Int(7)), d("b", base::opt(Ty::Int), Xv::Int(9), base::Tv::Int(9))]));
    v.push((
        "add3",
        vec![
            d("a", Ty::Int, Xv::Int(1), base::Tv::Int(1)),
            d("b", base::opt(base::vec_(base::opt(Ty::Int))), Xv::List(vec![Xv::Int(1)]), base::Tv::List(vec![base::Tv::Int(1)])),
            d("c", base::opt(base::color()), Xv::Enum("RED".into()), base::Tv::Enum("RED".into())),
            base::fld("e", base::opt(Ty::Str)),
        ],
    ));
    v.push(("two", vec![base::fld("a", base::opt(Ty::Int)), d("b", base::opt(Ty::Str), Xv::Str("dflt".into()), base::Tv::Str("dflt".into()))]));
    v
}

fn build(all: &[(&'static str, Sig)], mode: ValidationMode) -> Schema {
    let mut query = Object::new("Query");
    for (name, sig) in all {
        let fname = name.to_string();
        let argnames: Vec<String> = sig.iter().map(|f| f.name.to_string()).collect();
        let mut field = Field::new(*name, TypeRef::named_nn(TypeRef::BOOLEAN), move |ctx| {
            let rec: Vec<(String, Option<Value>)> = argnames.iter().map(|a| (a.clone(), ctx.args.get(a).map(|v| v.as_value().clone()))).collect();
            LOG.with(|l| l.borrow_mut().push((fname.clone(), rec)));
            FieldFuture::from_value(Some(Value::from(true)))
        });
        for f in sig {
            field = field.argument(input_value(f, false));
        }
        query = query.field(field);
    }
    let mut b = Schema::build("Query", None, None).register(query).validation_mode(mode);
    if let Ty::Enum(n, vals) = base::color() {
        let mut e = Enum::new(n);
        for v in vals {
            e = e.item(v);
        }
        b = b.register(e);
    }
    for t in [base::nested(), base::inp(), base::inp2(), base::one()] {
        match t {
            Ty::Obj(n, fs) => {
                let mut o = InputObject::new(n);
                for f in &fs {
                    o = o.field(input_value(f, false));
                }
                b = b.register(o);
            }
            Ty::One(n, fs) => {
                let mut o = InputObject::new(n).oneof();
                for f in &fs {
                    o = o.field(input_value(f, true));
                }
                b = b.register(o);
            }
            _ => unreachable!(),
        }
    }
    b.finish().expect("dynamic schema builds")
}

/// the dynamic registry must publish the same signatures as the descriptors
fn check_sdl(all: &[(&'static str, Sig)], sdl: &str) -> Result<(), String> {
    for (name, sig) in all {
        let args = sig
            .iter()
            .map(|f| {
                let d = f.default.as_ref().map(|(c, _)| format!(" = {}", base::lit_text(c))).unwrap_or_default();
                format!("{}: {}{}", f.name, f.ty.gql(), d)
            })
            .collect::<Vec<_>>()
            .join(", ");
        let want = format!("\t{name}({args}): Boolean!");
        if !sdl.contains(&want) {
            return Err(format!("dynamic signature not registered as described: {want}"));
        }
    }
    Ok(())
}

fn extra_corpus() -> Vec<Case> {
    let mut v = vec![];
    let mut both = |field: &str, doc: &str, vars: &str| {
        for strict in [true, false] {
            v.push(Case { field: field.into(), doc: doc.into(), vars: serde_json::from_str(vars).unwrap(), strict });
        }
    };
    // defaults: every way of writing / not writing the arguments
    both("add", "{ add }", "{}");
    both("add", "{ add(b: 1) }", "{}");
    both("add", "{ add(a: 1, b: 2) }", "{}");
    both("add", "{ add(a: null) }", "{}");
    both("add", "query($x: Int) { add(a: $x) }", "{}");
    both("add", "query($x: Int) { add(a: $x, b: 1) }", "{}");
    both("add", "query($x: Int, $y: Int) { add(a: $x, b: $y) }", "{}");
    both("add", "query($x: Int, $y: Int) { add(a: $x, b: $y) }", "{\"y\": 3}");
    both("add", "query($x: Int, $y: Int) { add(a: $x, b: $y) }", "{\"x\": null}");
    both("add", "query($x: Int = 4, $y: Int) { add(a: $x, b: $y) }", "{}");
    both("add", "query($x: Int = null) { add(a: $x, b: 1) }", "{}");
    both("two", "query($x: Int, $s: String) { two(a: $x, b: $s) }", "{}");
    both("two", "query($x: Int, $s: String) { two(a: $x, b: $s) }", "{\"x\": 1}");
    both("two", "query($s: String) { two(b: $s) }", "{}");
    both("add3", "query($a: Int, $b: [Int], $c: Color, $e: String) { add3(a: $a, b: $b, c: $c, e: $e) }", "{}");
    both("add3", "query($a: Int, $b: [Int], $c: Color, $e: String) { add3(a: $a, b: $b, c: $c, e: $e) }", "{\"b\": [2], \"c\": \"BLUE\"}");
    both("add3", "query($a: Int) { add3(a: $a, b: [1, 2], c: GREEN, e: \"x\") }", "{}");
    both("add3", "query($a: Int) { add3(a: $a) }", "{}");
    both("add3", "{ add3(b: null, c: null) }", "{}");
    // raw values: no wrapping into lists, no field defaults, no type check behind a skipped validation
    both("li", "{ li(a: 1) }", "{}");
    both("obj", "{ obj(a: {x: 1}) }", "{}");
    both("i", "{ i(a: 2147483648) }", "{}");
    both("obj", "query($u: Int) { obj(a: {x: \"s\", y: $u}) }", "{}");
    both("i", "{ i(a: \"x\") }", "{}");
    v
}

enum Obs {
    Args(Vec<(String, Option<Value>)>),
    Rejected(String),
    FieldErr(String),
    Odd(String),
}

fn run(schema: &Schema, c: &Case) -> Obs {
    LOG.with(|l| l.borrow_mut().clear());
    let req = Request::new(c.doc.clone()).variables(Variables::from_json(c.vars.clone()));
    let resp = block_on(schema.execute(req));
    let calls: Vec<_> = LOG.with(|l| l.borrow_mut().drain(..).collect());
    if resp.errors.is_empty() {
        if calls.len() == 1 && calls[0].0 == c.field {
            return Obs::Args(calls[0].1.clone());
        }
        return Obs::Odd(format!("no error but {} resolver calls", calls.len()));
    }
    if !calls.is_empty() {
        return Obs::Odd(format!("error reported AND the resolver ran: {}", resp.errors[0].message));
    }
    let e = &resp.errors[0];
    if e.path.is_empty() { Obs::Rejected(e.message.clone()) } else { Obs::FieldErr(e.message.clone()) }
}

fn main() {
    let a = parse_args();
    let mut rng = Rng::new(a.seed ^ 0x0d1e);
    let all = dyn_sigs();
    let strict = build(&all, ValidationMode::Strict);
    let fast = build(&all, ValidationMode::Fast);
    if let Err(e) = check_sdl(&all, &strict.sdl()) {
        eprintln!("c06d: {e}");
        std::process::exit(3);
    }
    let mut it = Interner::new();
    let mut out = String::new();
    for (name, sig) in &all {
        let dsig: Vec<Fld> = sig.iter().map(|f| Fld { name: f.name, ty: base::to_dynamic(&f.ty), default: f.default.clone() }).collect();
        writeln!(out, "DEF\tdsig_{name}\t{}", base::g_flds(&mut it, &dsig)).unwrap();
    }
    let mut cases = extra_corpus();
    cases.extend(base::corpus());
    while cases.len() < a.n.max(1) {
        // multi-argument fields with defaults more often than in the static family
        let pick: Vec<(&'static str, Sig)> = if rng.chance(1, 3) {
            all.iter().filter(|s| s.1.len() > 1 || s.1.iter().any(|f| f.default.is_some())).cloned().collect()
        } else {
            all.clone()
        };
        cases.push(base::gen_case(&mut rng, &pick));
    }
    let mut skipped = 0usize;
    for c in &cases {
        let obs = match if c.strict { run(&strict, c) } else { run(&fast, c) } {
            Obs::Odd(m) => {
                eprintln!("c06d: odd observation on {}: {m}", c.doc);
                std::process::exit(4);
            }
            o => o,
        };
        let Some(inp) = base::case_inputs_with(&mut it, c, true) else {
            skipped += 1;
            continue;
        };
        let (gimpl, impl_text, nontrivial) = match &obs {
            Obs::Args(kv) => {
                let mut ok = true;
                let g = g_list(kv.iter(), |(k, v)| {
                    let gv = match v {
                        None => "None".to_string(),
                        Some(v) => match base::g_xv_const(&mut it, v, false) {
                            Some(g) => format!("(Some {g})"),
                            None => {
                                ok = false;
                                "None".to_string()
                            }
                        },
                    };
                    format!("({}, {})", it.n(k), gv)
                });
                if !ok {
                    skipped += 1;
                    continue;
                }
                let shown = kv.iter().map(|(k, v)| format!("{k}={}", v.as_ref().map(|v| v.to_string()).unwrap_or("<absent>".into()))).collect::<Vec<_>>().join(" ");
                (format!("(Ok {g})"), format!("args {shown}"), true)
            }
            Obs::Rejected(m) => ("(Err 1)".to_string(), format!("rejected: {m}"), false),
            Obs::FieldErr(m) => ("(Err 2)".to_string(), format!("field error: {m}"), inp.has_vars),
            Obs::Odd(_) => unreachable!(),
        };
        let sig = &all.iter().find(|s| s.0 == c.field).unwrap().1;
        let sig_text = sig
            .iter()
            .map(|f| format!("{}: {}{}", f.name, f.ty.gql(), f.default.as_ref().map(|(d, _)| format!(" = {}", base::lit_text(d))).unwrap_or_default()))
            .collect::<Vec<_>>()
            .join(", ");
        let text = format!("[dynamic {}] {} vars={} sig={}({})", if c.strict { "strict" } else { "fast" }, c.doc, c.vars, c.field, sig_text);
        writeln!(
            out,
            "CASE\t(dsig_{}, [{}], [{}], [{}], {}, {})\t{{\"uses\":[{}],\"text\":{},\"impl\":{},\"nontrivial\":{}}}",
            c.field,
            inp.gargs,
            inp.gdefs,
            inp.gvars,
            g_bool(c.strict),
            gimpl,
            base::jstr(&format!("dsig_{}", c.field)),
            base::jstr(&text),
            base::jstr(&impl_text),
            nontrivial
        )
        .unwrap();
    }
    writeln!(out, "SKIPPED\t\t{{\"n\":{skipped}}}").unwrap();
    writeln!(out, "NAMES\t\t{}", serde_json::to_string(&it.names).unwrap()).unwrap();
    std::fs::write(format!("{}/c06d.cases", a.out), out).unwrap();
}

//! C13 correspondence: documents (grammar-generated with random ignored
//! tokens, comments, BOMs, escapes; near-miss glueings; byte-level mutations;
//! a fixed corpus with the witnesses of the known findings and the nesting
//! boundary) are parsed with the real `parse_query` / `parse_schema`; each case
//! carries the text and the tree (or the error kind, or "panicked") the
//! library returned, printed as a term of coq/theories/ParserModel.v.
//!
//! streams:  DOC  (kind, part, impl outcome)   kind 0 whole document,
//!                1 `{f(a:"` part `")}`   2 `{f(a:"""` part `""")}`
//!                3 `query($v:` part `){a}`   4 `{f(a:` part `)}`
//!                5 `query($v:S="""` part `"""){a}`   6 `query($v:Int ` part `){a}`
//!           TNEW (text, Type::new(text))
//!           SDL  (text, Ok [the ServiceDocument's definitions as ParserModel.sdef] | Err kind)
use std::fmt::Write as _;

use agv_harness::*;
use async_graphql_parser::types::*;
use async_graphql_parser::{Error, Positioned, parse_query, parse_schema};
use async_graphql_value::Value;

fn jstr(s: &str) -> String {
    serde_json::to_string(s).unwrap()
}

// --------------------------------------------------------- Gallina terms ---
fn p_value(v: &Value) -> String {
    match v {
        Value::Variable(n) => format!("(PVVar {})", g_str(n)),
        Value::Null => "PVNull".into(),
        Value::Number(n) => {
            if let Some(i) = n.as_i64() {
                format!("(PVInt {})", g_z(i as i128))
            } else if let Some(u) = n.as_u64() {
                format!("(PVInt {})", g_z(u as i128))
            } else {
                "(PVFloat [])".into()
            }
        }
        Value::String(s) => format!("(PVStr {})", g_str(s)),
        Value::Boolean(b) => format!("(PVBool {})", g_bool(*b)),
        Value::Binary(_) => "PVNull".into(),
        Value::Enum(n) => format!("(PVEnum {})", g_str(n)),
        Value::List(l) => format!("(PVList {})", g_list(l.iter(), p_value)),
        Value::Object(m) => format!("(PVObj {})", g_list(m.iter(), |(k, x)| format!("({}, {})", g_str(k), p_value(x)))),
    }
}

fn p_type(t: &Type) -> String {
    match &t.base {
        BaseType::Named(n) => format!("(TNamed {} {})", g_str(n), g_bool(t.nullable)),
        BaseType::List(i) => format!("(TList {} {})", p_type(i), g_bool(t.nullable)),
    }
}

fn p_args(a: &[(Positioned<async_graphql_value::Name>, Positioned<Value>)]) -> String {
    g_list(a.iter(), |(k, v)| format!("({}, {})", g_str(&k.node), p_value(&v.node)))
}

fn p_dirs(ds: &[Positioned<Directive>]) -> String {
    g_list(ds.iter(), |d| format!("{{| pd_name := {}; pd_args := {} |}}", g_str(&d.node.name.node), p_args(&d.node.arguments)))
}

fn p_sels(ss: &SelectionSet) -> String {
    g_list(ss.items.iter(), |s| match &s.node {
        Selection::Field(f) => {
            let f = &f.node;
            format!(
                "(PField {} {} {} {} {})",
                g_opt(f.alias.as_ref(), |a| g_str(&a.node)),
                g_str(&f.name.node),
                p_args(&f.arguments),
                p_dirs(&f.directives),
                p_sels(&f.selection_set.node)
            )
        }
        Selection::FragmentSpread(sp) => format!("(PSpread {} {})", g_str(&sp.node.fragment_name.node), p_dirs(&sp.node.directives)),
        Selection::InlineFragment(fr) => format!(
            "(PInline {} {} {})",
            g_opt(fr.node.type_condition.as_ref(), |c| g_str(&c.node.on.node)),
            p_dirs(&fr.node.directives),
            p_sels(&fr.node.selection_set.node)
        ),
    })
}

fn p_op(name: Option<&str>, op: &OperationDefinition) -> String {
    let ty = match op.ty {
        OperationType::Query => "POQuery",
        OperationType::Mutation => "POMutation",
        OperationType::Subscription => "POSubscription",
    };
    format!(
        "(DOp {{| po_name := {}; po_ty := {}; po_vars := {}; po_dirs := {}; po_sels := {} |}})",
        g_opt(name, g_str),
        ty,
        g_list(op.variable_definitions.iter(), |vd| format!(
            "{{| pv_name := {}; pv_ty := {}; pv_dirs := {}; pv_default := {} |}}",
            g_str(&vd.node.name.node),
            p_type(&vd.node.var_type.node),
            p_dirs(&vd.node.directives),
            g_opt(vd.node.default_value.as_ref(), |d| p_value(&d.node.clone().into_value()))
        )),
        p_dirs(&op.directives),
        p_sels(&op.selection_set.node)
    )
}

/// definitions in source order (the maps of the real document are hash maps;
/// every definition carries its position)
fn p_doc(doc: &ExecutableDocument) -> String {
    let mut items: Vec<((usize, usize), String)> = vec![];
    match &doc.operations {
        DocumentOperations::Single(op) => items.push(((op.pos.line, op.pos.column), p_op(None, &op.node))),
        DocumentOperations::Multiple(m) => {
            for (k, op) in m {
                items.push(((op.pos.line, op.pos.column), p_op(Some(k.as_str()), &op.node)));
            }
        }
    }
    for (k, fr) in &doc.fragments {
        items.push((
            (fr.pos.line, fr.pos.column),
            format!(
                "(DFrag {{| pf_name := {}; pf_cond := {}; pf_dirs := {}; pf_sels := {} |}})",
                g_str(k),
                g_str(&fr.node.type_condition.node.on.node),
                p_dirs(&fr.node.directives),
                p_sels(&fr.node.selection_set.node)
            ),
        ));
    }
    items.sort_by(|a, b| a.0.cmp(&b.0));
    g_list(items.iter(), |x| x.1.clone())
}

fn err_code(e: &Error) -> u32 {
    match e {
        Error::Syntax { .. } => 1,
        Error::MultipleOperations { .. } => 2,
        Error::OperationDuplicated { .. } => 3,
        Error::FragmentDuplicated { .. } => 4,
        Error::MissingOperation => 5,
        Error::RecursionLimitExceeded => 6,
        Error::MultipleRoots { .. } => 7,
        Error::MissingQueryRoot { .. } => 8,
        _ => 99,
    }
}

fn run_doc(text: &str) -> (String, String) {
    let t = text.to_string();
    match catch(move || parse_query(&t)) {
        None => ("Panic".into(), "panic".into()),
        Some(Ok(d)) => (format!("(Ok {})", p_doc(&d)), "ok".into()),
        Some(Err(e)) => (format!("(Err {}%N)", err_code(&e)), format!("err {}", err_code(&e))),
    }
}

fn p_cdirs(ds: &[Positioned<ConstDirective>]) -> String {
    g_list(ds.iter(), |d| {
        format!(
            "{{| pd_name := {}; pd_args := {} |}}",
            g_str(&d.node.name.node),
            g_list(d.node.arguments.iter(), |(k, v)| format!("({}, {})", g_str(&k.node), p_value(&v.node.clone().into_value())))
        )
    })
}

fn p_odesc(d: &Option<Positioned<String>>) -> String {
    g_opt(d.as_ref(), |d| g_str(&d.node))
}

fn p_input(v: &InputValueDefinition) -> String {
    format!(
        "{{| iv_desc := {}; iv_name := {}; iv_ty := {}; iv_default := {}; iv_dirs := {} |}}",
        p_odesc(&v.description),
        g_str(&v.name.node),
        p_type(&v.ty.node),
        g_opt(v.default_value.as_ref(), |d| p_value(&d.node.clone().into_value())),
        p_cdirs(&v.directives)
    )
}

fn p_fields(fs: &[Positioned<FieldDefinition>]) -> String {
    g_list(fs.iter(), |f| {
        let f = &f.node;
        format!(
            "{{| fd_desc := {}; fd_name := {}; fd_args := {}; fd_ty := {}; fd_dirs := {} |}}",
            p_odesc(&f.description),
            g_str(&f.name.node),
            g_list(f.arguments.iter(), |a| p_input(&a.node)),
            p_type(&f.ty.node),
            p_cdirs(&f.directives)
        )
    })
}

fn p_names(ns: &[Positioned<async_graphql_value::Name>]) -> String {
    g_list(ns.iter(), |n| g_str(&n.node))
}

fn loc_text(l: &DirectiveLocation) -> &'static str {
    use DirectiveLocation::*;
    match l {
        Query => "QUERY",
        Mutation => "MUTATION",
        Subscription => "SUBSCRIPTION",
        Field => "FIELD",
        FragmentDefinition => "FRAGMENT_DEFINITION",
        FragmentSpread => "FRAGMENT_SPREAD",
        InlineFragment => "INLINE_FRAGMENT",
        Schema => "SCHEMA",
        Scalar => "SCALAR",
        Object => "OBJECT",
        FieldDefinition => "FIELD_DEFINITION",
        ArgumentDefinition => "ARGUMENT_DEFINITION",
        Interface => "INTERFACE",
        Union => "UNION",
        Enum => "ENUM",
        EnumValue => "ENUM_VALUE",
        InputObject => "INPUT_OBJECT",
        InputFieldDefinition => "INPUT_FIELD_DEFINITION",
        VariableDefinition => "VARIABLE_DEFINITION",
    }
}

fn p_sdef(x: &TypeSystemDefinition) -> String {
    match x {
        TypeSystemDefinition::Schema(sd) => {
            let sd = &sd.node;
            format!(
                "(SSchema {} {} {} {} {})",
                g_bool(sd.extend),
                p_cdirs(&sd.directives),
                g_opt(sd.query.as_ref(), |n| g_str(&n.node)),
                g_opt(sd.mutation.as_ref(), |n| g_str(&n.node)),
                g_opt(sd.subscription.as_ref(), |n| g_str(&n.node))
            )
        }
        TypeSystemDefinition::Type(t) => {
            let t = &t.node;
            let kind = match &t.kind {
                TypeKind::Scalar => "KScalar".to_string(),
                TypeKind::Object(o) => format!("(KObject {} {})", p_names(&o.implements), p_fields(&o.fields)),
                TypeKind::Interface(o) => format!("(KInterface {} {})", p_names(&o.implements), p_fields(&o.fields)),
                TypeKind::Union(u) => format!("(KUnion {})", p_names(&u.members)),
                TypeKind::Enum(e) => format!(
                    "(KEnum {})",
                    g_list(e.values.iter(), |v| format!(
                        "{{| ev_desc := {}; ev_name := {}; ev_dirs := {} |}}",
                        p_odesc(&v.node.description),
                        g_str(&v.node.value.node),
                        p_cdirs(&v.node.directives)
                    ))
                ),
                TypeKind::InputObject(io) => format!("(KInput {})", g_list(io.fields.iter(), |a| p_input(&a.node))),
            };
            format!("(SType {} {} {} {} {})", g_bool(t.extend), p_odesc(&t.description), g_str(&t.name.node), p_cdirs(&t.directives), kind)
        }
        TypeSystemDefinition::Directive(d) => {
            let d = &d.node;
            format!(
                "(SDirective {} {} {} {} {})",
                p_odesc(&d.description),
                g_str(&d.name.node),
                g_list(d.arguments.iter(), |a| p_input(&a.node)),
                g_bool(d.is_repeatable),
                g_list(d.locations.iter(), |l| g_str(loc_text(&l.node)))
            )
        }
    }
}

fn run_sdl(text: &str) -> (String, String) {
    let t = text.to_string();
    match catch(move || parse_schema(&t)) {
        None => ("Panic".into(), "panic".into()),
        Some(Ok(d)) => (format!("(Ok {})", g_list(d.definitions.iter(), p_sdef)), "ok".into()),
        Some(Err(e)) => (format!("(Err {}%N)", err_code(&e)), format!("err {}", err_code(&e))),
    }
}

// ------------------------------------------------------------ generators ---
const NAMES: &[&str] = &[
    "a", "b", "f", "x1", "_id", "user", "Query", "T", "on", "query", "fragment", "truex", "nullable", "falsey", "mutation",
    "type", "onX", "Int", "String", "__typename", "A_b9", "subscription", "schema", "extend", "input", "e", "E", "n0",
];

struct Out {
    s: String,
    glue: u64, // chance (per 1000) of dropping a needed separator (near miss)
}

fn ignored(r: &mut Rng) -> String {
    let mut o = String::new();
    let n = match r.below(10) {
        0..=4 => 0,
        5..=7 => 1,
        8 => 2,
        _ => 3,
    };
    for _ in 0..n {
        match r.below(12) {
            0..=4 => o.push(' '),
            5 => o.push(','),
            6 => o.push('\t'),
            7 => o.push('\n'),
            8 => o.push_str("\r\n"),
            9 => o.push('\r'),
            10 => o.push('\u{feff}'),
            _ => {
                o.push_str(*r.pick(&["#c\n", "# a \"b\" {\r", "#\n", "#\u{e9}x\r\n"]));
            }
        }
    }
    o
}

fn wordc(c: char) -> bool {
    c.is_ascii_alphanumeric() || c == '_'
}

impl Out {
    fn tok(&mut self, r: &mut Rng, t: &str) {
        let mut sep = ignored(r);
        let last = self.s.chars().last();
        let first = t.chars().next();
        if sep.is_empty() {
            if let (Some(l), Some(f)) = (last, first) {
                let need = (wordc(l) && (wordc(f) || f == '.' || f == '-')) || (l == '.' && f == '.');
                if need && !r.chance(self.glue, 1000) {
                    sep.push(' ');
                }
            }
        }
        self.s.push_str(&sep);
        self.s.push_str(t);
    }
}

fn gen_name(r: &mut Rng) -> String {
    if r.chance(3, 4) {
        r.pick(NAMES).to_string()
    } else {
        let n = 1 + r.below(5);
        let mut s = String::new();
        for i in 0..n {
            let cs = if i == 0 { "abcXYZ_" } else { "abcXYZ_019" };
            s.push(cs.chars().nth(r.below(cs.len())).unwrap());
        }
        s
    }
}

fn gen_string_content(r: &mut Rng) -> String {
    let mut s = String::new();
    for _ in 0..r.below(7) {
        match r.below(14) {
            0..=4 => s.push(*r.pick(&['a', 'Z', ' ', '#', '{', ',', '\'', '/', '\t', '0'])),
            5 => s.push(*r.pick(&['\u{e9}', '\u{4e2d}', '\u{1f600}', '\u{feff}', '\u{7f}', '\u{1}'])),
            6 => s.push_str(*r.pick(&["\\n", "\\t", "\\r", "\\b", "\\f", "\\/", "\\\\", "\\\""])),
            7 => {
                let cp = *r.pick(&[0x41u32, 0xe9, 0x2a1a, 0xd7ff, 0xe000, 0xffff, 0x0, 0x22, 0x5c, 0xa]);
                if r.chance(1, 2) {
                    write!(s, "\\u{:04x}", cp).unwrap()
                } else {
                    write!(s, "\\u{:04X}", cp).unwrap()
                }
            }
            8 => s.push_str(*r.pick(&["\\ud800", "\\uDFFF", "\\udbff", "\\u12", "\\u12G4", "\\x", "\\", "\\u", "\\U0041", "\\a"])),
            9 => s.push_str(*r.pick(&["\n", "\r", "\\\n"])),
            _ => s.push(*r.pick(&['b', 'c', '1', ' ', '_'])),
        }
    }
    s
}

/// Unicode White_Space characters other than TAB / SPACE / LF / CR (str::trim strips them all)
const UNI_WS: &[char] = &[
    '\u{b}', '\u{c}', '\u{85}', '\u{a0}', '\u{1680}', '\u{2000}', '\u{2001}', '\u{2002}', '\u{2003}', '\u{2004}', '\u{2005}',
    '\u{2006}', '\u{2007}', '\u{2008}', '\u{2009}', '\u{200a}', '\u{2028}', '\u{2029}', '\u{202f}', '\u{205f}', '\u{3000}',
];

fn gen_block_content(r: &mut Rng) -> String {
    let mut s = String::new();
    for _ in 0..r.below(10) {
        match r.below(18) {
            0..=3 => s.push_str(*r.pick(&["a", "b c", "x", "\u{e9}", "#", "\\n", "\\"])),
            4..=6 => s.push_str(*r.pick(&["\n", "\r\n", "\r", "\n\n"])),
            7..=9 => s.push_str(*r.pick(&[" ", "  ", "   ", "\t", " \t", "    "])),
            10 => s.push_str(*r.pick(&["\"", "\"\"", "\\\"", "\\\"\"", " \"", "\\\\"])),
            11 => s.push_str(if r.chance(1, 3) { "\\\"\"\"" } else { "q" }),
            12 => {
                // Unicode White_Space that is NOT GraphQL WhiteSpace (only TAB and SPACE are)
                for _ in 0..1 + r.below(3) {
                    s.push(*r.pick(UNI_WS));
                    if r.chance(1, 3) {
                        s.push(*r.pick(&[' ', '\t']));
                    }
                }
            }
            13 => {
                s.push_str(*r.pick(&["\n", "\r\n", "\r"]));
                if r.chance(1, 2) {
                    s.push_str(*r.pick(&[" ", "\t", "  "]));
                }
                s.push(*r.pick(UNI_WS));
                if r.chance(1, 2) {
                    s.push_str(*r.pick(&["\n", "\r\n", "\r", "x"]));
                }
            }
            _ => s.push_str(*r.pick(&["line", "\n  t", "\n    u", "\n ", "\n  "])),
        }
    }
    s
}

fn gen_number(r: &mut Rng) -> String {
    match r.below(12) {
        0 => "0".into(),
        1 => "-0".into(),
        2 => format!("{}", r.range(-1000, 1000)),
        3 => (*r.pick(&["9223372036854775807", "-9223372036854775808", "9223372036854775808", "18446744073709551615", "18446744073709551616", "-9223372036854775809", "123456789012345678901234567890"])).into(),
        4 => format!("{}.{}", r.range(-50, 50), r.below(1000)),
        5 => format!("{}e{}", r.range(-9, 9), r.range(-30, 30)),
        6 => format!("{}.{}E+{}", r.below(10), r.below(100), r.below(40)),
        7 => (*r.pick(&["1e308", "1e309", "1.8e308", "1.7e308", "0e999", "0.0e-999", "1e-400", "12345678901234567890123.5e290", "0.00001e313", "1e99999999999999999999", "1e-99999999999999999999"])).into(),
        8 => (*r.pick(&["00", "01", "1.", ".5", "1e", "1.e3", "0x1F", "1_0", "+1", "--1", "1.5.2", "-", "1e+", "0.0.", "1a", "1.0a", "0e0e0", "-a"])).into(),
        _ => format!("{}", r.below(100)),
    }
}

fn gen_value(r: &mut Rng, o: &mut Out, depth: usize, konst: bool) {
    let k = if depth == 0 { r.below(7) } else { r.below(10) };
    match k {
        0 => {
            let n = gen_number(r);
            o.tok(r, &n)
        }
        1 => {
            let c = gen_string_content(r);
            o.tok(r, &format!("\"{}\"", c.replace('\n', " ").replace('\r', " ")))
        }
        2 => o.tok(r, *r.clone().pick(&["true", "false", "null"])),
        3 => {
            let n = gen_name(r);
            o.tok(r, &n)
        }
        4 => {
            if konst && r.chance(9, 10) {
                o.tok(r, "null")
            } else {
                o.tok(r, "$");
                let n = gen_name(r);
                o.tok(r, &n)
            }
        }
        5 => {
            let c = gen_block_content(r);
            o.tok(r, &format!("\"\"\"{}\"\"\"", c))
        }
        6 => o.tok(r, &format!("{}", r.clone().range(-5, 5))),
        7 | 8 => {
            o.tok(r, "[");
            for _ in 0..r.below(4) {
                gen_value(r, o, depth - 1, konst);
            }
            o.tok(r, "]")
        }
        _ => {
            o.tok(r, "{");
            for _ in 0..r.below(4) {
                let n = if r.chance(1, 5) { "k".to_string() } else { gen_name(r) };
                o.tok(r, &n);
                o.tok(r, ":");
                gen_value(r, o, depth - 1, konst);
            }
            o.tok(r, "}")
        }
    }
}

fn gen_type_text(r: &mut Rng, depth: usize) -> String {
    let base = if depth > 0 && r.chance(2, 5) { format!("[{}]", gen_type_text(r, depth - 1)) } else { gen_name(r) };
    if r.chance(1, 3) { format!("{}!", base) } else { base }
}

fn gen_args(r: &mut Rng, o: &mut Out, konst: bool) {
    o.tok(r, "(");
    for _ in 0..1 + r.below(3) {
        let n = gen_name(r);
        o.tok(r, &n);
        o.tok(r, ":");
        gen_value(r, o, 2, konst);
    }
    o.tok(r, ")");
}

fn gen_dirs(r: &mut Rng, o: &mut Out, konst: bool) {
    for _ in 0..r.below(3).saturating_sub(0).min(2) {
        if r.chance(1, 2) {
            continue;
        }
        o.tok(r, "@");
        let n = gen_name(r);
        o.tok(r, &n);
        if r.chance(1, 2) {
            gen_args(r, o, konst);
        }
    }
}

fn gen_selset(r: &mut Rng, o: &mut Out, depth: usize) {
    o.tok(r, "{");
    for _ in 0..1 + r.below(3) {
        match r.below(8) {
            0 => {
                o.tok(r, "...");
                let n = gen_name(r);
                o.tok(r, &n);
                gen_dirs(r, o, false);
            }
            1 if depth > 0 => {
                o.tok(r, "...");
                if r.chance(2, 3) {
                    o.tok(r, "on");
                    let n = gen_name(r);
                    o.tok(r, &n);
                }
                gen_dirs(r, o, false);
                gen_selset(r, o, depth - 1);
            }
            _ => {
                if r.chance(1, 4) {
                    let n = gen_name(r);
                    o.tok(r, &n);
                    o.tok(r, ":");
                }
                let n = gen_name(r);
                o.tok(r, &n);
                if r.chance(1, 3) {
                    gen_args(r, o, false);
                }
                gen_dirs(r, o, false);
                if depth > 0 && r.chance(1, 3) {
                    gen_selset(r, o, depth - 1);
                }
            }
        }
    }
    o.tok(r, "}");
}

fn gen_doc(r: &mut Rng, glue: u64) -> String {
    let mut o = Out { s: String::new(), glue };
    let nd = 1 + r.below(3);
    for i in 0..nd {
        match r.below(5) {
            0 if i == 0 || r.chance(1, 6) => gen_selset(r, &mut o, 3),
            1 => {
                o.tok(r, "fragment");
                let n = gen_name(r);
                o.tok(r, &n);
                o.tok(r, "on");
                let n = gen_name(r);
                o.tok(r, &n);
                gen_dirs(r, &mut o, false);
                gen_selset(r, &mut o, 2);
            }
            _ => {
                o.tok(r, *r.clone().pick(&["query", "mutation", "subscription"]));
                if r.chance(3, 4) {
                    let n = if r.chance(1, 2) { format!("Op{}", i) } else { gen_name(r) };
                    o.tok(r, &n);
                }
                if r.chance(1, 2) {
                    o.tok(r, "(");
                    for _ in 0..r.below(3) {
                        o.tok(r, "$");
                        let n = gen_name(r);
                        o.tok(r, &n);
                        o.tok(r, ":");
                        let t = gen_type_text(r, 2);
                        o.tok(r, &t);
                        gen_dirs(r, &mut o, false);
                        if r.chance(1, 3) {
                            o.tok(r, "=");
                            gen_value(r, &mut o, 2, true);
                        }
                    }
                    o.tok(r, ")");
                }
                gen_dirs(r, &mut o, false);
                gen_selset(r, &mut o, 3);
            }
        }
    }
    let tail = ignored(r);
    o.s.push_str(&tail);
    o.s
}

const LOCATIONS: &[&str] = &[
    "QUERY", "MUTATION", "SUBSCRIPTION", "FIELD", "FRAGMENT_DEFINITION", "FRAGMENT_SPREAD", "INLINE_FRAGMENT", "VARIABLE_DEFINITION",
    "SCHEMA", "SCALAR", "OBJECT", "FIELD_DEFINITION", "ARGUMENT_DEFINITION", "INTERFACE", "UNION", "ENUM", "ENUM_VALUE", "INPUT_OBJECT",
    "INPUT_FIELD_DEFINITION",
];

fn gen_desc(r: &mut Rng, o: &mut Out, p: u64) {
    if r.chance(p, 100) {
        if r.chance(1, 2) {
            let c = gen_string_content(r);
            o.tok(r, &format!("\"{}\"", c.replace(['\n', '\r'], " ")));
        } else {
            let c = gen_block_content(r);
            o.tok(r, &format!("\"\"\"{}\"\"\"", c));
        }
    }
}

/// const directives: each optional slot (arguments) drawn independently
fn gen_cdirs(r: &mut Rng, o: &mut Out, p: u64) {
    if !r.chance(p, 100) {
        return;
    }
    for _ in 0..1 + r.below(3) {
        o.tok(r, "@");
        let n = gen_name(r);
        o.tok(r, &n);
        if r.chance(1, 2) {
            gen_args(r, o, true);
        }
    }
}

/// input value definition: description? name : type default? directives?
fn gen_input_value(r: &mut Rng, o: &mut Out, mask: usize) {
    gen_desc(r, o, if mask & 1 != 0 { 100 } else { 0 });
    let n = gen_name(r);
    o.tok(r, &n);
    o.tok(r, ":");
    let t = gen_type_text(r, 2);
    o.tok(r, &t);
    if mask & 2 != 0 {
        o.tok(r, "=");
        gen_value(r, o, 2, true);
    }
    gen_cdirs(r, o, if mask & 4 != 0 { 100 } else { 0 });
}

fn gen_arguments_definition(r: &mut Rng, o: &mut Out) {
    o.tok(r, "(");
    for _ in 0..1 + r.below(3) {
        let m = r.below(8);
        gen_input_value(r, o, m);
    }
    o.tok(r, ")");
}

fn gen_fields_definition(r: &mut Rng, o: &mut Out) {
    o.tok(r, "{");
    for _ in 0..1 + r.below(3) {
        gen_desc(r, o, 30);
        let n = gen_name(r);
        o.tok(r, &n);
        if r.chance(1, 2) {
            gen_arguments_definition(r, o);
        }
        o.tok(r, ":");
        let t = gen_type_text(r, 2);
        o.tok(r, &t);
        gen_cdirs(r, o, 40);
    }
    o.tok(r, "}");
}

/// one type-system definition; `mask` selects the optional slots so that the
/// fixed sweep covers every combination, random cases draw it at random
fn gen_sdl_def(r: &mut Rng, o: &mut Out, which: usize, mask: usize) {
    let ext = mask & 1 != 0;
    let dirs = if mask & 2 != 0 { 100 } else { 0 };
    let body = mask & 4 != 0;
    let extra = mask & 8 != 0;
    if ext {
        o.tok(r, "extend");
    } else if which != 0 {
        gen_desc(r, o, if extra { 100 } else { 0 });
    }
    match which {
        0 => {
            o.tok(r, "schema");
            gen_cdirs(r, o, if ext && !body { 100 } else { dirs });
            if body || !ext {
                o.tok(r, "{");
                let roots = ["query", "mutation", "subscription"];
                let k = if ext { 1 + r.below(3) } else { 3 };
                for (i, op) in roots.iter().enumerate().take(k) {
                    if i > 0 && r.chance(1, 3) {
                        continue;
                    }
                    o.tok(r, op);
                    o.tok(r, ":");
                    let n = gen_name(r);
                    o.tok(r, &n);
                }
                if r.chance(1, 12) {
                    o.tok(r, "query");
                    o.tok(r, ":");
                    o.tok(r, "Q2");
                }
                o.tok(r, "}");
            }
        }
        1 => {
            o.tok(r, "scalar");
            let n = gen_name(r);
            o.tok(r, &n);
            gen_cdirs(r, o, if ext { 100 } else { dirs });
        }
        2 | 3 => {
            o.tok(r, if which == 2 { "type" } else { "interface" });
            let n = gen_name(r);
            o.tok(r, &n);
            if extra || (ext && !body && dirs == 0 && which == 2) {
                o.tok(r, "implements");
                if r.chance(1, 3) {
                    o.tok(r, "&");
                }
                let n = gen_name(r);
                o.tok(r, &n);
                for _ in 0..r.below(3) {
                    o.tok(r, "&");
                    let n = gen_name(r);
                    o.tok(r, &n);
                }
            }
            gen_cdirs(r, o, if ext && !body && which == 3 { 100 } else { dirs });
            if body {
                gen_fields_definition(r, o);
            }
        }
        4 => {
            o.tok(r, "union");
            let n = gen_name(r);
            o.tok(r, &n);
            gen_cdirs(r, o, if ext && !body { 100 } else { dirs });
            if body {
                o.tok(r, "=");
                if r.chance(1, 3) {
                    o.tok(r, "|");
                }
                let n = gen_name(r);
                o.tok(r, &n);
                for _ in 0..r.below(3) {
                    o.tok(r, "|");
                    let n = gen_name(r);
                    o.tok(r, &n);
                }
            }
        }
        5 => {
            o.tok(r, "enum");
            let n = gen_name(r);
            o.tok(r, &n);
            gen_cdirs(r, o, if ext && !body { 100 } else { dirs });
            if body {
                o.tok(r, "{");
                for _ in 0..1 + r.below(3) {
                    gen_desc(r, o, 30);
                    let n = if r.chance(1, 8) { (*r.pick(&["true", "null", "false", "truex", "nullable", "falsey"])).to_string() } else { gen_name(r) };
                    o.tok(r, &n);
                    gen_cdirs(r, o, 40);
                }
                o.tok(r, "}");
            }
        }
        6 => {
            o.tok(r, "input");
            let n = gen_name(r);
            o.tok(r, &n);
            gen_cdirs(r, o, if ext && !body { 100 } else { dirs });
            if body {
                o.tok(r, "{");
                for _ in 0..1 + r.below(3) {
                    let m = r.below(8);
                    gen_input_value(r, o, m);
                }
                o.tok(r, "}");
            }
        }
        _ => {
            // directive definition (no extend form: the description slot is used instead)
            if ext {
                o.s.truncate(o.s.rfind("extend").unwrap_or(0));
                gen_desc(r, o, 100);
            }
            o.tok(r, "directive");
            o.tok(r, "@");
            let n = gen_name(r);
            o.tok(r, &n);
            if body {
                gen_arguments_definition(r, o);
            }
            if dirs != 0 {
                o.tok(r, "repeatable");
            }
            o.tok(r, "on");
            if r.chance(1, 4) {
                o.tok(r, "|");
            }
            o.tok(r, *r.clone().pick(LOCATIONS));
            for _ in 0..r.below(3) {
                o.tok(r, "|");
                o.tok(r, *r.clone().pick(LOCATIONS));
            }
        }
    }
}

fn gen_sdl(r: &mut Rng, glue: u64) -> String {
    let mut o = Out { s: String::new(), glue };
    for _ in 0..1 + r.below(3) {
        let which = r.below(8);
        let mask = r.below(16);
        gen_sdl_def(r, &mut o, which, mask);
    }
    o.s
}

fn mutate(r: &mut Rng, s: &str) -> String {
    let mut cs: Vec<char> = s.chars().collect();
    let alphabet: Vec<char> = "{}[]()!:=@$.\"\\#,| \n\r\t&-0e1aon_\u{feff}\u{e9}".chars().collect();
    for _ in 0..1 + r.below(2) {
        if cs.is_empty() {
            cs.push(*r.pick(&alphabet));
            continue;
        }
        let i = r.below(cs.len());
        match r.below(5) {
            0 => {
                cs.remove(i);
            }
            1 => cs.insert(i, *r.pick(&alphabet)),
            2 => cs[i] = *r.pick(&alphabet),
            3 => {
                let c = cs[i];
                cs.insert(i, c)
            }
            _ => {
                let j = r.below(cs.len());
                cs.swap(i, j)
            }
        }
    }
    cs.into_iter().collect()
}

fn nest_sel(depth: usize, leaf: &str, inline: bool) -> String {
    let mut s = String::new();
    for i in 0..depth {
        if inline && i % 2 == 1 {
            s.push_str("{...");
        } else {
            s.push_str("{a");
        }
    }
    s.push_str(leaf);
    for _ in 0..depth {
        s.push('}');
    }
    s
}

fn main() {
    let args = parse_args();
    let mut r = Rng::new(args.seed);
    let mut out = String::new();
    let emit = |out: &mut String, kind: u32, part: &str, nontrivial: bool| {
        let whole = match kind {
            1 => format!("{{f(a:\"{}\")}}", part),
            2 => format!("{{f(a:\"\"\"{}\"\"\")}}", part),
            3 => format!("query($v:{}){{a}}", part),
            4 => format!("{{f(a:{})}}", part),
            5 => format!("query($v:S=\"\"\"{}\"\"\"){{a}}", part),
            6 => format!("query($v:Int {}){{a}}", part),
            _ => part.to_string(),
        };
        let (g, im) = run_doc(&whole);
        writeln!(
            out,
            "DOC\t({}%N, {}, {})\t{{\"text\": {}, \"impl\": {}, \"nontrivial\": {}}}",
            kind,
            g_str(part),
            g,
            jstr(&format!("k{} {}", kind, whole.escape_default())),
            jstr(&im),
            nontrivial
        )
        .unwrap();
    };

    // ---- fixed corpus: witnesses of the known findings, boundaries ----
    let corpus: &[(u32, &str)] = &[
        (2, "x\\\"\"\"y"),
        (2, "\n    a\n  \n    b\n"),
        (2, "\n    Hello,\n      World!\n\n    Yours,\n      GraphQL.\n  "),
        (2, "  a\r\n   b\r  c\n\n \t\n"),
        (2, ""),
        (2, "\r\r\n\n"),
        (2, "\\\"\"\""),
        (2, "\"\" \\\"\"\" \""),
        (3, "[ Int ]"),
        (3, "[Int ]"),
        (3, "[ Int]"),
        (3, "Int !"),
        (3, "[Int] !"),
        (3, "[Int!]!"),
        (3, "[[Int!]]"),
        (3, "[Int"),
        (3, "Int]"),
        (3, "[Int]]"),
        (3, "[]"),
        (3, "!"),
        (3, "Int!!"),
        (3, "[Int#c\n]"),
        (1, "abc"),
        (1, "\\n\\b\\u2a1A"),
        (1, "\\\"\\\\"),
        (1, "\\ud800"),
        (1, "\\uD7FF\\uE000"),
        (1, "\\udfff"),
        (1, "\\u00e9\\/"),
        (1, "a\nb"),
        (1, "\\x"),
        (1, "\\"),
        (1, "\u{1f600}\u{feff}"),
        (4, "00"),
        (4, "[00]"),
        (4, "[01 2]"),
        (4, "trueish"),
        (4, "[trueish]"),
        (4, "[nullable]"),
        (4, "[truefalse]"),
        (4, "-0"),
        (4, "1e309"),
        (4, "1e308"),
        (4, "18446744073709551615"),
        (4, "18446744073709551616"),
        (4, "-9223372036854775808"),
        (4, "-9223372036854775809"),
        (4, "{a:1 a:2 b:3}"),
        (4, "{a:1, b:{c:[$v, \"s\", E, null, true]}}"),
        (4, "$ v"),
        (4, "$v"),
        (4, "1.5e3"),
        (4, "[1.5.2]"),
        (4, "0x1F"),
        (4, "[[[[[[[[[[[[[[[[[[[[1]]]]]]]]]]]]]]]]]]]]"),
        (0, "{a}"),
        (0, ""),
        (0, " "),
        (0, "\u{feff}{a}\u{feff}"),
        (0, "{a} {b}"),
        (0, "query A{a} query A{b}"),
        (0, "query A{a} {b}"),
        (0, "{a} query A{b}"),
        (0, "query A{a} query B{b} fragment F on T{c} fragment F on T{d}"),
        (0, "fragment F on T{c}"),
        (0, "fragment on on T{c} {...on}"),
        (0, "{... on#c\nT{a}}"),
        (0, "{...on T{a}}"),
        (0, "{...onT}"),
        (0, "{... @x{a}}"),
        (0, "queryX{a}"),
        (0, "query X{a}"),
        (0, "mutationM{a}"),
        (0, "fragmentF on T{a} {b}"),
        (0, "{a:b(x:1)@d(y:$z){c}}"),
        (0, "query Q($a:Int=1@d,$b:[T!]!=[1,2]){a}"),
        (0, "query Q(){a}"),
        (0, "{a()}"),
        (0, "{}"),
        (0, "{a{}}"),
        (0, "{a @}"),
        (0, "{a:}"),
        (0, "{f(a:1e309)}"),
        (0, "{a{b(x:1e999)}} {c}"),
        (0, "subscription{a}"),
        (0, "# only a comment"),
        (0, "{a}#c"),
        (0, "{a},,,"),
        (0, "{a b,c\td\r\ne\rf}"),
    ];
    for (k, p) in corpus {
        emit(&mut out, *k, p, true);
    }
    // variable definition tail: DefaultValue? Directives? (the grammar has them the other way round)
    for p in ["", "=1", "@d", "=1 @d", "@d =1", "=1@d(x:2)@e", "@d(x:2) = [1]", "= {a:1} @d", "=$x", "@d(x:$y)", "= 1 = 2", "@", "@d @d", "=1 @d =2"] {
        emit(&mut out, 6, p, true);
    }
    // block strings whose first / last / middle lines are made only of Unicode
    // White_Space that is not GraphQL WhiteSpace (BlockStringValue keeps them)
    for (i, c) in UNI_WS.iter().enumerate() {
        let k = if i % 2 == 0 { 2 } else { 5 };
        emit(&mut out, k, &format!("{}", c), true);
        emit(&mut out, 7 - k, &format!("text\n{}", c), true);
        emit(&mut out, k, &format!("{}\r\ntext", c), true);
        emit(&mut out, 7 - k, &format!(" {}\t\rtext\r\t{} ", c, c), true);
        emit(&mut out, k, &format!("a\n{}\nb", c), true);
        emit(&mut out, k, &format!("\n  {}{}\n  x{}y\n  {}\n", c, c, c, c), true);
        emit(&mut out, 7 - k, &format!("\n{}{}a\n{}{}b\n{}", c, c, c, c, c), true);
    }
    for d in [1usize, 2, 63, 64, 65, 66, 70] {
        emit(&mut out, 0, &nest_sel(d, "{a}", false), true);
        emit(&mut out, 0, &nest_sel(d, "{a}", true), true);
    }
    emit(&mut out, 0, &format!("{} {}", nest_sel(66, "{a}", false), "{b(x:1e999)}"), true);
    emit(&mut out, 0, &format!("{{b(x:1e999)}} {}", nest_sel(66, "{a}", false)), true);

    // ---- random cases ----
    let n = args.n;
    for i in 0..n {
        match i % 10 {
            0 => {
                let c = gen_string_content(&mut r);
                emit(&mut out, 1, &c, !c.is_empty());
            }
            1 => {
                let c = gen_block_content(&mut r);
                let k = if r.chance(1, 3) { 5 } else { 2 };
                emit(&mut out, k, &c, !c.is_empty());
            }
            2 if i % 20 == 2 => {
                // variable definition tail in either order
                let mut o = Out { s: String::new(), glue: 0 };
                let first_default = r.chance(1, 2);
                for step in 0..2 {
                    if (step == 0) == first_default {
                        if r.chance(2, 3) {
                            o.tok(&mut r, "=");
                            gen_value(&mut r, &mut o, 1, true);
                        }
                    } else if r.chance(2, 3) {
                        gen_dirs(&mut r, &mut o, true);
                    }
                }
                let t = o.s;
                emit(&mut out, 6, &t, true);
            }
            2 => {
                let mut t = gen_type_text(&mut r, 3);
                if r.chance(1, 3) {
                    t = mutate(&mut r, &t);
                }
                emit(&mut out, 3, &t, true);
            }
            3 => {
                let mut o = Out { s: String::new(), glue: if r.chance(1, 4) { 500 } else { 0 } };
                gen_value(&mut r, &mut o, 3, false);
                let mut t = o.s;
                if r.chance(1, 4) {
                    t = mutate(&mut r, &t);
                }
                emit(&mut out, 4, &t, true);
            }
            4 | 5 | 6 => {
                let d = gen_doc(&mut r, 0);
                emit(&mut out, 0, &d, true);
            }
            7 => {
                let d = gen_doc(&mut r, 400);
                emit(&mut out, 0, &d, true);
            }
            _ => {
                let d = gen_doc(&mut r, 0);
                let m = mutate(&mut r, &d);
                emit(&mut out, 0, &m, true);
            }
        }
    }

    // ---- Type::new on arbitrary strings ----
    let tn_fixed = ["", "!", "[", "]", "[]", "[]!", "[!]", "Int", "Int!", "[Int]", "[Int!]!", "[[Int]", "[Int]]", "![Int]", "a!b", "[a]b]", "[ Int ]", "!!", "[[]]"];
    let mut tn: Vec<String> = tn_fixed.iter().map(|s| s.to_string()).collect();
    for _ in 0..n / 4 {
        let t = gen_type_text(&mut r, 3);
        tn.push(if r.chance(1, 2) { mutate(&mut r, &t) } else { t });
    }
    for t in tn {
        let tt = t.clone();
        let res = catch(move || Type::new(&tt));
        let g = match &res {
            None => "None".to_string(), // a panic would show as a mismatch with the model's Some/None only by luck; flagged in impl text
            Some(x) => g_opt(x.as_ref(), p_type),
        };
        writeln!(
            out,
            "TNEW\t({}, {})\t{{\"text\": {}, \"impl\": {}, \"nontrivial\": true}}",
            g_str(&t),
            g,
            jstr(&t),
            jstr(&format!("{:?}", res.map(|x| x.map(|t| t.to_string()))))
        )
        .unwrap();
    }

    // ---- service documents ----
    let sdl_fixed = [
        "type Q{a:Int}",
        "scalar S",
        "extend scalar S",
        "extend scalar S @d",
        "typeQ{a:Int}",
        "type Q{a:[ Int ]}",
        "type Q{a(x:Int=1):[Int!]!@d(r:\"x\")}",
        "\"\"\"d\\\"\"\"e\"\"\" type Q{a:Int}",
        "schema{query:Q} schema{query:R}",
        "schema{mutation:M}",
        "enum E{A B true}",
        "enum E{A}",
        "union U=|A|B",
        "union U",
        "directive @d(x:Int) repeatable on FIELD|ENUM",
        "directive @d on FIELD_DEFINITIONX",
        "interface I implements J&K{a:Int}",
        "input I{a:Int=1e999}",
        "{a}",
        "",
    ];
    let mut sd: Vec<String> = sdl_fixed.iter().map(|s| s.to_string()).collect();
    // kitchen-sink shapes: every optional slot of input values / fields / definitions
    for t in [
        "type Q{f(limit:Int=10 @deprecated):Int}",
        "type Q{f(\"d\" arg:[T!]! = \"default\" @onArg @b(x:1)):Int @c}",
        "input F{depth:Int=1 @deprecated}",
        "input F{\"\"\"d\"\"\" depth:Int=1 @a @b(r:\"x\") @c b:[Int]=[1,2] c:Int @d e:E=V}",
        "directive @d(x:Int=3 @a, \"desc\" y:String=\"s\" @b(z:{k:[1]}))repeatable on FIELD|ARGUMENT_DEFINITION",
        "directive @d on FIELD",
        "directive @d repeatable on FIELD",
        "\"dd\" directive @all on QUERY|MUTATION|SUBSCRIPTION|FIELD|FRAGMENT_DEFINITION|FRAGMENT_SPREAD|INLINE_FRAGMENT|VARIABLE_DEFINITION|SCHEMA|SCALAR|OBJECT|FIELD_DEFINITION|ARGUMENT_DEFINITION|INTERFACE|UNION|ENUM|ENUM_VALUE|INPUT_OBJECT|INPUT_FIELD_DEFINITION",
        "schema @a(x:1) @b{query:Q mutation:M subscription:S}",
        "extend schema @a",
        "extend schema{mutation:M}",
        "extend schema @a{subscription:S}",
        "schema{query:Q query:R}",
        "schema{query:Q mutation:M mutation:N}",
        "\"d\" type T implements &A&B @x @y(a:null){\"fd\" f(\"ad\" a:Int=1 @p b:[Int!]):T! @q g:Int}",
        "extend type T implements A",
        "extend type T @a",
        "extend type T{f:Int}",
        "extend interface I implements J @a{f:Int}",
        "interface I implements J & K{f(a:Int):Int}",
        "\"\"\"u\"\"\" union U @a = | A | B",
        "extend union U = A",
        "extend union U @a",
        "\"e\" enum E @a{\"v\" A @b(x:1) B C @c}",
        "extend enum E{D}",
        "extend enum E @a",
        "enum E{truex}",
        "enum E{nullable A}",
        "enum E{A falsey}",
        "extend input I @a",
        "extend input I{a:Int=1 @b}",
        "extend scalar S @a @b",
        "\"s\" scalar S @a(u:\"\\u0041\")",
        "type Q{a:Int} scalar S directive @d on ENUM enum E{A} union U=Q input I{a:Int} interface J{a:Int} schema{query:Q}",
    ] {
        sd.push(t.to_string());
    }
    // sweep: every definition kind with every combination of its optional slots
    for which in 0..8 {
        for mask in 0..16 {
            let mut o = Out { s: String::new(), glue: 0 };
            gen_sdl_def(&mut r, &mut o, which, mask);
            sd.push(o.s);
        }
    }
    // input value definitions: all 8 combinations of description / default / directives, in the three places they occur
    for mask in 0..8 {
        for place in 0..3 {
            let mut o = Out { s: String::new(), glue: 0 };
            match place {
                0 => {
                    o.tok(&mut r, "type");
                    o.tok(&mut r, "Q");
                    o.tok(&mut r, "{");
                    o.tok(&mut r, "f");
                    o.tok(&mut r, "(");
                    gen_input_value(&mut r, &mut o, mask);
                    o.tok(&mut r, ")");
                    o.tok(&mut r, ":");
                    o.tok(&mut r, "Int");
                    o.tok(&mut r, "}");
                }
                1 => {
                    o.tok(&mut r, "input");
                    o.tok(&mut r, "I");
                    o.tok(&mut r, "{");
                    gen_input_value(&mut r, &mut o, mask);
                    gen_input_value(&mut r, &mut o, 7 - mask);
                    o.tok(&mut r, "}");
                }
                _ => {
                    o.tok(&mut r, "directive");
                    o.tok(&mut r, "@");
                    o.tok(&mut r, "d");
                    o.tok(&mut r, "(");
                    gen_input_value(&mut r, &mut o, mask);
                    o.tok(&mut r, ")");
                    o.tok(&mut r, "repeatable");
                    o.tok(&mut r, "on");
                    o.tok(&mut r, "FIELD");
                }
            }
            sd.push(o.s);
        }
    }
    for (i, c) in UNI_WS.iter().enumerate() {
        let kw = ["type T{a:Int}", "scalar S", "enum E{A}", "directive @d on FIELD", "input I{a:Int}", "union U=A", "interface J{a:Int}"][i % 7];
        sd.push(format!("\"\"\"{}\ntext\n{}\"\"\" {}", c, c, kw));
        sd.push(format!("\"\"\"text\r\n {}\t\"\"\"{}", c, kw));
        sd.push(format!("\"\"\"{}\"\"\" {}", c, kw));
    }
    for i in 0..n / 3 {
        let glue = if i % 5 == 4 { 400 } else { 0 };
        let d = gen_sdl(&mut r, glue);
        sd.push(if i % 3 == 2 { mutate(&mut r, &d) } else { d });
    }
    for t in sd {
        let (g, im) = run_sdl(&t);
        writeln!(out, "SDL\t({}, {})\t{{\"text\": {}, \"impl\": {}, \"nontrivial\": true}}", g_str(&t), g, jstr(&t), jstr(&im)).unwrap();
    }

    std::fs::create_dir_all(&args.out).unwrap();
    std::fs::write(format!("{}/c13.cases", args.out), out).unwrap();
}

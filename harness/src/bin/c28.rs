//! C28 correspondence: the REAL `DataLoader` driven one critical section at a
//! time.  Spawned tasks go to a table polled by hand (task id = spawn order),
//! every `Timer::delay` and every `Loader::load` call parks on a oneshot that
//! the schedule opens (`SFire t`, `SDone t answer`), waiting loads are futures
//! polled with a noop waker after every step and can be dropped (`SCancel`).
//! Stream 1 enumerates EVERY schedule of small configurations (<= 3 requests
//! over 3 keys, max_batch_size 1..3, all cache modes, one failing call or one
//! cancelled waiter); stream 2 is random larger histories.  After each step
//! the harness prints the batches newly handed to the loader and the loads
//! that completed, which the Coq machine (Loader.v) must reproduce.
use std::collections::HashMap;
use std::fmt::Write as _;
use std::future::Future;
use std::panic::{AssertUnwindSafe, catch_unwind};
use std::pin::Pin;
use std::sync::{Arc, Mutex};
use std::task::{Context, Poll};
use std::time::Duration;

use agv_harness::*;
use async_graphql::dataloader::*;
use async_graphql::runtime::Timer;
use futures_channel::oneshot;
use futures_util::future::BoxFuture;
use futures_util::task::{FutureObj, Spawn, SpawnError, noop_waker};

#[derive(Clone, Debug)]
enum Resp {
    Ok(Vec<(u64, u64)>),
    Err(u64),
}

struct Call {
    keys: Vec<u64>,
    tx: Option<oneshot::Sender<Resp>>,
    order: Vec<(u64, u64)>,
}

#[derive(Default)]
struct Ctl {
    calls: Vec<Call>,
    timers: Vec<Option<oneshot::Sender<()>>>,
}

struct L(Arc<Mutex<Ctl>>);

impl Loader<i32> for L {
    type Value = u64;
    type Error = u64;
    async fn load(&self, keys: &[i32]) -> Result<HashMap<i32, u64>, u64> {
        let (idx, rx) = {
            let mut c = self.0.lock().unwrap();
            let (tx, rx) = oneshot::channel();
            c.calls.push(Call { keys: keys.iter().map(|k| *k as u64).collect(), tx: Some(tx), order: vec![] });
            (c.calls.len() - 1, rx)
        };
        match rx.await.unwrap_or(Resp::Err(999)) {
            Resp::Ok(v) => {
                let m: HashMap<i32, u64> = v.iter().map(|(k, x)| (*k as i32, *x)).collect();
                self.0.lock().unwrap().calls[idx].order = m.iter().map(|(k, x)| (*k as u64, *x)).collect();
                Ok(m)
            }
            Resp::Err(e) => Err(e),
        }
    }
}

struct T(Arc<Mutex<Ctl>>);
impl Timer for T {
    fn delay(&self, _d: Duration) -> BoxFuture<'static, ()> {
        let (tx, rx) = oneshot::channel();
        self.0.lock().unwrap().timers.push(Some(tx));
        Box::pin(async move {
            let _ = rx.await;
        })
    }
}

#[derive(Clone, Default)]
struct Q(Arc<Mutex<Vec<Option<FutureObj<'static, ()>>>>>);
impl Spawn for Q {
    fn spawn_obj(&self, f: FutureObj<'static, ()>) -> Result<(), SpawnError> {
        self.0.lock().unwrap().push(Some(f));
        Ok(())
    }
}

#[derive(Clone, Debug)]
enum Step {
    Request(u64, Vec<u64>),
    Fire(u64),
    Done(u64, Resp),
    Cancel(u64),
    Feed(Vec<(u64, u64)>),
}

#[derive(Clone, Copy, Debug, PartialEq)]
enum Kind {
    No,
    Hash,
    Lru(usize),
}

#[derive(Clone, Copy, Debug)]
struct Cfg {
    kind: Kind,
    max: usize,
    dis: bool,
    dis_global: bool, // how the flag is set on the real loader (not part of the model)
}

type WRes = Result<HashMap<i32, u64>, u64>;
type WFut = Pin<Box<dyn Future<Output = WRes>>>;

trait Dl {
    fn load(&self, keys: Vec<i32>) -> WFut;
    fn feed(&self, kvs: Vec<(i32, u64)>) -> Pin<Box<dyn Future<Output = ()>>>;
}
impl<C: CacheFactory> Dl for Arc<DataLoader<L, C>> {
    fn load(&self, keys: Vec<i32>) -> WFut {
        let d = self.clone();
        Box::pin(async move { d.load_many(keys).await })
    }
    fn feed(&self, kvs: Vec<(i32, u64)>) -> Pin<Box<dyn Future<Output = ()>>> {
        let d = self.clone();
        Box::pin(async move { d.feed_many(kvs).await })
    }
}

fn poll_once<F: Future + ?Sized>(f: &mut Pin<Box<F>>) -> Result<Poll<F::Output>, ()> {
    let w = noop_waker();
    let mut cx = Context::from_waker(&w);
    catch_unwind(AssertUnwindSafe(|| f.as_mut().poll(&mut cx))).map_err(|_| ())
}

struct Sim {
    dl: Box<dyn Dl>,
    ctl: Arc<Mutex<Ctl>>,
    q: Q,
    polled: usize,                  // tasks below this index had their first poll
    task_timer: HashMap<u64, usize>,
    task_call: HashMap<u64, usize>,
    waiters: Vec<(u64, Option<WFut>)>, // issue order; None = completed or dropped
    used: Vec<u64>,
    seen_calls: usize,
    anomaly: Option<u64>,
}

fn n(x: u64) -> String {
    format!("{}%N", x)
}
fn g_keys(v: &[u64]) -> String {
    g_list(v.iter(), |k| n(*k))
}
fn g_kvs(v: &[(u64, u64)]) -> String {
    g_list(v.iter(), |(k, x)| format!("({}, {})", n(*k), n(*x)))
}

impl Sim {
    fn new(cfg: Cfg) -> Sim {
        let ctl = Arc::new(Mutex::new(Ctl::default()));
        let q = Q::default();
        macro_rules! mk {
            ($e:expr) => {{
                let d = Arc::new($e.max_batch_size(cfg.max).delay(Duration::from_millis(1)));
                // create the entry of the key type, then set the (constant) disable flag
                let mut f = d.load(vec![]);
                let _ = poll_once(&mut f);
                if cfg.dis {
                    if cfg.dis_global {
                        d.enable_all_cache(false);
                    } else {
                        let dd = d.clone();
                        let mut f: Pin<Box<dyn Future<Output = ()>>> = Box::pin(async move { dd.enable_cache::<i32>(false).await });
                        let _ = poll_once(&mut f);
                    }
                }
                Box::new(d) as Box<dyn Dl>
            }};
        }
        let dl: Box<dyn Dl> = match cfg.kind {
            Kind::No => mk!(DataLoader::new(L(ctl.clone()), q.clone(), T(ctl.clone()))),
            Kind::Hash => mk!(DataLoader::with_cache(L(ctl.clone()), q.clone(), T(ctl.clone()), HashMapCache::default())),
            Kind::Lru(c) => mk!(DataLoader::with_cache(L(ctl.clone()), q.clone(), T(ctl.clone()), LruCache::new(c))),
        };
        Sim { dl, ctl, q, polled: 0, task_timer: HashMap::new(), task_call: HashMap::new(), waiters: vec![], used: vec![], seen_calls: 0, anomaly: None }
    }

    /// poll task `t` once and note the timer / loader call it parked on
    fn poll_task(&mut self, t: usize) {
        let (nt, nc) = {
            let c = self.ctl.lock().unwrap();
            (c.timers.len(), c.calls.len())
        };
        let fut = self.q.0.lock().unwrap()[t].take();
        if let Some(mut f) = fut {
            let w = noop_waker();
            let mut cx = Context::from_waker(&w);
            match catch_unwind(AssertUnwindSafe(|| Pin::new(&mut f).poll(&mut cx))) {
                Ok(Poll::Pending) => self.q.0.lock().unwrap()[t] = Some(f),
                Ok(Poll::Ready(())) => {}
                Err(_) => self.anomaly = Some(5),
            }
        }
        let c = self.ctl.lock().unwrap();
        if c.timers.len() > nt {
            self.task_timer.insert(t as u64, nt);
        }
        if c.calls.len() > nc {
            self.task_call.insert(t as u64, nc);
        }
        if c.timers.len() > nt + 1 || c.calls.len() > nc + 1 {
            self.anomaly = Some(6);
        }
    }

    fn live_timers(&self) -> Vec<u64> {
        let c = self.ctl.lock().unwrap();
        let mut v: Vec<u64> = self.task_timer.iter().filter(|(_, i)| c.timers[**i].is_some()).map(|(t, _)| *t).collect();
        v.sort();
        v
    }
    fn live_loads(&self) -> Vec<u64> {
        let c = self.ctl.lock().unwrap();
        let mut v: Vec<u64> = self.task_call.iter().filter(|(_, i)| c.calls[**i].tx.is_some()).map(|(t, _)| *t).collect();
        v.sort();
        v
    }
    fn live_waiters(&self) -> Vec<u64> {
        self.waiters.iter().filter(|(_, f)| f.is_some()).map(|(w, _)| *w).collect()
    }

    /// Execute one step; returns (gallina step, gallina observation, text).
    fn step(&mut self, s: &Step) -> (String, String, String) {
        let mut done: Vec<(u64, WRes)> = vec![];
        let sg = match s {
            Step::Request(w, ks) => {
                if !self.used.contains(w) {
                    self.used.push(*w);
                    let mut f = self.dl.load(ks.iter().map(|k| *k as i32).collect());
                    match poll_once(&mut f) {
                        Ok(Poll::Ready(r)) => {
                            done.push((*w, r));
                            self.waiters.push((*w, None));
                        }
                        Ok(Poll::Pending) => self.waiters.push((*w, Some(f))),
                        Err(()) => self.anomaly = Some(7),
                    }
                    let nt = self.q.0.lock().unwrap().len();
                    for t in self.polled..nt {
                        self.poll_task(t);
                    }
                    self.polled = nt;
                }
                format!("(SRequest {} {})", n(*w), g_keys(ks))
            }
            Step::Fire(t) => {
                if let Some(i) = self.task_timer.get(t).copied() {
                    let tx = self.ctl.lock().unwrap().timers[i].take();
                    if let Some(tx) = tx {
                        let _ = tx.send(());
                        self.poll_task(*t as usize);
                    }
                }
                format!("(SFire {})", n(*t))
            }
            Step::Done(t, resp) => {
                let mut shown = resp.clone();
                if let Some(i) = self.task_call.get(t).copied() {
                    let tx = self.ctl.lock().unwrap().calls[i].tx.take();
                    if let Some(tx) = tx {
                        let _ = tx.send(resp.clone());
                        self.poll_task(*t as usize);
                        if self.q.0.lock().unwrap()[*t as usize].is_some() {
                            self.anomaly = Some(8); // do_load did not finish after the loader answered
                        }
                        if let Resp::Ok(_) = resp {
                            shown = Resp::Ok(self.ctl.lock().unwrap().calls[i].order.clone());
                        }
                    }
                }
                match shown {
                    Resp::Ok(v) => format!("(SDone {} (LOk {}))", n(*t), g_kvs(&v)),
                    Resp::Err(e) => format!("(SDone {} (LErr {}))", n(*t), n(e)),
                }
            }
            Step::Cancel(w) => {
                for (id, f) in self.waiters.iter_mut() {
                    if id == w {
                        *f = None; // drops the load_many future
                    }
                }
                format!("(SCancel {})", n(*w))
            }
            Step::Feed(kvs) => {
                let mut f = self.dl.feed(kvs.iter().map(|(k, v)| (*k as i32, *v)).collect());
                match poll_once(&mut f) {
                    Ok(Poll::Ready(())) => {}
                    _ => self.anomaly = Some(9),
                }
                format!("(SFeed {})", g_kvs(kvs))
            }
        };
        // poll every waiting load
        for (id, slot) in self.waiters.iter_mut() {
            if let Some(f) = slot {
                match poll_once(f) {
                    Ok(Poll::Ready(r)) => {
                        done.push((*id, r));
                        *slot = None;
                    }
                    Ok(Poll::Pending) => {}
                    Err(()) => {
                        self.anomaly = Some(10); // rx.await.unwrap() on a dropped sender, or another panic
                        *slot = None;
                    }
                }
            }
        }
        // batches newly handed to the loader, with the task that made the call
        let mut calls: Vec<(u64, Vec<u64>)> = vec![];
        {
            let c = self.ctl.lock().unwrap();
            for (i, call) in c.calls.iter().enumerate().skip(self.seen_calls) {
                let mut k = call.keys.clone();
                k.sort();
                let l = k.len();
                k.dedup();
                if k.len() != l {
                    self.anomaly = Some(4); // a key twice in one batch
                }
                match self.task_call.iter().find(|(_, ci)| **ci == i) {
                    Some((t, _)) => calls.push((*t, k)),
                    None => self.anomaly = Some(11), // a loader call made by no spawned task
                }
            }
            self.seen_calls = c.calls.len();
        }
        let dg = g_list(done.iter(), |(w, r)| match r {
            Ok(m) => {
                let mut v: Vec<(u64, u64)> = m.iter().map(|(k, x)| (*k as u64, *x)).collect();
                v.sort();
                format!("({}, WOk {})", n(*w), g_kvs(&v))
            }
            Err(e) => format!("({}, WErr {})", n(*w), n(*e)),
        });
        let txt = format!("calls{:?} done{:?}", calls, done.iter().map(|(w, r)| (*w, r.as_ref().map(|m| { let mut v: Vec<_> = m.iter().map(|(k, x)| (*k, *x)).collect(); v.sort(); v }).map_err(|e| *e))).collect::<Vec<_>>());
        let og = match self.anomaly {
            Some(a) => format!("(SAnom {})", n(a)),
            None => format!("(SO {} {})", g_list(calls.iter(), |(t, c)| format!("({}, {})", n(*t), g_keys(c))), dg),
        };
        (sg, og, txt)
    }
}

fn g_cfg(c: &Cfg) -> String {
    let kg = match c.kind {
        Kind::No => "KNo".to_string(),
        Kind::Hash => "KHash".to_string(),
        Kind::Lru(c) => format!("(KLru {}%nat)", c),
    };
    format!("{{| c_kind := {}; c_max := {}%nat; c_dis := {} |}}", kg, c.max, g_bool(c.dis))
}

fn jstr(s: &str) -> String {
    serde_json::to_string(s).unwrap()
}

/// Run a whole schedule on a fresh loader and print the case line.
fn emit(out: &mut String, stream: &str, cfg: Cfg, steps: &[Step]) {
    let mut sim = Sim::new(cfg);
    let mut items = vec![];
    let mut texts = vec![];
    for s in steps {
        let (sg, og, t) = sim.step(s);
        items.push(format!("({}, {})", sg, og));
        texts.push(t);
    }
    let complete = sim.live_timers().is_empty() && sim.live_loads().is_empty();
    let text = format!("{:?} {:?}", cfg, steps);
    let nontrivial = texts.iter().any(|t| t.contains("Ok(["));
    writeln!(
        out,
        "{}\t({}, [{}], {})\t{{\"text\":{},\"impl\":{},\"nontrivial\":{}}}",
        stream,
        g_cfg(&cfg),
        items.join("; "),
        g_bool(complete),
        jstr(&text),
        jstr(&texts.join(" | ")),
        nontrivial
    )
    .unwrap();
}

/// Answers of the exhaustive stream: call number c gets key -> 100*(c+1)+key.
#[derive(Clone)]
struct Small {
    cfg: Cfg,
    feed: Vec<(u64, u64)>,
    reqs: Vec<Vec<u64>>,
    fail_call: Option<usize>,
    omit_key: Option<u64>,
    cancels: usize,
}

fn answer(sm: &Small, sim: &Sim, t: u64) -> Resp {
    let i = sim.task_call[&t];
    if sm.fail_call == Some(i) {
        return Resp::Err(7);
    }
    let keys = sim.ctl.lock().unwrap().calls[i].keys.clone();
    Resp::Ok(keys.iter().filter(|k| Some(**k) != sm.omit_key).map(|k| (*k, 100 * (i as u64 + 1) + *k)).collect())
}

/// Every schedule of a small configuration: depth-first, each prefix re-run on
/// a fresh loader (the real loader cannot be snapshotted).
fn explore(sm: &Small, prefix: &mut Vec<Step>, issued: usize, cancels: usize, out: &mut String, count: &mut usize, limit: usize) {
    if *count >= limit {
        return;
    }
    let mut sim = Sim::new(sm.cfg);
    for s in prefix.iter() {
        sim.step(s);
    }
    let mut next: Vec<(Step, usize, usize)> = vec![];
    if issued < sm.reqs.len() {
        next.push((Step::Request(issued as u64, sm.reqs[issued].clone()), issued + 1, cancels));
    }
    for t in sim.live_timers() {
        next.push((Step::Fire(t), issued, cancels));
    }
    for t in sim.live_loads() {
        next.push((Step::Done(t, answer(sm, &sim, t)), issued, cancels));
    }
    if cancels < sm.cancels {
        for w in sim.live_waiters() {
            next.push((Step::Cancel(w), issued, cancels + 1));
        }
    }
    drop(sim);
    if next.is_empty() {
        emit(out, "EXH", sm.cfg, prefix);
        *count += 1;
        return;
    }
    for (s, i, c) in next {
        prefix.push(s);
        explore(sm, prefix, i, c, out, count, limit);
        prefix.pop();
    }
}

fn random_history(r: &mut Rng) -> (Cfg, Vec<Step>) {
    let kind = match r.below(8) {
        0 | 1 => Kind::No,
        2 | 3 | 4 => Kind::Hash,
        _ => Kind::Lru(1 + r.below(3)),
    };
    let cfg = Cfg { kind, max: 1 + r.below(5), dis: r.chance(1, 4), dis_global: r.chance(1, 2) };
    let nkeys = 2 + r.below(4);
    let len = 3 + r.below(14);
    let mut steps: Vec<Step> = vec![];
    let mut sim = Sim::new(cfg);
    let mut next_w = 0u64;
    let mut stamp = 0u64;
    let rand_answer = |r: &mut Rng, keys: &[u64], stamp: u64| -> Resp {
        if r.chance(1, 7) {
            return Resp::Err(1 + r.below(3) as u64);
        }
        let mut v: Vec<(u64, u64)> = keys.iter().filter(|_| r.chance(9, 10)).map(|k| (*k, 1000 + stamp * 10 + *k)).collect();
        if r.chance(1, 8) {
            let k = r.below(nkeys) as u64;
            if !v.iter().any(|(x, _)| *x == k) {
                v.push((k, 1000 + stamp * 10 + k));
            }
        }
        Resp::Ok(v)
    };
    for _ in 0..len {
        stamp += 1;
        let timers = sim.live_timers();
        let loads = sim.live_loads();
        let waiting = sim.live_waiters();
        let w = r.below(100);
        let s = if w < 40 || (timers.is_empty() && loads.is_empty() && w < 85) {
            let nk = if r.chance(1, 15) { 0 } else { 1 + r.below(4) };
            let ks: Vec<u64> = (0..nk).map(|_| r.below(nkeys) as u64).collect();
            let id = if r.chance(1, 25) && next_w > 0 { r.below(next_w as usize) as u64 } else { next_w };
            if id == next_w {
                next_w += 1;
            }
            Step::Request(id, ks)
        } else if w < 58 && !timers.is_empty() {
            Step::Fire(*r.pick(&timers))
        } else if w < 80 && !loads.is_empty() {
            let t = *r.pick(&loads);
            let keys = sim.ctl.lock().unwrap().calls[sim.task_call[&t]].keys.clone();
            Step::Done(t, rand_answer(r, &keys, stamp))
        } else if w < 87 && !waiting.is_empty() {
            Step::Cancel(*r.pick(&waiting))
        } else if w < 94 {
            Step::Feed((0..r.below(3)).map(|_| (r.below(nkeys) as u64, 500 + r.below(100) as u64)).collect())
        } else {
            // steps that name nothing live: must change nothing
            match r.below(4) {
                0 => Step::Fire(r.below(6) as u64),
                1 => Step::Done(r.below(6) as u64, Resp::Ok(vec![(0, 1)])),
                2 => Step::Cancel(r.below(6) as u64),
                _ => Step::Fire(99),
            }
        };
        sim.step(&s);
        steps.push(s);
    }
    if r.chance(3, 4) {
        // let every timer and task run
        for _ in 0..40 {
            let timers = sim.live_timers();
            let loads = sim.live_loads();
            if timers.is_empty() && loads.is_empty() {
                break;
            }
            stamp += 1;
            let s = if !timers.is_empty() && (loads.is_empty() || r.chance(1, 2)) {
                Step::Fire(*r.pick(&timers))
            } else {
                let t = *r.pick(&loads);
                let keys = sim.ctl.lock().unwrap().calls[sim.task_call[&t]].keys.clone();
                Step::Done(t, rand_answer(r, &keys, stamp))
            };
            sim.step(&s);
            steps.push(s);
        }
    }
    (cfg, steps)
}

fn main() {
    std::panic::set_hook(Box::new(|_| {}));
    let a = parse_args();
    // fork: Rng::new(s+1) is Rng::new(s) advanced by one draw
    let mut rng = Rng::new(a.seed).fork();
    let mut out = String::new();
    // ---- stream 1: every schedule of small configurations
    let mut smalls: Vec<Small> = vec![];
    let kinds = [Kind::No, Kind::Hash, Kind::Lru(1), Kind::Lru(2)];
    let req_sets: Vec<Vec<Vec<u64>>> = vec![
        vec![vec![0], vec![1], vec![2]],
        vec![vec![0], vec![0], vec![1]],
        vec![vec![0, 1], vec![1, 2], vec![0]],
        vec![vec![0, 1, 2], vec![0], vec![1, 1]],
        vec![vec![0], vec![0, 1, 2], vec![2]],
        vec![vec![2, 1], vec![2], vec![0, 1]],
        vec![vec![0, 0], vec![1], vec![0, 2]],
        vec![vec![1], vec![1, 2]],
        vec![vec![0, 1, 2], vec![0, 1, 2]],
    ];
    for kind in kinds {
        for max in 1..=3usize {
            for dis in [false, true] {
                for (ri, reqs) in req_sets.iter().enumerate() {
                    for variant in 0..4 {
                        // 0: plain, 1: pre-fed cache, 2: first call fails / a key is not found, 3: one cancelled waiter
                        let sm = Small {
                            cfg: Cfg { kind, max, dis, dis_global: (ri + variant) % 2 == 0 },
                            feed: if variant == 1 { vec![(0, 900), (1, 901)] } else { vec![] },
                            reqs: reqs.clone(),
                            fail_call: if variant == 2 { Some(ri % 2) } else { None },
                            omit_key: if variant == 2 { Some(1) } else { None },
                            cancels: if variant == 3 { 1 } else { 0 },
                        };
                        smalls.push(sm);
                    }
                }
            }
        }
    }
    rng.shuffle(&mut smalls);
    let exh_budget = a.n * 3 / 5;
    let per_cfg = 60usize.max(a.n / 40);
    let mut count = 0usize;
    for sm in &smalls {
        if count >= exh_budget {
            break;
        }
        let mut prefix = vec![];
        if !sm.feed.is_empty() {
            prefix.push(Step::Feed(sm.feed.clone()));
        }
        let limit = (count + per_cfg).min(exh_budget);
        explore(sm, &mut prefix, 0, 0, &mut out, &mut count, limit);
    }
    // ---- stream 2: random histories
    let mut rcount = 0;
    while count + rcount < a.n {
        let (cfg, steps) = random_history(&mut rng);
        emit(&mut out, "RND", cfg, &steps);
        rcount += 1;
    }
    std::fs::write(format!("{}/c28.cases", a.out), out).unwrap();
}

//! C20 correspondence: generated schemas with random object- and field-level
//! cache hints (injected registry) plus one derive-built schema; generated
//! documents through object, interface and union fields; prints, per case, the
//! registry *as dumped from the real Registry*, the parsed document and the
//! cache policy the real library attached to the response.
use std::fmt::Write as _;
use std::sync::{Arc, Mutex};

use agv_harness::genschema::*;
use agv_harness::*;
use async_graphql::registry::{MetaType, MetaTypeName, Registry};
use async_graphql::*;

fn g_cc(c: &CacheControl) -> String {
    format!("{{| cc_pub := {}; cc_age := {} |}}", g_bool(c.public), g_z(c.max_age as i128))
}

fn dump_registry(it: &mut Interner, r: &Registry) -> String {
    let fields = |it: &mut Interner, fs: &indexmap::IndexMap<String, async_graphql::registry::MetaField>| {
        g_list(fs.iter(), |(k, f)| {
            format!(
                "({}, {{| mf_ty := {}; mf_cc := {} |}})",
                it.n(k),
                it.n(MetaTypeName::concrete_typename(&f.ty)),
                g_cc(&f.cache_control)
            )
        })
    };
    let types = g_list(r.types.iter(), |(k, t)| {
        let body = match t {
            MetaType::Object { cache_control, fields: fs, .. } => {
                format!("(MObject {} {})", g_cc(cache_control), fields(it, fs))
            }
            MetaType::Interface { fields: fs, possible_types, .. } => {
                format!("(MInterface {} {})", fields(it, fs), g_list(possible_types.iter(), |p| it.n(p)))
            }
            MetaType::Union { possible_types, .. } => {
                format!("(MUnion {})", g_list(possible_types.iter(), |p| it.n(p)))
            }
            _ => "MOther".to_string(),
        };
        format!("({}, {})", it.n(k), body)
    });
    format!(
        "{{| s_types := {}; s_query := {}; s_mutation := {}; s_subscription := {} |}}",
        types,
        it.n(&r.query_type),
        g_opt(r.mutation_type.as_ref(), |m| it.n(m)),
        g_opt(r.subscription_type.as_ref(), |m| it.n(m))
    )
}

fn rand_cc(r: &mut Rng, plain: u64) -> CacheControl {
    if r.chance(plain, 10) {
        return CacheControl::default();
    }
    let ages = [-1, 0, 0, 1, 5, 10, 30, 60, 300, 3600, i32::MAX];
    CacheControl { public: r.chance(6, 10), max_age: *r.pick(&ages) }
}

fn gen_schema(r: &mut Rng) -> SchemaDesc {
    let nobj = 2 + r.below(4);
    let nint = r.below(3);
    let nuni = r.below(3);
    let objs: Vec<String> = (0..nobj).map(|i| format!("O{i}")).collect();
    let ints: Vec<String> = (0..nint).map(|i| format!("I{i}")).collect();
    let unis: Vec<String> = (0..nuni).map(|i| format!("U{i}")).collect();
    let mut all_named: Vec<String> = vec!["Int".into(), "String".into()];
    all_named.extend(objs.iter().cloned());
    all_named.extend(ints.iter().cloned());
    all_named.extend(unis.iter().cloned());
    let wrap = |r: &mut Rng, n: &str| -> String {
        match r.below(6) {
            0 => format!("{n}!"),
            1 => format!("[{n}]"),
            2 => format!("[{n}!]!"),
            _ => n.to_string(),
        }
    };
    // interface fields first, so implementors can include them
    let mut idesc: Vec<(String, Vec<FieldDesc>, Vec<String>)> = vec![];
    for (k, i) in ints.iter().enumerate() {
        let nf = 1 + r.below(2);
        let fields = (0..nf)
            .map(|j| {
                let t = r.pick(&all_named).clone();
                FieldDesc { name: format!("i{k}f{j}"), ty: wrap(r, &t), cc: rand_cc(r, 7), ..Default::default() }
            })
            .collect();
        idesc.push((i.clone(), fields, vec![]));
    }
    let mut types = vec![];
    for (k, o) in objs.iter().enumerate() {
        let nf = 1 + r.below(4);
        let mut fields: Vec<FieldDesc> = (0..nf)
            .map(|j| {
                let t = if k == 0 && j == 0 { "Int".to_string() } else { r.pick(&all_named).clone() };
                FieldDesc { name: format!("f{j}"), ty: wrap(r, &t), cc: rand_cc(r, 6), ..Default::default() }
            })
            .collect();
        let mut implements = vec![];
        for (iname, ifields, possible) in idesc.iter_mut() {
            if r.chance(1, 2) {
                implements.push(iname.clone());
                possible.push(o.clone());
                for f in ifields.iter() {
                    // the object's own hint for an interface field may differ from the interface's
                    let cc = if r.chance(1, 2) { f.cc } else { rand_cc(r, 5) };
                    fields.push(FieldDesc { name: f.name.clone(), ty: f.ty.clone(), cc, ..Default::default() });
                }
            }
        }
        types.push(TypeDesc::Object { name: o.clone(), cc: rand_cc(r, 4), fields, implements });
    }
    for (name, fields, possible) in idesc {
        types.push(TypeDesc::Interface { name, fields, possible });
    }
    for u in unis.iter() {
        let mut possible: Vec<String> = objs.iter().filter(|_| r.chance(1, 2)).cloned().collect();
        if possible.is_empty() {
            possible.push(objs[r.below(objs.len())].clone());
        }
        types.push(TypeDesc::Union { name: u.clone(), possible });
    }
    SchemaDesc { types, query: "O0".into(), mutation: if r.chance(1, 3) && nobj > 1 { Some("O1".into()) } else { None } }
}

struct DocGen<'a> {
    d: &'a SchemaDesc,
    r: Rng,
    frags: Vec<(String, String, String)>, // name, cond, body
    wild: bool,                            // allow spec-invalid constructs (fast mode only)
}

impl DocGen<'_> {
    fn conds_for(&self, ty: &str) -> Vec<String> {
        // type conditions that can apply to a value of static type `ty`
        let mut v = vec![ty.to_string()];
        match self.d.get(ty) {
            Some(TypeDesc::Object { implements, .. }) => {
                v.extend(implements.iter().cloned());
                for t in &self.d.types {
                    if let TypeDesc::Union { name, possible } = t
                        && possible.iter().any(|p| p == ty)
                    {
                        v.push(name.clone());
                    }
                }
            }
            Some(TypeDesc::Interface { possible, .. }) | Some(TypeDesc::Union { possible, .. }) => {
                v.extend(possible.iter().cloned());
            }
            None => {}
        }
        v
    }

    fn sels(&mut self, ty: &str, depth: usize) -> String {
        let mut out = String::from("{");
        let n = 1 + self.r.below(3);
        let fields: Vec<FieldDesc> = match self.d.get(ty) {
            Some(TypeDesc::Object { fields, .. }) | Some(TypeDesc::Interface { fields, .. }) => fields.clone(),
            _ => vec![],
        };
        let mut emitted = 0;
        for _ in 0..n {
            let k = self.r.below(10);
            if k < 5 && !fields.is_empty() {
                let f = self.r.pick(&fields).clone();
                let base = MetaTypeName::concrete_typename(&f.ty).to_string();
                let alias = if self.r.chance(1, 6) { format!("a{}: ", self.r.below(3)) } else { String::new() };
                if self.d.get(&base).is_some() {
                    if depth == 0 {
                        continue;
                    }
                    let sub = self.sels(&base, depth - 1);
                    write!(out, " {alias}{} {sub}", f.name).unwrap();
                } else {
                    write!(out, " {alias}{}", f.name).unwrap();
                }
                emitted += 1;
            } else if k == 5 {
                out.push_str(" __typename");
                emitted += 1;
            } else if k < 8 && depth > 0 {
                // inline fragment
                let conds = self.conds_for(ty);
                let c = if self.wild && self.r.chance(1, 8) {
                    self.d.types[self.r.below(self.d.types.len())].name().to_string()
                } else {
                    self.r.pick(&conds).clone()
                };
                if self.r.chance(1, 5) {
                    let sub = self.sels(ty, depth - 1);
                    write!(out, " ... {sub}").unwrap();
                } else {
                    let sub = self.sels(&c, depth - 1);
                    write!(out, " ... on {c} {sub}").unwrap();
                }
                emitted += 1;
            } else if depth > 0 {
                // named fragment
                let conds = self.conds_for(ty);
                let c = self.r.pick(&conds).clone();
                let reuse: Vec<String> = self.frags.iter().filter(|f| f.1 == c).map(|f| f.0.clone()).collect();
                if !reuse.is_empty() && self.r.chance(1, 3) {
                    write!(out, " ...{}", self.r.pick(&reuse)).unwrap();
                } else {
                    let name = format!("F{}", self.frags.len());
                    self.frags.push((name.clone(), c.clone(), String::new()));
                    let idx = self.frags.len() - 1;
                    let body = self.sels(&c, depth - 1);
                    self.frags[idx].2 = body;
                    write!(out, " ...{name}").unwrap();
                }
                emitted += 1;
            }
        }
        if self.wild && self.r.chance(1, 10) {
            out.push_str(" nosuchfield");
            emitted += 1;
        }
        if emitted == 0 {
            out.push_str(" __typename");
        }
        out.push_str(" }");
        out
    }

    fn document(&mut self) -> String {
        let mut s = String::new();
        let nops = if self.r.chance(1, 6) { 2 } else { 1 };
        for i in 0..nops {
            let mutation = self.d.mutation.is_some() && self.r.chance(1, 4);
            let root = if mutation { self.d.mutation.clone().unwrap() } else { self.d.query.clone() };
            let depth = 1 + self.r.below(4);
            let body = self.sels(&root, depth);
            let kw = if mutation { "mutation" } else { "query" };
            if nops == 1 && !mutation && self.r.chance(1, 2) {
                writeln!(s, "{body}").unwrap();
            } else {
                writeln!(s, "{kw} Op{i} {body}").unwrap();
            }
        }
        for (n, c, b) in &self.frags {
            writeln!(s, "fragment {n} on {c} {b}").unwrap();
        }
        s
    }
}

// ------------------------------------------------- derive-built fixed schema
mod fixed {
    use async_graphql::*;

    #[derive(SimpleObject)]
    #[graphql(cache_control(max_age = 10, private))]
    pub struct Dog {
        pub id: i32,
        #[graphql(cache_control(max_age = 5))]
        pub bark: String,
    }

    #[derive(SimpleObject)]
    #[graphql(cache_control(no_cache))]
    pub struct Cat {
        pub id: i32,
        pub meow: String,
    }

    #[derive(SimpleObject)]
    pub struct Fish {
        pub id: i32,
        #[graphql(cache_control(max_age = 100))]
        pub swim: String,
    }

    /// generic SimpleObject registered through `concrete(..)`: the derive has a separate
    /// code path for it (object-level and field-level hints must survive it)
    #[derive(SimpleObject)]
    #[graphql(concrete(name = "BoxedInt", params(i32)), concrete(name = "BoxedStr", params(String)))]
    #[graphql(cache_control(max_age = 7, private))]
    pub struct Boxed<T: OutputType> {
        #[graphql(cache_control(max_age = 3))]
        pub v: T,
        pub n: i32,
    }

    /// SimpleObject + ComplexObject
    #[derive(SimpleObject)]
    #[graphql(complex, cache_control(max_age = 20))]
    pub struct Bird {
        pub id: i32,
        #[graphql(cache_control(max_age = 8))]
        pub tweet: String,
    }

    #[ComplexObject]
    impl Bird {
        #[graphql(cache_control(max_age = 2, private))]
        async fn song(&self) -> String {
            "la".into()
        }
        async fn wings(&self) -> i32 {
            2
        }
    }

    #[derive(Interface)]
    #[graphql(field(name = "id", ty = "&i32"))]
    pub enum Pet {
        Dog(Dog),
        Cat(Cat),
        Fish(Fish),
    }

    #[derive(Union)]
    pub enum DogOrFish {
        Dog(Dog),
        Fish(Fish),
    }

    pub struct Query;

    #[Object(cache_control(max_age = 60))]
    impl Query {
        async fn probe(&self, ctx: &Context<'_>) -> bool {
            agv_harness::genschema::run_probe(ctx);
            true
        }
        #[graphql(cache_control(max_age = 30))]
        async fn v1(&self) -> i32 {
            1
        }
        #[graphql(cache_control(private))]
        async fn v2(&self) -> i32 {
            2
        }
        async fn dog(&self) -> Dog {
            Dog { id: 1, bark: "w".into() }
        }
        async fn fish(&self) -> Fish {
            Fish { id: 3, swim: "s".into() }
        }
        #[graphql(cache_control(max_age = 40))]
        async fn pet(&self) -> Pet {
            Pet::Dog(Dog { id: 1, bark: "w".into() })
        }
        async fn pets(&self) -> Vec<Pet> {
            vec![Pet::Cat(Cat { id: 2, meow: "m".into() }), Pet::Fish(Fish { id: 3, swim: "s".into() })]
        }
        async fn dof(&self) -> DogOrFish {
            DogOrFish::Fish(Fish { id: 3, swim: "s".into() })
        }
        async fn bi(&self) -> Boxed<i32> {
            Boxed { v: 1, n: 1 }
        }
        #[graphql(cache_control(max_age = 50))]
        async fn bs(&self) -> Boxed<String> {
            Boxed { v: "s".into(), n: 2 }
        }
        async fn bird(&self) -> Bird {
            Bird { id: 9, tweet: "t".into() }
        }
    }

    /// The hints as WRITTEN in the attributes above: (type, object-level policy, [(field, policy)]).
    /// Kept by hand next to the attributes; compared with the registry the macros produced.
    pub fn declared() -> Vec<(&'static str, (bool, i32), Vec<(&'static str, (bool, i32))>)> {
        let d = (true, 0);
        vec![
            ("Query", (true, 60), vec![("probe", d), ("v1", (true, 30)), ("v2", (false, 0)), ("dog", d), ("fish", d), ("pet", (true, 40)),
                                       ("pets", d), ("dof", d), ("bi", d), ("bs", (true, 50)), ("bird", d)]),
            ("Dog", (false, 10), vec![("id", d), ("bark", (true, 5))]),
            ("Cat", (true, -1), vec![("id", d), ("meow", d)]),
            ("Fish", d, vec![("id", d), ("swim", (true, 100))]),
            ("BoxedInt", (false, 7), vec![("v", (true, 3)), ("n", d)]),
            ("BoxedStr", (false, 7), vec![("v", (true, 3)), ("n", d)]),
            ("Bird", (true, 20), vec![("id", d), ("tweet", (true, 8)), ("song", (false, 2)), ("wings", d)]),
        ]
    }

    pub fn desc() -> agv_harness::genschema::SchemaDesc {
        use agv_harness::genschema::{FieldDesc as F, TypeDesc as T};
        let f = |n: &str, t: &str| F { name: n.into(), ty: t.into(), ..Default::default() };
        agv_harness::genschema::SchemaDesc {
            types: vec![
                T::Object {
                    name: "Query".into(),
                    cc: Default::default(),
                    fields: vec![f("v1", "Int!"), f("v2", "Int!"), f("dog", "Dog!"), f("fish", "Fish!"), f("pet", "Pet!"), f("pets", "[Pet!]!"), f("dof", "DogOrFish!"), f("bi", "BoxedInt!"), f("bs", "BoxedStr!"), f("bird", "Bird!")],
                    implements: vec![],
                },
                T::Object { name: "Dog".into(), cc: Default::default(), fields: vec![f("id", "Int!"), f("bark", "String!")], implements: vec!["Pet".into()] },
                T::Object { name: "Cat".into(), cc: Default::default(), fields: vec![f("id", "Int!"), f("meow", "String!")], implements: vec!["Pet".into()] },
                T::Object { name: "Fish".into(), cc: Default::default(), fields: vec![f("id", "Int!"), f("swim", "String!")], implements: vec!["Pet".into()] },
                T::Object { name: "BoxedInt".into(), cc: Default::default(), fields: vec![f("v", "Int!"), f("n", "Int!")], implements: vec![] },
                T::Object { name: "BoxedStr".into(), cc: Default::default(), fields: vec![f("v", "String!"), f("n", "Int!")], implements: vec![] },
                T::Object { name: "Bird".into(), cc: Default::default(), fields: vec![f("id", "Int!"), f("tweet", "String!"), f("song", "String!"), f("wings", "Int!")], implements: vec![] },
                T::Interface { name: "Pet".into(), fields: vec![f("id", "Int!")], possible: vec!["Dog".into(), "Cat".into(), "Fish".into()] },
                T::Union { name: "DogOrFish".into(), possible: vec!["Dog".into(), "Fish".into()] },
            ],
            query: "Query".into(),
            mutation: None,
        }
    }
}

fn jstr(s: &str) -> String {
    serde_json::to_string(s).unwrap()
}

fn run_doc<E: Executor>(schema: &E, doc: &str) -> (String, bool) {
    let mut req = Request::new(doc);
    if doc.contains("Op1") {
        req = req.operation_name("Op0");
    }
    let resp = block_on(schema.execute(req));
    // a response produced after validation carries the computed policy; a
    // rejected request carries errors and no data
    let rejected = resp.data == Value::Null && !resp.errors.is_empty() && resp.errors.iter().all(|e| e.path.is_empty());
    (g_cc(&resp.cache_control), rejected)
}

fn main() {
    let a = parse_args();
    let mut rng = Rng::new(a.seed);
    let mut out = String::new();
    let mut case_no = 0usize;
    let mut schema_no = 0usize;
    // laws: BatchResponse::cache_control folds CacheControl::merge
    {
        let ages = [-1, 0, 1, 2, 30, 60, i32::MAX, i32::MIN, -2];
        let mut all = vec![];
        for p in [true, false] {
            for a in ages {
                all.push(CacheControl { public: p, max_age: a });
            }
        }
        let mut triples = vec![];
        for x in &all {
            for y in &all {
                triples.push(vec![*x, *y]);
            }
        }
        for _ in 0..a.n.max(50) {
            let k = 1 + rng.below(4);
            triples.push((0..k).map(|_| CacheControl { public: rng.chance(1, 2), max_age: if rng.chance(1, 2) { *rng.pick(&ages) } else { rng.range(-3, 100) as i32 } }).collect());
        }
        for t in triples {
            let batch = BatchResponse::Batch(t.iter().map(|c| Response::new(Value::Null).cache_control(*c)).collect());
            let got = batch.cache_control();
            let header = got.value();
            let hclass = match &header {
                None => "(0%Z, false)".to_string(),
                Some(h) => {
                    let private = h.ends_with("private");
                    let k = if h.starts_with("max-age=") { 1 } else if h.starts_with("no-cache") { 2 } else { 0 };
                    format!("({}%Z, {})", k, g_bool(private))
                }
            };
            writeln!(
                out,
                "LAW\t({}, {}, {})\t{{\"text\":{},\"nontrivial\":{}}}",
                g_list(t.iter(), g_cc),
                g_cc(&got),
                hclass,
                jstr(&format!("{:?} -> {:?} {:?}", t, got, header)),
                t.len() > 1
            )
            .unwrap();
        }
    }
    // walks
    let mut it = Interner::new();
    while case_no < a.n {
        let use_fixed = schema_no % 5 == 4;
        let desc = if use_fixed { fixed::desc() } else { gen_schema(&mut rng) };
        let dumped: Arc<Mutex<Option<Registry>>> = Arc::new(Mutex::new(None));
        // The dump closure must produce the Gallina text itself (Registry is not Clone).
        let dumped_text: Arc<Mutex<Option<(String, Vec<String>)>>> = Arc::new(Mutex::new(None));
        let _ = dumped;
        let sname = format!("s{schema_no}");
        let docs_per_schema = 8;
        // The interner is global to the run so that names agree across defs and cases.
        let it_cell = Arc::new(Mutex::new(std::mem::take(&mut it)));
        {
            let it_cell = it_cell.clone();
            let dumped_text = dumped_text.clone();
            set_probe(move |r| {
                let mut it = it_cell.lock().unwrap();
                let g = dump_registry(&mut it, r);
                *dumped_text.lock().unwrap() = Some((g, vec![]));
            });
        }
        enum Sch {
            Gen(Schema<GenQuery, EmptyMutation, EmptySubscription>, Schema<GenQuery, EmptyMutation, EmptySubscription>),
            GenM(Schema<GenQuery, GenMutation, EmptySubscription>, Schema<GenQuery, GenMutation, EmptySubscription>),
            Fixed(Schema<fixed::Query, EmptyMutation, EmptySubscription>, Schema<fixed::Query, EmptyMutation, EmptySubscription>),
        }
        let sch = if use_fixed {
            Sch::Fixed(
                Schema::build(fixed::Query, EmptyMutation, EmptySubscription).finish(),
                Schema::build(fixed::Query, EmptyMutation, EmptySubscription).validation_mode(ValidationMode::Fast).finish(),
            )
        } else {
            set_current(desc.clone());
            if desc.mutation.is_some() {
                Sch::GenM(
                    Schema::build(gen_query(), gen_mutation(), EmptySubscription).finish(),
                    Schema::build(gen_query(), gen_mutation(), EmptySubscription).validation_mode(ValidationMode::Fast).finish(),
                )
            } else {
                Sch::Gen(
                    Schema::build(gen_query(), EmptyMutation, EmptySubscription).finish(),
                    Schema::build(gen_query(), EmptyMutation, EmptySubscription).validation_mode(ValidationMode::Fast).finish(),
                )
            }
        };
        // probe query
        let probe_q = if use_fixed { "{ probe }" } else { "{ f0 }" };
        match &sch {
            Sch::Gen(s, _) => { run_doc(s, probe_q); }
            Sch::GenM(s, _) => { run_doc(s, probe_q); }
            Sch::Fixed(s, _) => { run_doc(s, probe_q); }
        }
        it = std::mem::take(&mut *it_cell.lock().unwrap());
        let Some((gschema, _)) = dumped_text.lock().unwrap().take() else {
            eprintln!("probe did not run for schema {schema_no}");
            schema_no += 1;
            continue;
        };
        writeln!(out, "DEF\t{sname}\t{gschema}").unwrap();
        if use_fixed && schema_no == 4 {
            // declared attribute hints of the derive-built schema vs the registry the macros produced
            let cc = |p: (bool, i32)| g_cc(&CacheControl { public: p.0, max_age: p.1 });
            for (t, oc, fs) in fixed::declared().iter() {
                let decls = format!("[({}, {}, {})]", it.n(t), cc(*oc), g_list(fs.iter(), |(f, c)| format!("({}, {})", it.n(f), cc(*c))));
                writeln!(
                    out,
                    "DECL\t({sname}, {decls})\t{{\"uses\":[{}],\"text\":{},\"nontrivial\":true}}",
                    jstr(&sname),
                    jstr(&format!("derive-built type {t}: declared cache_control {oc:?} with field hints {fs:?} (public, max_age) vs the registry produced by the macros"))
                )
                .unwrap();
            }
        }
        for _ in 0..docs_per_schema {
            if case_no >= a.n {
                break;
            }
            let fast = rng.chance(1, 3);
            let mut dg = DocGen { d: &desc, r: rng.fork(), frags: vec![], wild: fast };
            let text = dg.document();
            let Ok(parsed) = async_graphql::parser::parse_query(&text) else {
                continue;
            };
            let (cc, rejected) = match (&sch, fast) {
                (Sch::Gen(s, _), false) => run_doc(s, &text),
                (Sch::Gen(_, s), true) => run_doc(s, &text),
                (Sch::GenM(s, _), false) => run_doc(s, &text),
                (Sch::GenM(_, s), true) => run_doc(s, &text),
                (Sch::Fixed(s, _), false) => run_doc(s, &text),
                (Sch::Fixed(_, s), true) => run_doc(s, &text),
            };
            let gdoc = g_document(&mut it, &parsed);
            let nontrivial = cc != "{| cc_pub := true; cc_age := (0)%Z |}";
            let meta = format!(
                "{{\"uses\":[{}],\"text\":{},\"impl\":{},\"nontrivial\":{}}}",
                jstr(&sname),
                jstr(&format!("[{}{}] {}", sname, if fast { " fast" } else { "" }, text.trim())),
                jstr(&cc),
                nontrivial
            );
            if rejected {
                writeln!(out, "REJ\t\t{meta}").unwrap();
            } else {
                writeln!(out, "CASE\t({sname}, {gdoc}, Ok {cc})\t{meta}").unwrap();
            }
            case_no += 1;
        }
        schema_no += 1;
    }
    // name table for readable replays
    writeln!(out, "NAMES\t\t{}", serde_json::to_string(&it.names).unwrap()).unwrap();
    std::fs::write(format!("{}/c20.cases", a.out), out).unwrap();
}

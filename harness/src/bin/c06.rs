//! C06 correspondence: a derive-built schema whose resolvers echo the typed
//! arguments they received.  Every case is a document `query(<vars>) { f(<args>) }`
//! plus request variables, run on the real library in strict or fast validation
//! mode.  Everything the model sees (argument literals, variable definitions,
//! defaults) is read back from the real parser's AST of the document text; the
//! signature descriptors are checked against the SDL the macros registered.
use std::cell::RefCell;
use std::fmt::Write as _;

use agv_harness::*;
use async_graphql::parser::types::{DocumentOperations, Selection};
use async_graphql::*;
use async_graphql_value::{ConstValue, Value as QValue};

// ------------------------------------------------------------ typed echo ---
#[derive(Clone, Debug, PartialEq)]
pub enum Tv {
    Null,
    Undef,
    Int(i64),
    Str(String),
    Bool(bool),
    Enum(String),
    List(Vec<Tv>),
    Obj(Vec<(String, Tv)>),
}

pub trait Echo {
    fn echo(&self) -> Tv;
}
impl Echo for i32 {
    fn echo(&self) -> Tv {
        Tv::Int(*self as i64)
    }
}
impl Echo for String {
    fn echo(&self) -> Tv {
        Tv::Str(self.clone())
    }
}
impl Echo for bool {
    fn echo(&self) -> Tv {
        Tv::Bool(*self)
    }
}
impl<T: Echo> Echo for Option<T> {
    fn echo(&self) -> Tv {
        match self {
            None => Tv::Null,
            Some(x) => x.echo(),
        }
    }
}
impl<T: Echo> Echo for MaybeUndefined<T> {
    fn echo(&self) -> Tv {
        match self {
            MaybeUndefined::Undefined => Tv::Undef,
            MaybeUndefined::Null => Tv::Null,
            MaybeUndefined::Value(x) => x.echo(),
        }
    }
}
impl<T: Echo> Echo for Vec<T> {
    fn echo(&self) -> Tv {
        Tv::List(self.iter().map(Echo::echo).collect())
    }
}

#[derive(Enum, Copy, Clone, Eq, PartialEq, Debug)]
pub enum Color {
    Red,
    Green,
    Blue,
}
impl Echo for Color {
    fn echo(&self) -> Tv {
        Tv::Enum(match self {
            Color::Red => "RED".into(),
            Color::Green => "GREEN".into(),
            Color::Blue => "BLUE".into(),
        })
    }
}

#[derive(InputObject, Debug)]
pub struct Nested {
    p: i32,
    #[graphql(default = 9)]
    q: i32,
    r: Option<String>,
}
impl Echo for Nested {
    fn echo(&self) -> Tv {
        Tv::Obj(vec![("p".into(), self.p.echo()), ("q".into(), self.q.echo()), ("r".into(), self.r.echo())])
    }
}

#[derive(InputObject, Debug)]
pub struct Inp {
    x: i32,
    #[graphql(default = 7)]
    y: Option<i32>,
    z: Option<Vec<Option<i32>>>,
    m: MaybeUndefined<i32>,
    n: Option<Nested>,
    #[graphql(default = 3)]
    d: i32,
    c: Option<Color>,
    #[graphql(default_with = "Some(Nested { p: 1, q: 2, r: None })")]
    nd: Option<Nested>,
}
impl Echo for Inp {
    fn echo(&self) -> Tv {
        Tv::Obj(vec![
            ("x".into(), self.x.echo()),
            ("y".into(), self.y.echo()),
            ("z".into(), self.z.echo()),
            ("m".into(), self.m.echo()),
            ("n".into(), self.n.echo()),
            ("d".into(), self.d.echo()),
            ("c".into(), self.c.echo()),
            ("nd".into(), self.nd.echo()),
        ])
    }
}

/// an input object with a required list field whose items are nullable
#[derive(InputObject, Debug)]
pub struct Inp2 {
    l: Vec<Option<i32>>,
    k: Option<i32>,
}
impl Echo for Inp2 {
    fn echo(&self) -> Tv {
        Tv::Obj(vec![("l".into(), self.l.echo()), ("k".into(), self.k.echo())])
    }
}

#[derive(OneofObject, Debug)]
pub enum One {
    I(i32),
    S(String),
    O(Nested),
    L(Vec<Option<i32>>),
    E(Color),
}
impl Echo for One {
    fn echo(&self) -> Tv {
        let (k, v) = match self {
            One::I(x) => ("i", x.echo()),
            One::S(x) => ("s", x.echo()),
            One::O(x) => ("o", x.echo()),
            One::L(x) => ("l", x.echo()),
            One::E(x) => ("e", x.echo()),
        };
        Tv::Obj(vec![(k.into(), v)])
    }
}

thread_local! {
    static LOG: RefCell<Vec<(String, Vec<(String, Tv)>)>> = const { RefCell::new(Vec::new()) };
}
fn log(field: &str, args: Vec<(&str, Tv)>) -> bool {
    LOG.with(|l| l.borrow_mut().push((field.to_string(), args.into_iter().map(|(k, v)| (k.to_string(), v)).collect())));
    true
}

pub struct Query;

#[Object]
impl Query {
    async fn i(&self, a: Option<i32>) -> bool {
        log("i", vec![("a", a.echo())])
    }
    async fn inn(&self, a: i32) -> bool {
        log("inn", vec![("a", a.echo())])
    }
    async fn s(&self, a: Option<String>) -> bool {
        log("s", vec![("a", a.echo())])
    }
    async fn b(&self, a: Option<bool>) -> bool {
        log("b", vec![("a", a.echo())])
    }
    async fn e(&self, a: Option<Color>) -> bool {
        log("e", vec![("a", a.echo())])
    }
    async fn enn(&self, a: Color) -> bool {
        log("enn", vec![("a", a.echo())])
    }
    async fn li(&self, a: Option<Vec<Option<i32>>>) -> bool {
        log("li", vec![("a", a.echo())])
    }
    async fn lnn(&self, a: Vec<i32>) -> bool {
        log("lnn", vec![("a", a.echo())])
    }
    async fn lln(&self, a: Vec<Option<i32>>) -> bool {
        log("lln", vec![("a", a.echo())])
    }
    async fn lnl(&self, a: Option<Vec<i32>>) -> bool {
        log("lnl", vec![("a", a.echo())])
    }
    async fn ll(&self, a: Option<Vec<Option<Vec<Option<i32>>>>>) -> bool {
        log("ll", vec![("a", a.echo())])
    }
    async fn llnn(&self, a: Vec<Vec<i32>>) -> bool {
        log("llnn", vec![("a", a.echo())])
    }
    async fn lle(&self, a: Option<Vec<Vec<Option<Color>>>>) -> bool {
        log("lle", vec![("a", a.echo())])
    }
    async fn mu(&self, a: MaybeUndefined<i32>) -> bool {
        log("mu", vec![("a", a.echo())])
    }
    async fn mul(&self, a: MaybeUndefined<Vec<i32>>) -> bool {
        log("mul", vec![("a", a.echo())])
    }
    async fn obj(&self, a: Option<Inp>) -> bool {
        log("obj", vec![("a", a.echo())])
    }
    async fn objnn(&self, a: Inp) -> bool {
        log("objnn", vec![("a", a.echo())])
    }
    async fn lobj(&self, a: Option<Vec<Nested>>) -> bool {
        log("lobj", vec![("a", a.echo())])
    }
    async fn obj2(&self, a: Option<Inp2>) -> bool {
        log("obj2", vec![("a", a.echo())])
    }
    async fn one(&self, a: Option<One>) -> bool {
        log("one", vec![("a", a.echo())])
    }
    async fn onenn(&self, a: One) -> bool {
        log("onenn", vec![("a", a.echo())])
    }
    async fn di(&self, #[graphql(default = 5)] a: i32) -> bool {
        log("di", vec![("a", a.echo())])
    }
    async fn dio(&self, #[graphql(default = 5)] a: Option<i32>) -> bool {
        log("dio", vec![("a", a.echo())])
    }
    async fn dl(&self, #[graphql(default_with = "vec![1, 2]")] a: Vec<i32>) -> bool {
        log("dl", vec![("a", a.echo())])
    }
    async fn de(&self, #[graphql(default_with = "Color::Green")] a: Color) -> bool {
        log("de", vec![("a", a.echo())])
    }
    async fn dobj(&self, #[graphql(default_with = "Some(Nested { p: 4, q: 5, r: Some(\"r\".to_string()) })")] a: Option<Nested>) -> bool {
        log("dobj", vec![("a", a.echo())])
    }
    async fn multi(&self, a: i32, #[graphql(default = 5)] b: i32, c: Option<Vec<i32>>, m: MaybeUndefined<String>) -> bool {
        log("multi", vec![("a", a.echo()), ("b", b.echo()), ("c", c.echo()), ("m", m.echo())])
    }
}

// ------------------------------------------------------- type descriptors ---
#[derive(Clone, Debug)]
pub enum Ty {
    Int,
    Str,
    Bool,
    Enum(&'static str, Vec<&'static str>),
    Obj(&'static str, Vec<Fld>),
    One(&'static str, Vec<Fld>),
    Vec(Box<Ty>),
    Opt(Box<Ty>),
    Maybe(Box<Ty>),
}
#[derive(Clone, Debug)]
pub struct Fld {
    pub name: &'static str,
    pub ty: Ty,
    /// (the default as published in the schema, the typed Rust default)
    pub default: Option<(Xv, Tv)>,
}

/// values of documents / variables / defaults
#[derive(Clone, Debug, PartialEq)]
pub enum Xv {
    Null,
    Int(i64),
    Str(String),
    Bool(bool),
    Enum(String),
    List(Vec<Xv>),
    Obj(Vec<(String, Xv)>),
    Var(String),
}

pub fn opt(t: Ty) -> Ty {
    Ty::Opt(Box::new(t))
}
pub fn vec_(t: Ty) -> Ty {
    Ty::Vec(Box::new(t))
}
pub fn maybe(t: Ty) -> Ty {
    Ty::Maybe(Box::new(t))
}
pub fn fld(name: &'static str, ty: Ty) -> Fld {
    Fld { name, ty, default: None }
}
pub fn fldd(name: &'static str, ty: Ty, d: Xv, t: Tv) -> Fld {
    Fld { name, ty, default: Some((d, t)) }
}
pub fn color() -> Ty {
    Ty::Enum("Color", vec!["RED", "GREEN", "BLUE"])
}
pub fn nested() -> Ty {
    Ty::Obj("Nested", vec![fld("p", Ty::Int), fldd("q", Ty::Int, Xv::Int(9), Tv::Int(9)), fld("r", opt(Ty::Str))])
}
pub fn inp() -> Ty {
    let nd_c = Xv::Obj(vec![("p".into(), Xv::Int(1)), ("q".into(), Xv::Int(2)), ("r".into(), Xv::Null)]);
    let nd_t = Tv::Obj(vec![("p".into(), Tv::Int(1)), ("q".into(), Tv::Int(2)), ("r".into(), Tv::Null)]);
    Ty::Obj(
        "Inp",
        vec![
            fld("x", Ty::Int),
            fldd("y", opt(Ty::Int), Xv::Int(7), Tv::Int(7)),
            fld("z", opt(vec_(opt(Ty::Int)))),
            fld("m", maybe(Ty::Int)),
            fld("n", opt(nested())),
            fldd("d", Ty::Int, Xv::Int(3), Tv::Int(3)),
            fld("c", opt(color())),
            fldd("nd", opt(nested()), nd_c, nd_t),
        ],
    )
}
pub fn inp2() -> Ty {
    Ty::Obj("Inp2", vec![fld("l", vec_(opt(Ty::Int))), fld("k", opt(Ty::Int))])
}
pub fn one() -> Ty {
    Ty::One("One", vec![fld("i", Ty::Int), fld("s", Ty::Str), fld("o", nested()), fld("l", vec_(opt(Ty::Int))), fld("e", color())])
}

impl Ty {
    pub fn nullable(&self) -> bool {
        matches!(self, Ty::Opt(_) | Ty::Maybe(_))
    }
    pub fn gql_inner(&self) -> String {
        match self {
            Ty::Int => "Int".into(),
            Ty::Str => "String".into(),
            Ty::Bool => "Boolean".into(),
            Ty::Enum(n, _) | Ty::Obj(n, _) | Ty::One(n, _) => n.to_string(),
            Ty::Vec(t) => format!("[{}]", t.gql()),
            Ty::Opt(t) | Ty::Maybe(t) => t.gql_inner(),
        }
    }
    pub fn gql(&self) -> String {
        if self.nullable() { self.gql_inner() } else { format!("{}!", self.gql_inner()) }
    }
    pub fn strip(&self) -> &Ty {
        match self {
            Ty::Opt(t) | Ty::Maybe(t) => t.strip(),
            t => t,
        }
    }
}

pub type Sig = Vec<Fld>;

pub fn sigs() -> Vec<(&'static str, Sig)> {
    let a = |t: Ty| vec![fld("a", t)];
    let r_obj = Xv::Obj(vec![("p".into(), Xv::Int(4)), ("q".into(), Xv::Int(5)), ("r".into(), Xv::Str("r".into()))]);
    let r_tv = Tv::Obj(vec![("p".into(), Tv::Int(4)), ("q".into(), Tv::Int(5)), ("r".into(), Tv::Str("r".into()))]);
    vec![
        ("i", a(opt(Ty::Int))),
        ("inn", a(Ty::Int)),
        ("s", a(opt(Ty::Str))),
        ("b", a(opt(Ty::Bool))),
        ("e", a(opt(color()))),
        ("enn", a(color())),
        ("li", a(opt(vec_(opt(Ty::Int))))),
        ("lnn", a(vec_(Ty::Int))),
        ("lln", a(vec_(opt(Ty::Int)))),
        ("lnl", a(opt(vec_(Ty::Int)))),
        ("ll", a(opt(vec_(opt(vec_(opt(Ty::Int))))))),
        ("llnn", a(vec_(vec_(Ty::Int)))),
        ("lle", a(opt(vec_(vec_(opt(color())))))),
        ("mu", a(maybe(Ty::Int))),
        ("mul", a(maybe(vec_(Ty::Int)))),
        ("obj", a(opt(inp()))),
        ("objnn", a(inp())),
        ("lobj", a(opt(vec_(nested())))),
        ("obj2", a(opt(inp2()))),
        ("one", a(opt(one()))),
        ("onenn", a(one())),
        ("di", vec![fldd("a", Ty::Int, Xv::Int(5), Tv::Int(5))]),
        ("dio", vec![fldd("a", opt(Ty::Int), Xv::Int(5), Tv::Int(5))]),
        ("dl", vec![fldd("a", vec_(Ty::Int), Xv::List(vec![Xv::Int(1), Xv::Int(2)]), Tv::List(vec![Tv::Int(1), Tv::Int(2)]))]),
        ("de", vec![fldd("a", color(), Xv::Enum("GREEN".into()), Tv::Enum("GREEN".into()))]),
        ("dobj", vec![fldd("a", opt(nested()), r_obj, r_tv)]),
        (
            "multi",
            vec![fld("a", Ty::Int), fldd("b", Ty::Int, Xv::Int(5), Tv::Int(5)), fld("c", opt(vec_(Ty::Int))), fld("m", maybe(Ty::Str))],
        ),
    ]
}

// ------------------------------------------------------------- printers ---
pub fn lit_text(v: &Xv) -> String {
    match v {
        Xv::Null => "null".into(),
        Xv::Int(z) => z.to_string(),
        Xv::Str(s) => serde_json::to_string(s).unwrap(),
        Xv::Bool(b) => b.to_string(),
        Xv::Enum(n) => n.clone(),
        Xv::Var(n) => format!("${n}"),
        Xv::List(l) => format!("[{}]", l.iter().map(lit_text).collect::<Vec<_>>().join(", ")),
        Xv::Obj(kv) => format!("{{{}}}", kv.iter().map(|(k, v)| format!("{k}: {}", lit_text(v))).collect::<Vec<_>>().join(", ")),
    }
}
pub fn to_json(v: &Xv) -> serde_json::Value {
    match v {
        Xv::Null | Xv::Var(_) => serde_json::Value::Null,
        Xv::Int(z) => serde_json::json!(z),
        Xv::Str(s) | Xv::Enum(s) => serde_json::json!(s),
        Xv::Bool(b) => serde_json::json!(b),
        Xv::List(l) => serde_json::Value::Array(l.iter().map(to_json).collect()),
        Xv::Obj(kv) => serde_json::Value::Object(kv.iter().map(|(k, v)| (k.clone(), to_json(v))).collect()),
    }
}
fn num_i64(n: &async_graphql_value::Number) -> Option<i64> {
    n.as_i64()
}
/// document literal -> Gallina [ival]; None when the value uses a construct outside the model (floats, binary)
pub fn g_ival(it: &mut Interner, v: &QValue) -> Option<String> {
    Some(match v {
        QValue::Variable(n) => format!("(IVar {})", it.n(n)),
        QValue::Null => "INull".into(),
        QValue::Number(n) => format!("(IInt {})", g_z(num_i64(n)? as i128)),
        QValue::String(s) => format!("(IStr {})", it.n(s)),
        QValue::Boolean(b) => format!("(IBool {})", g_bool(*b)),
        QValue::Binary(_) => return None,
        QValue::Enum(n) => format!("(IEnum {})", it.n(n)),
        QValue::List(l) => {
            let mut xs = vec![];
            for x in l {
                xs.push(g_ival(it, x)?);
            }
            format!("(IList [{}])", xs.join("; "))
        }
        QValue::Object(m) => {
            let mut xs = vec![];
            for (k, x) in m {
                xs.push(format!("({}, {})", it.n(k), g_ival(it, x)?));
            }
            format!("(IObj [{}])", xs.join("; "))
        }
    })
}
/// const value -> Gallina [xv]; `json` marks strings that arrived as JSON variable values
pub fn g_xv_const(it: &mut Interner, v: &ConstValue, json: bool) -> Option<String> {
    Some(match v {
        ConstValue::Null => "XNull".into(),
        ConstValue::Number(n) => format!("(XInt {})", g_z(num_i64(n)? as i128)),
        ConstValue::String(s) => format!("(XStr {} {})", g_bool(json), it.n(s)),
        ConstValue::Boolean(b) => format!("(XBool {})", g_bool(*b)),
        ConstValue::Binary(_) => return None,
        ConstValue::Enum(n) => format!("(XEnum {})", it.n(n)),
        ConstValue::List(l) => {
            let mut xs = vec![];
            for x in l {
                xs.push(g_xv_const(it, x, json)?);
            }
            format!("(XList [{}])", xs.join("; "))
        }
        ConstValue::Object(m) => {
            let mut xs = vec![];
            for (k, x) in m {
                xs.push(format!("({}, {})", it.n(k), g_xv_const(it, x, json)?));
            }
            format!("(XObj [{}])", xs.join("; "))
        }
    })
}
pub fn g_xv(it: &mut Interner, v: &Xv, json: bool) -> String {
    match v {
        Xv::Null | Xv::Var(_) => "XNull".into(),
        Xv::Int(z) => format!("(XInt {})", g_z(*z as i128)),
        Xv::Str(s) => format!("(XStr {} {})", g_bool(json), it.n(s)),
        Xv::Bool(b) => format!("(XBool {})", g_bool(*b)),
        Xv::Enum(n) => format!("(XEnum {})", it.n(n)),
        Xv::List(l) => format!("(XList {})", g_list(l.iter(), |x| g_xv(it, x, json))),
        Xv::Obj(kv) => format!("(XObj {})", g_list(kv.iter(), |(k, x)| format!("({}, {})", it.n(k), g_xv(it, x, json)))),
    }
}
pub fn g_tv(it: &mut Interner, v: &Tv) -> String {
    match v {
        Tv::Null => "TNull".into(),
        Tv::Undef => "TUndef".into(),
        Tv::Int(z) => format!("(TInt {})", g_z(*z as i128)),
        Tv::Str(s) => format!("(TStr {})", it.n(s)),
        Tv::Bool(b) => format!("(TBool {})", g_bool(*b)),
        Tv::Enum(n) => format!("(TEnum {})", it.n(n)),
        Tv::List(l) => format!("(TList {})", g_list(l.iter(), |x| g_tv(it, x))),
        Tv::Obj(kv) => format!("(TObj {})", g_list(kv.iter(), |(k, x)| format!("({}, {})", it.n(k), g_tv(it, x)))),
    }
}
pub fn g_flds(it: &mut Interner, fs: &[Fld]) -> String {
    match fs.split_first() {
        None => "FNil".into(),
        Some((f, rest)) => {
            let d = g_opt(f.default.as_ref(), |(c, t)| format!("({}, {})", g_xv(it, c, false), g_tv(it, t)));
            let t = g_ty(it, &f.ty);
            let r = g_flds(it, rest);
            format!("(FCons {} {} {} {})", it.n(f.name), t, d, r)
        }
    }
}
pub fn g_ty(it: &mut Interner, t: &Ty) -> String {
    match t {
        Ty::Int => "RInt".into(),
        Ty::Str => "RStr".into(),
        Ty::Bool => "RBool".into(),
        Ty::Enum(n, vals) => format!("(REnum {} {})", it.n(n), g_list(vals.iter(), |v| it.n(v))),
        Ty::Obj(n, fs) => format!("(RObj {} {})", it.n(n), g_flds(it, fs)),
        Ty::One(n, fs) => format!("(ROne {} {})", it.n(n), g_flds(it, fs)),
        Ty::Vec(t) => format!("(RVec {})", g_ty(it, t)),
        Ty::Opt(t) => format!("(ROpt {})", g_ty(it, t)),
        Ty::Maybe(t) => format!("(RMaybe {})", g_ty(it, t)),
    }
}

/// a GraphQL type text over the named types of this schema -> descriptor (variables are never MaybeUndefined)
pub fn parse_ty(s: &str) -> Option<Ty> {
    let s = s.trim();
    if let Some(inner) = s.strip_suffix('!') {
        return parse_ty_nn(inner);
    }
    Some(opt(parse_ty_nn(s)?))
}
pub fn parse_ty_nn(s: &str) -> Option<Ty> {
    if let Some(inner) = s.strip_prefix('[') {
        let inner = inner.strip_suffix(']')?;
        return Some(vec_(parse_ty(inner)?));
    }
    Some(match s {
        "Int" => Ty::Int,
        "String" => Ty::Str,
        "Boolean" => Ty::Bool,
        "Color" => color(),
        "Nested" => nested(),
        "Inp" => inp(),
        "Inp2" => inp2(),
        "One" => one(),
        _ => return None,
    })
}

// ------------------------------------------------- descriptor vs registry ---
pub fn check_descriptors(sdl: &str) -> Result<(), String> {
    let dflt = |f: &Fld| match &f.default {
        Some((c, _)) => format!(" = {}", lit_text(c)),
        None => String::new(),
    };
    for (name, sig) in sigs() {
        let args = sig.iter().map(|f| format!("{}: {}{}", f.name, f.ty.gql(), dflt(f))).collect::<Vec<_>>().join(", ");
        let want = format!("\t{name}({args}): Boolean!");
        if !sdl.contains(&want) {
            return Err(format!("signature not registered as described: {want}"));
        }
    }
    for t in [nested(), inp(), inp2(), one()] {
        let (n, fs, oneof) = match &t {
            Ty::Obj(n, fs) => (*n, fs.clone(), false),
            Ty::One(n, fs) => (*n, fs.clone(), true),
            _ => unreachable!(),
        };
        let head = if oneof { format!("input {n} @oneOf {{") } else { format!("input {n} {{") };
        let Some(start) = sdl.find(&head) else {
            return Err(format!("input type not registered: {head}"));
        };
        let block = &sdl[start..start + sdl[start..].find("\n}").unwrap_or(0)];
        let lines: Vec<&str> = block.lines().skip(1).map(str::trim).filter(|l| !l.is_empty()).collect();
        let want: Vec<String> = fs
            .iter()
            .map(|f| {
                // members of a oneOf object are registered nullable
                let ty = if oneof { f.ty.gql_inner() } else { f.ty.gql() };
                format!("{}: {}{}", f.name, ty, dflt(f))
            })
            .collect();
        if lines != want.iter().map(String::as_str).collect::<Vec<_>>() {
            return Err(format!("input type {n} registered as {lines:?}, described as {want:?}"));
        }
    }
    Ok(())
}

// ------------------------------------------------------------ generator ---
struct VarDef {
    name: String,
    ty: String,
    default: Option<Xv>,
    supplied: Option<Xv>,
}
struct Gen {
    r: Rng,
    vars: Vec<VarDef>,
    allow_vars: bool,
    json: bool,
    p_bad: u64, // per-mille probability of a deliberately wrong shape
}

impl Gen {
    fn bad(&mut self) -> bool {
        self.r.chance(self.p_bad, 1000)
    }
    fn junk(&mut self) -> Xv {
        match self.r.below(8) {
            0 => Xv::Null,
            1 => Xv::Int(self.r.range(-3, 40)),
            2 => Xv::Str("x".into()),
            3 => Xv::Bool(true),
            4 => {
                if self.json {
                    Xv::Str("RED".into())
                } else {
                    Xv::Enum("RED".into())
                }
            }
            5 => Xv::List(vec![]),
            6 => Xv::Obj(vec![]),
            _ => Xv::Str("GREEN".into()),
        }
    }
    fn var_for(&mut self, t: &Ty) -> Xv {
        // declared type: usually the position's own type, sometimes a variant
        let mut decl = t.clone();
        let k = self.r.below(20);
        if k < 3 {
            decl = if t.nullable() { t.strip().clone() } else { opt(t.clone()) };
        } else if k == 3 {
            decl = self.r.pick(&[opt(Ty::Int), opt(Ty::Str), vec_(opt(Ty::Int)), opt(color()), opt(nested()), opt(vec_(Ty::Int))]).clone();
        } else if k == 4 {
            // flip the nullability of list items
            if let Ty::Vec(inner) = t.strip() {
                let flipped = if inner.nullable() { inner.strip().clone() } else { opt((**inner).clone()) };
                decl = if t.nullable() { opt(vec_(flipped)) } else { vec_(flipped) };
            }
        }
        let name = format!("v{}", self.vars.len());
        let mut sub = Gen { r: self.r.fork(), vars: vec![], allow_vars: false, json: true, p_bad: self.p_bad };
        let supplied = match self.r.below(10) {
            0..=5 => Some(sub.val(&decl)),
            6 => Some(Xv::Null),
            _ => None,
        };
        sub.json = false;
        // the value is generated for the position's type or the declared type
        let default = if self.r.chance(3, 10) {
            Some(if self.r.chance(1, 8) { Xv::Null } else { sub.val(decl.strip()) })
        } else {
            None
        };
        self.vars.push(VarDef { name: name.clone(), ty: decl.gql(), default, supplied });
        Xv::Var(name)
    }
    fn val(&mut self, t: &Ty) -> Xv {
        if self.allow_vars && self.r.chance(14, 100) {
            return self.var_for(t);
        }
        if self.bad() {
            return self.junk();
        }
        match t {
            Ty::Opt(i) | Ty::Maybe(i) => {
                if self.r.chance(15, 100) {
                    Xv::Null
                } else {
                    self.val(i)
                }
            }
            Ty::Int => {
                if self.r.chance(1, 12) {
                    self.r.pick(&[Xv::Int(2147483647), Xv::Int(2147483648), Xv::Int(-2147483648), Xv::Int(-2147483649), Xv::Int(9007199254740993)]).clone()
                } else {
                    Xv::Int(self.r.range(-5, 60))
                }
            }
            Ty::Str => Xv::Str(self.r.pick(&["", "a", "RED", "x y"]).to_string()),
            Ty::Bool => Xv::Bool(self.r.chance(1, 2)),
            Ty::Enum(_, vals) => {
                let v = self.r.pick(vals).to_string();
                let k = self.r.below(12);
                if k == 0 {
                    if self.json { Xv::Str("PURPLE".into()) } else { Xv::Enum("PURPLE".into()) }
                } else if self.json || k == 1 {
                    Xv::Str(v)
                } else {
                    Xv::Enum(v)
                }
            }
            Ty::Vec(i) => match self.r.below(10) {
                0 => self.val(i), // a single value where a list is expected
                1 if self.p_bad > 0 => Xv::Null,
                _ => {
                    let n = self.r.below(4);
                    Xv::List((0..n).map(|_| self.val(i)).collect())
                }
            },
            Ty::Obj(_, fs) => {
                let mut kv = vec![];
                for f in fs {
                    let required = !f.ty.nullable() && f.default.is_none();
                    let present = if required { !self.r.chance(self.p_bad.min(60), 1000) } else { self.r.chance(1, 2) };
                    if present {
                        kv.push((f.name.to_string(), self.val(&f.ty)));
                    }
                }
                if self.bad() {
                    kv.push(("bogus".into(), Xv::Int(1)));
                }
                if self.r.chance(1, 6) {
                    self.r.shuffle(&mut kv);
                }
                Xv::Obj(kv)
            }
            Ty::One(_, fs) => {
                let k = match self.r.below(12) {
                    0 if self.p_bad > 0 => 0,
                    1 | 2 if self.p_bad > 0 => 2,
                    _ => 1,
                };
                let mut idx: Vec<usize> = (0..fs.len()).collect();
                self.r.shuffle(&mut idx);
                let mut kv = vec![];
                for &i in idx.iter().take(k) {
                    let v = if self.p_bad > 0 && self.r.chance(1, 10) { Xv::Null } else { self.val(&fs[i].ty) };
                    kv.push((fs[i].name.to_string(), v));
                }
                Xv::Obj(kv)
            }
        }
    }
}

pub struct Case {
    pub field: String,
    pub doc: String,
    pub vars: serde_json::Value,
    pub strict: bool,
}

pub fn gen_case(r: &mut Rng, all: &[(&'static str, Sig)]) -> Case {
    let (fname, sig) = r.pick(all).clone();
    let p_bad = *r.pick(&[0u64, 0, 40, 90, 200]);
    let mut g = Gen { r: r.fork(), vars: vec![], allow_vars: true, json: false, p_bad };
    let mut args = vec![];
    for f in &sig {
        let required = !f.ty.nullable() && f.default.is_none();
        let present = if required { !g.r.chance(1, 25) } else { g.r.chance(7, 10) };
        if !present {
            continue;
        }
        // whole-argument variable more often than nested ones
        let v = if g.r.chance(3, 10) { g.var_for(&f.ty) } else { g.val(&f.ty) };
        args.push(format!("{}: {}", f.name, lit_text(&v)));
    }
    if g.r.chance(1, 60) {
        args.push("zz: 1".into());
    }
    let mut vdefs = vec![];
    let mut vars = serde_json::Map::new();
    for v in &g.vars {
        let d = v.default.as_ref().map(|d| format!(" = {}", lit_text(d))).unwrap_or_default();
        vdefs.push(format!("${}: {}{}", v.name, v.ty, d));
        if let Some(s) = &v.supplied {
            vars.insert(v.name.clone(), to_json(s));
        }
    }
    // occasionally leave a used variable undefined
    if !vdefs.is_empty() && g.r.chance(1, 50) {
        vdefs.pop();
    }
    let head = if vdefs.is_empty() { String::new() } else { format!("query({}) ", vdefs.join(", ")) };
    let call = if args.is_empty() { fname.to_string() } else { format!("{fname}({})", args.join(", ")) };
    Case { field: fname.to_string(), doc: format!("{head}{{ {call} }}"), vars: serde_json::Value::Object(vars), strict: r.chance(1, 2) }
}

pub fn corpus() -> Vec<Case> {
    let mut v = vec![];
    let mut both = |field: &str, doc: &str, vars: &str| {
        for strict in [true, false] {
            v.push(Case { field: field.into(), doc: doc.into(), vars: serde_json::from_str(vars).unwrap(), strict });
        }
    };
    // --- witnesses of the known classes
    both("di", "query($n: Int) { di(a: $n) }", "{}"); // omitted variable, argument default
    both("dio", "query($n: Int) { dio(a: $n) }", "{}");
    both("dl", "query($n: [Int!]) { dl(a: $n) }", "{}");
    both("dobj", "query($n: Nested) { dobj(a: $n) }", "{}");
    both("multi", "query($n: Int) { multi(a: 1, b: $n) }", "{}");
    both("e", "{ e(a: \"RED\") }", "{}"); // string literal for an enum
    both("enn", "query($c: Color = \"BLUE\") { enn(a: $c) }", "{}");
    both("lle", "{ lle(a: [[\"RED\", GREEN]]) }", "{}");
    both("lln", "query($v: [Int]!) { lln(a: $v) }", "{}"); // non-null list, absent -> [null]
    both("lln", "query($v: [Int]) { lln(a: $v) }", "{\"v\": null}");
    both("lln", "{ lln(a: null) }", "{}");
    both("lln", "{ lln }", "{}");
    both("obj2", "query($u: Int) { obj2(a: {k: $u}) }", "{}");
    both("obj2", "{ obj2(a: {k: 1}) }", "{}");
    both("one", "query($u: Int) { one(a: {l: null, i: $u}) }", "{}");
    both("one", "{ one(a: {l: null}) }", "{}");
    both("ll", "query($u: Int) { ll(a: [[$u], null]) }", "{}");
    both("llnn", "query($u: Int) { llnn(a: [$u]) }", "{}");
    both("obj", "query($u: Int) { obj(a: {x: 1, bogus: 2, y: $u}) }", "{}"); // unknown field, check skipped
    both("obj", "{ obj(a: {x: 1, bogus: 2}) }", "{}");
    both("one", "query($u: Int) { one(a: {i: 1, s: $u}) }", "{}"); // oneOf with an omitted second member
    both("one", "query($u: String) { one(a: {i: 1, s: $u}) }", "{}");
    both("one", "{ one(a: {i: 1, s: \"x\"}) }", "{}");
    both("i", "query($v: Int!) { i(a: $v) }", "{}"); // non-null variable omitted
    both("i", "query($v: Int!) { i(a: $v) }", "{\"v\": null}");
    both("li", "query($v: [Int!]) { li(a: $v) }", "{\"v\": [1, null]}");
    both("mu", "query($v: Int!) { mu(a: $v) }", "{}");
    both("obj", "query($v: Int!) { obj(a: {x: 1, y: $v}) }", "{}");
    // --- variable used where its declared type is not allowed
    both("e", "query($v: String = \"RED\") { e(a: $v) }", "{}");
    both("i", "query($v: String) { i(a: $v) }", "{\"v\": 5}");
    both("li", "query($v: Int) { li(a: $v) }", "{\"v\": 5}");
    both("inn", "query($v: Int) { inn(a: $v) }", "{\"v\": 5}");
    both("inn", "query($v: Int = 4) { inn(a: $v) }", "{}");
    both("inn", "query($v: Int = 4) { inn(a: $v) }", "{\"v\": null}");
    // --- boundary cases of every coercion rule
    both("i", "{ i }", "{}");
    both("i", "{ i(a: null) }", "{}");
    both("i", "{ i(a: 2147483647) }", "{}");
    both("i", "{ i(a: 2147483648) }", "{}");
    both("i", "{ i(a: -2147483648) }", "{}");
    both("i", "{ i(a: -2147483649) }", "{}");
    both("i", "{ i(a: \"1\") }", "{}");
    both("i", "query($v: Int) { i(a: $v) }", "{\"v\": 3}");
    both("i", "query($v: Int) { i(a: $v) }", "{\"v\": null}");
    both("i", "query($v: Int) { i(a: $v) }", "{}");
    both("i", "query($v: Int = 8) { i(a: $v) }", "{}");
    both("i", "query($v: Int = 8) { i(a: $v) }", "{\"v\": null}");
    both("i", "query($v: Int = 8) { i(a: $v) }", "{\"v\": 1}");
    both("i", "{ i(a: $nope) }", "{}");
    both("inn", "{ inn }", "{}");
    both("inn", "{ inn(a: null) }", "{}");
    both("inn", "query($v: Int!) { inn(a: $v) }", "{}");
    both("inn", "query($v: Int!) { inn(a: $v) }", "{\"v\": 2}");
    both("s", "{ s(a: RED) }", "{}");
    both("s", "{ s(a: \"RED\") }", "{}");
    both("b", "{ b(a: true) }", "{}");
    both("b", "{ b(a: 1) }", "{}");
    both("e", "{ e(a: RED) }", "{}");
    both("e", "{ e(a: PURPLE) }", "{}");
    both("e", "query($c: Color) { e(a: $c) }", "{\"c\": \"GREEN\"}");
    both("e", "query($c: Color) { e(a: $c) }", "{\"c\": \"PURPLE\"}");
    both("li", "{ li(a: 1) }", "{}");
    both("li", "{ li(a: [1, null, 3]) }", "{}");
    both("li", "query($u: Int) { li(a: [1, $u]) }", "{}");
    both("li", "query($u: Int) { li(a: [1, $u]) }", "{\"u\": 4}");
    both("li", "query($v: [Int]) { li(a: $v) }", "{\"v\": 4}");
    both("lnn", "{ lnn(a: 1) }", "{}");
    both("lnn", "{ lnn(a: [1, null]) }", "{}");
    both("lnn", "query($u: Int) { lnn(a: [1, $u]) }", "{}");
    both("lnl", "{ lnl(a: [1, 2]) }", "{}");
    both("ll", "{ ll(a: 1) }", "{}");
    both("ll", "{ ll(a: [1, 2]) }", "{}");
    both("ll", "{ ll(a: [[1], [2, 3], null]) }", "{}");
    both("llnn", "{ llnn(a: [[1], [2, 3]]) }", "{}");
    both("llnn", "{ llnn(a: [[1], null]) }", "{}");
    both("mu", "{ mu }", "{}");
    both("mu", "{ mu(a: null) }", "{}");
    both("mu", "{ mu(a: 3) }", "{}");
    both("mu", "query($v: Int) { mu(a: $v) }", "{}");
    both("mu", "query($v: Int) { mu(a: $v) }", "{\"v\": null}");
    both("mul", "{ mul(a: 3) }", "{}");
    both("multi", "query($s: String) { multi(a: 1, m: $s) }", "{}");
    both("multi", "{ multi(a: 1, c: 2) }", "{}");
    both("multi", "{ multi(b: 1) }", "{}");
    both("multi", "{ multi(a: 1, b: null) }", "{}");
    both("obj", "{ obj(a: {x: 1}) }", "{}");
    both("obj", "{ obj(a: {}) }", "{}");
    both("obj", "{ obj(a: 5) }", "{}");
    both("obj", "{ obj(a: {x: 1, y: null, d: 4, m: null, z: 5, c: BLUE, n: {p: 1}, nd: null}) }", "{}");
    both("obj", "{ obj(a: {x: 1, d: null}) }", "{}");
    both("obj", "query($u: Int, $w: Int) { obj(a: {x: 1, y: $u, m: $w, d: $u}) }", "{}");
    both("obj", "query($u: Int, $w: Int) { obj(a: {x: 1, y: $u, m: $w}) }", "{\"u\": null, \"w\": null}");
    both("obj", "query($o: Inp) { obj(a: $o) }", "{\"o\": {\"x\": 2, \"c\": \"RED\", \"n\": {\"p\": 3, \"r\": \"s\"}}}");
    both("obj", "query($o: Inp) { obj(a: $o) }", "{\"o\": {\"x\": 2, \"bogus\": 1}}");
    both("obj", "query($o: Inp) { obj(a: $o) }", "{\"o\": {}}");
    both("objnn", "query($o: Inp) { objnn(a: $o) }", "{}");
    both("lobj", "{ lobj(a: {p: 1}) }", "{}");
    both("lobj", "{ lobj(a: [{p: 1}, {p: 2, q: 3, r: \"t\"}]) }", "{}");
    both("one", "{ one(a: {i: 1}) }", "{}");
    both("one", "{ one(a: {i: null}) }", "{}");
    both("one", "{ one(a: {}) }", "{}");
    both("one", "{ one(a: {o: {p: 5}}) }", "{}");
    both("one", "{ one(a: {l: 5}) }", "{}");
    both("one", "{ one(a: {e: BLUE}) }", "{}");
    both("one", "query($u: Int) { one(a: {i: $u}) }", "{}");
    both("one", "query($u: Int) { one(a: {i: $u}) }", "{\"u\": 6}");
    both("one", "query($o: One) { one(a: $o) }", "{\"o\": {\"s\": \"q\"}}");
    both("one", "query($o: One) { one(a: $o) }", "{\"o\": {\"s\": \"q\", \"i\": 1}}");
    both("onenn", "{ onenn }", "{}");
    both("di", "{ di }", "{}");
    both("di", "{ di(a: 6) }", "{}");
    both("di", "{ di(a: null) }", "{}");
    both("di", "query($n: Int = 2) { di(a: $n) }", "{}");
    both("dio", "{ dio }", "{}");
    both("dio", "{ dio(a: null) }", "{}");
    both("dl", "{ dl }", "{}");
    both("de", "{ de }", "{}");
    both("dobj", "{ dobj }", "{}");
    both("dobj", "{ dobj(a: {p: 1}) }", "{}");
    v
}

// --------------------------------------------------------------- running ---
enum Obs {
    Echo(Vec<(String, Tv)>),
    Rejected(String), // no data, no path: validation / preparation error
    FieldErr(String), // an error with a path, the resolver did not run
    Odd(String),
}

fn run<E: Executor>(schema: &E, c: &Case) -> Obs {
    LOG.with(|l| l.borrow_mut().clear());
    let req = Request::new(c.doc.clone()).variables(Variables::from_json(c.vars.clone()));
    let resp = block_on(schema.execute(req));
    let calls: Vec<_> = LOG.with(|l| l.borrow_mut().drain(..).collect());
    if resp.errors.is_empty() {
        if calls.len() == 1 && calls[0].0 == c.field {
            return Obs::Echo(calls[0].1.clone());
        }
        return Obs::Odd(format!("no error but {} resolver calls", calls.len()));
    }
    if !calls.is_empty() {
        return Obs::Odd(format!("error reported AND the resolver ran: {}", resp.errors[0].message));
    }
    let e = &resp.errors[0];
    if e.path.is_empty() { Obs::Rejected(e.message.clone()) } else { Obs::FieldErr(e.message.clone()) }
}

pub fn jstr(s: &str) -> String {
    serde_json::to_string(s).unwrap()
}

/// The model's view of a case, read back from the real parser's AST of the document text.
pub struct CaseInputs {
    pub gargs: String,
    pub gdefs: String,
    pub gvars: String,
    pub has_vars: bool,
}

/// `dynamic` = print nullable variable types as RMaybe (the dynamic flavour tells absent from null)
pub fn case_inputs_with(it: &mut Interner, c: &Case, dynamic: bool) -> Option<CaseInputs> {
    let doc = async_graphql::parser::parse_query(&c.doc).ok()?;
    let DocumentOperations::Single(op) = &doc.operations else {
        return None;
    };
    let Some(Selection::Field(field)) = op.node.selection_set.node.items.first().map(|s| &s.node) else {
        return None;
    };
    let mut gargs = vec![];
    for (k, v) in &field.node.arguments {
        let g = g_ival(it, &v.node)?;
        gargs.push(format!("({}, {})", it.n(&k.node), g));
    }
    let mut gdefs = vec![];
    for vd in &op.node.variable_definitions {
        let ty = parse_ty(&vd.node.var_type.node.to_string())?;
        let ty = if dynamic { to_dynamic(&ty) } else { ty };
        let d = match &vd.node.default_value {
            None => "None".to_string(),
            Some(d) => format!("(Some {})", g_xv_const(it, &d.node, false)?),
        };
        gdefs.push(format!("({}, {}, {})", it.n(&vd.node.name.node), g_ty(it, &ty), d));
    }
    let mut gvars = vec![];
    let variables = Variables::from_json(c.vars.clone());
    for (k, v) in variables.iter() {
        let g = g_xv_const(it, v, true)?;
        gvars.push(format!("({}, {})", it.n(k), g));
    }
    Some(CaseInputs { gargs: gargs.join("; "), gdefs: gdefs.join("; "), gvars: gvars.join("; "), has_vars: !op.node.variable_definitions.is_empty() })
}
pub fn case_inputs(it: &mut Interner, c: &Case) -> Option<CaseInputs> {
    case_inputs_with(it, c, false)
}

/// the dynamic flavour distinguishes an absent value from null everywhere: Option -> MaybeUndefined
pub fn to_dynamic(t: &Ty) -> Ty {
    let f = |fs: &Vec<Fld>| fs.iter().map(|f| Fld { name: f.name, ty: to_dynamic(&f.ty), default: f.default.clone() }).collect::<Vec<_>>();
    match t {
        Ty::Opt(i) | Ty::Maybe(i) => maybe(to_dynamic(i)),
        Ty::Vec(i) => vec_(to_dynamic(i)),
        Ty::Obj(n, fs) => Ty::Obj(n, f(fs)),
        Ty::One(n, fs) => Ty::One(n, f(fs)),
        t => t.clone(),
    }
}

fn main() {
    let a = parse_args();
    let mut rng = Rng::new(a.seed);
    let strict = Schema::build(Query, EmptyMutation, EmptySubscription).finish();
    let fast = Schema::build(Query, EmptyMutation, EmptySubscription).validation_mode(ValidationMode::Fast).finish();
    if let Err(e) = check_descriptors(&strict.sdl()) {
        eprintln!("c06: {e}");
        std::process::exit(3);
    }
    let all = sigs();
    let mut it = Interner::new();
    let mut out = String::new();
    for (name, sig) in &all {
        writeln!(out, "DEF\tsig_{name}\t{}", g_flds(&mut it, sig)).unwrap();
    }
    let mut cases = corpus();
    while cases.len() < a.n.max(1) {
        cases.push(gen_case(&mut rng, &all));
    }
    let mut skipped = 0usize;
    for c in &cases {
        let obs = match if c.strict { run(&strict, c) } else { run(&fast, c) } {
            Obs::Odd(m) => {
                // never expected: resolver ran although an error was reported, or ran twice
                writeln!(out, "ODD\t\t{}", jstr(&format!("{} {} {}", c.doc, c.vars, m))).unwrap();
                eprintln!("c06: odd observation on {}: {m}", c.doc);
                std::process::exit(4);
            }
            o => o,
        };
        let Some(inp) = case_inputs(&mut it, c) else {
            skipped += 1;
            continue;
        };
        let (gimpl, impl_text, nontrivial) = match &obs {
            Obs::Echo(kv) => (
                format!("(Ok {})", g_list(kv.iter(), |(k, v)| format!("({}, {})", it.n(k), g_tv(&mut it, v)))),
                format!("echo {:?}", kv),
                true,
            ),
            Obs::Rejected(m) => ("(Err 1)".to_string(), format!("rejected: {m}"), false),
            Obs::FieldErr(m) => ("(Err 2)".to_string(), format!("field error: {m}"), inp.has_vars),
            Obs::Odd(_) => unreachable!(),
        };
        let sig = &all.iter().find(|s| s.0 == c.field).unwrap().1;
        let sig_text = sig.iter().map(|f| format!("{}: {}", f.name, f.ty.gql())).collect::<Vec<_>>().join(", ");
        let text = format!("[{}] {} vars={} sig={}({})", if c.strict { "strict" } else { "fast" }, c.doc, c.vars, c.field, sig_text);
        writeln!(
            out,
            "CASE\t(sig_{}, [{}], [{}], [{}], {}, {})\t{{\"uses\":[{}],\"text\":{},\"impl\":{},\"nontrivial\":{}}}",
            c.field,
            inp.gargs,
            inp.gdefs,
            inp.gvars,
            g_bool(c.strict),
            gimpl,
            jstr(&format!("sig_{}", c.field)),
            jstr(&text),
            jstr(&impl_text),
            nontrivial
        )
        .unwrap();
    }
    writeln!(out, "SKIPPED\t\t{{\"n\":{skipped}}}").unwrap();
    writeln!(out, "NAMES\t\t{}", serde_json::to_string(&it.names).unwrap()).unwrap();
    std::fs::write(format!("{}/c06.cases", a.out), out).unwrap();
}

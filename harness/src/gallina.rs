//! Printers from the real parser's AST to the Gallina terms of coq/theories/Doc.v.
use std::collections::HashMap;
use std::fmt::Write;

use async_graphql_parser::types::*;
use async_graphql_value::{ConstValue, Value};

/// Interns strings as `N` literals.  The first ids are reserved (Doc.v).
pub struct Interner {
    map: HashMap<String, u64>,
    pub names: Vec<String>,
}

impl Default for Interner {
    fn default() -> Self {
        Self::new()
    }
}

impl Interner {
    pub fn new() -> Self {
        let mut i = Interner { map: HashMap::new(), names: vec![] };
        for s in ["__typename", "skip", "include", "if", "__schema", "__type"] {
            i.id(s);
        }
        i
    }
    pub fn id(&mut self, s: &str) -> u64 {
        if let Some(v) = self.map.get(s) {
            return *v;
        }
        let v = self.names.len() as u64;
        self.map.insert(s.to_string(), v);
        self.names.push(s.to_string());
        v
    }
    pub fn n(&mut self, s: &str) -> String {
        format!("{}%N", self.id(s))
    }
}

pub fn g_str(s: &str) -> String {
    let mut o = String::from("[");
    for (i, c) in s.chars().enumerate() {
        if i > 0 {
            o.push(';');
        }
        write!(o, "{}", c as u32).unwrap();
    }
    o.push_str("]%N");
    o
}

pub fn g_bool(b: bool) -> &'static str {
    if b { "true" } else { "false" }
}

pub fn g_z(z: i128) -> String {
    format!("({})%Z", z)
}

pub fn g_list<T>(v: impl IntoIterator<Item = T>, mut f: impl FnMut(T) -> String) -> String {
    let mut o = String::from("[");
    for (i, x) in v.into_iter().enumerate() {
        if i > 0 {
            o.push_str("; ");
        }
        o.push_str(&f(x));
    }
    o.push(']');
    o
}

pub fn g_opt<T>(v: Option<T>, f: impl FnOnce(T) -> String) -> String {
    match v {
        Some(x) => format!("(Some {})", f(x)),
        None => "None".to_string(),
    }
}

pub fn g_number(n: &async_graphql_value::Number) -> String {
    if let Some(i) = n.as_i64() {
        format!("(VInt {})", g_z(i as i128))
    } else if let Some(u) = n.as_u64() {
        format!("(VInt {})", g_z(u as i128))
    } else {
        format!("(VFloat {}%N)", n.as_f64().unwrap_or(f64::NAN).to_bits())
    }
}

pub fn g_value(it: &mut Interner, v: &Value) -> String {
    match v {
        Value::Variable(n) => format!("(VVar {})", it.n(n)),
        Value::Null => "VNull".into(),
        Value::Number(n) => g_number(n),
        Value::String(s) => format!("(VStr {})", g_str(s)),
        Value::Boolean(b) => format!("(VBool {})", g_bool(*b)),
        Value::Binary(_) => "VNull".into(),
        Value::Enum(n) => format!("(VEnum {})", it.n(n)),
        Value::List(l) => format!("(VList {})", g_list(l.iter(), |x| g_value(it, x))),
        Value::Object(m) => format!(
            "(VObj {})",
            g_list(m.iter(), |(k, x)| format!("({}, {})", it.n(k), g_value(it, x)))
        ),
    }
}

pub fn g_const(it: &mut Interner, v: &ConstValue) -> String {
    g_value(it, &v.clone().into_value())
}

pub fn g_directives(it: &mut Interner, ds: &[async_graphql_parser::Positioned<Directive>]) -> String {
    g_list(ds.iter(), |d| {
        format!(
            "{{| d_name := {}; d_args := {} |}}",
            it.n(&d.node.name.node),
            g_list(d.node.arguments.iter(), |(k, v)| format!("({}, {})", it.n(&k.node), g_value(it, &v.node)))
        )
    })
}

pub fn g_selection(it: &mut Interner, s: &Selection) -> String {
    match s {
        Selection::Field(f) => {
            let f = &f.node;
            format!(
                "(SField {} {} {} {} {})",
                g_opt(f.alias.as_ref(), |a| it.n(&a.node)),
                it.n(&f.name.node),
                g_list(f.arguments.iter(), |(k, v)| format!("({}, {})", it.n(&k.node), g_value(it, &v.node))),
                g_directives(it, &f.directives),
                g_selections(it, &f.selection_set.node)
            )
        }
        Selection::FragmentSpread(sp) => format!(
            "(SSpread {} {})",
            it.n(&sp.node.fragment_name.node),
            g_directives(it, &sp.node.directives)
        ),
        Selection::InlineFragment(fr) => format!(
            "(SInline {} {} {})",
            g_opt(fr.node.type_condition.as_ref(), |c| it.n(&c.node.on.node)),
            g_directives(it, &fr.node.directives),
            g_selections(it, &fr.node.selection_set.node)
        ),
    }
}

pub fn g_selections(it: &mut Interner, ss: &SelectionSet) -> String {
    g_list(ss.items.iter(), |s| g_selection(it, &s.node))
}

pub fn g_operation(it: &mut Interner, name: Option<&str>, op: &OperationDefinition) -> String {
    let ty = match op.ty {
        OperationType::Query => "OpQuery",
        OperationType::Mutation => "OpMutation",
        OperationType::Subscription => "OpSubscription",
    };
    format!(
        "{{| op_name := {}; op_ty := {}; op_vars := {}; op_dirs := {}; op_sels := {} |}}",
        g_opt(name, |n| it.n(n)),
        ty,
        g_list(op.variable_definitions.iter(), |vd| format!(
            "{{| vd_name := {}; vd_ty := {}; vd_default := {} |}}",
            it.n(&vd.node.name.node),
            g_str(&vd.node.var_type.node.to_string()),
            g_opt(vd.node.default_value.as_ref(), |d| g_const(it, &d.node))
        )),
        g_directives(it, &op.directives),
        g_selections(it, &op.selection_set.node)
    )
}

/// Operations and fragments are printed sorted by name (the real maps are
/// hash maps; every consumer of the model is order-insensitive or sorts).
pub fn g_document(it: &mut Interner, doc: &ExecutableDocument) -> String {
    let mut ops: Vec<(Option<String>, &OperationDefinition)> = match &doc.operations {
        DocumentOperations::Single(op) => vec![(None, &op.node)],
        DocumentOperations::Multiple(m) => m.iter().map(|(k, v)| (Some(k.to_string()), &v.node)).collect(),
    };
    ops.sort_by(|a, b| a.0.cmp(&b.0));
    let mut frags: Vec<(&str, &FragmentDefinition)> = doc.fragments.iter().map(|(k, v)| (k.as_str(), &v.node)).collect();
    frags.sort_by(|a, b| a.0.cmp(b.0));
    format!(
        "{{| doc_ops := {}; doc_frags := {} |}}",
        g_list(ops.iter(), |(n, op)| g_operation(it, n.as_deref(), op)),
        g_list(frags.iter(), |(n, fr)| format!(
            "({}, {{| fr_cond := {}; fr_dirs := {}; fr_sels := {} |}})",
            it.n(n),
            it.n(&fr.type_condition.node.on.node),
            g_directives(it, &fr.directives),
            g_selections(it, &fr.selection_set.node)
        ))
    )
}

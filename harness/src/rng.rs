/// SplitMix64: every random choice of a run derives from one seed.
#[derive(Clone)]
pub struct Rng(pub u64);

impl Rng {
    pub fn new(seed: u64) -> Self {
        // mix once more: the SplitMix increment equals the multiplier above, so
        // without this, seeds k and k+1 would give the same stream shifted by one draw
        let mut r = Rng(seed.wrapping_mul(0x9E3779B97F4A7C15).wrapping_add(0x1234_5678_9ABC_DEF1));
        let s = r.next() ^ seed.rotate_left(17);
        Rng(s)
    }
    pub fn next(&mut self) -> u64 {
        self.0 = self.0.wrapping_add(0x9E3779B97F4A7C15);
        let mut z = self.0;
        z = (z ^ (z >> 30)).wrapping_mul(0xBF58476D1CE4E5B9);
        z = (z ^ (z >> 27)).wrapping_mul(0x94D049BB133111EB);
        z ^ (z >> 31)
    }
    /// uniform in 0..n (n > 0)
    pub fn below(&mut self, n: usize) -> usize {
        (self.next() % (n as u64)) as usize
    }
    pub fn range(&mut self, lo: i64, hi: i64) -> i64 {
        lo + (self.next() % ((hi - lo + 1) as u64)) as i64
    }
    pub fn chance(&mut self, num: u64, den: u64) -> bool {
        self.next() % den < num
    }
    pub fn pick<'a, T>(&mut self, v: &'a [T]) -> &'a T {
        &v[self.below(v.len())]
    }
    pub fn fork(&mut self) -> Rng {
        Rng(self.next())
    }
    pub fn shuffle<T>(&mut self, v: &mut [T]) {
        for i in (1..v.len()).rev() {
            let j = self.below(i + 1);
            v.swap(i, j);
        }
    }
}

#!/bin/bash
# tools/confirm_seed.sh <worktree> <Cxx> [name]
# Confirms a seeded change inside the seeding agent's worktree (patch applies on the
# original commit, workspace tests pass with it, the demonstration fails with it and
# passes without it), stores it under /verif/seeded/<name>/, runs our checks against it
# with tools/mutcheck.sh and removes the worktree.
wt=$1; p=$2; name=${3:-$p}
out=/verif/seeded/$name
mkdir -p $out
log=$out/confirm.log
: > $log
cd $wt || exit 2
cp -r SEED/patch.diff SEED/meta.json $out/ 2>/dev/null
rm -rf $out/demo; cp -r SEED/demo $out/demo 2>/dev/null
git checkout -q -- . 2>>$log; git clean -fdq -e SEED -e target -e PROMPT.md 2>>$log
if ! git apply --check SEED/patch.diff 2>>$log; then echo "RESULT patch-does-not-apply" | tee -a $log; exit 1; fi
demo=$(ls SEED/demo/*.rs 2>/dev/null | head -1)
run_demo() { # copies the demo test into tests/ and runs it
  if [ -n "$demo" ]; then
    cp $demo tests/seed_demo.rs
    timeout 1800 cargo test --offline -p async-graphql ${FEATURES:+--features $FEATURES} --test seed_demo 2>&1 | tail -15
    rc=${PIPESTATUS[0]}
    rm -f tests/seed_demo.rs
    return $rc
  else
    echo "no .rs demo; see demo/README"; return 99
  fi
}
echo "== demo WITHOUT patch" >> $log; run_demo >> $log 2>&1; d0=$?
git apply SEED/patch.diff
echo "== demo WITH patch" >> $log; run_demo >> $log 2>&1; d1=$?
echo "== test suite WITH patch" >> $log
pk="-p async-graphql"
grep -q "^+++ b/parser" SEED/patch.diff && pk="$pk -p async-graphql-parser"
grep -q "^+++ b/value" SEED/patch.diff && pk="$pk -p async-graphql-value"
grep -q "^+++ b/derive" SEED/patch.diff && pk="$pk -p async-graphql-derive"
if [ -n "${FAST:-}" ]; then scope="--lib"; else scope="--lib --bins --tests"; fi
timeout 3000 cargo test --offline $pk ${FEATURES:+--features $FEATURES} $scope 2>&1 | grep -E "^test result|FAILED|failed" | sort | uniq -c | tail -8 >> $log
t=${PIPESTATUS[0]}
git checkout -q -- .
echo "RESULT demo_without=$d0 demo_with=$d1 tests_with=$t" | tee -a $log
echo "== our checks against the patch" >> $log
/verif/tools/mutcheck.sh $out/patch.diff $p >> $log 2>&1
echo "RESULT check_exit=$? " | tee -a $log
grep -E "^VIOLATION|^C[0-9]+:" $log | cut -c1-260

#!/usr/bin/env python3
"""seed_meta.py <name> <caught|missed|caught-after-strengthening> "<note>" — record the coordinator's confirmation in seeded/<name>/meta.json."""
import json, os, re, sys
name, status, note = sys.argv[1], sys.argv[2], sys.argv[3]
d = f"/verif/seeded/{name}"
m = json.load(open(f"{d}/meta.json"))
log = open(f"{d}/confirm.log").read() if os.path.exists(f"{d}/confirm.log") else ""
r = re.search(r"RESULT demo_without=(\d+) demo_with=(\d+) tests_with=(\d+)", log)
m["coordinator_confirmation"] = {
    "ran": "tools/confirm_seed.sh (scratch worktree): demo without patch, demo with patch, cargo test --lib --bins --tests of the touched crates with patch, then tools/mutcheck.sh",
    "demo_without_patch_exit": int(r.group(1)) if r else None,
    "demo_with_patch_exit": int(r.group(2)) if r else None,
    "test_suite_with_patch_exit": int(r.group(3)) if r else None,
    "our_checks": status, "note": note,
}
json.dump(m, open(f"{d}/meta.json", "w"), indent=1)
print("ok", name, status)

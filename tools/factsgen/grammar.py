"""F1 — parser/src/graphql.pest (whole file) -> coq/gen/GrammarGen.v

Translates the pest grammar into a Gallina PEG abstract syntax tree:
  rule  := (modifier, body)   modifier in MNormal | MSilent | MAtomic | MCompound
  body  := PStr | PInsens | PRange | PAny | PSoi | PEoi | PRef | PSeq | PChoice
           | PStar | PPlus | POpt | PNot
Rules are numbered in source order (`R_<name> : N`); `grammar` is the table.
`e{n}` is expanded to an n-fold sequence (this is what pest's optimizer does),
the built-in character classes ASCII_DIGIT, ASCII_NONZERO_DIGIT, ASCII_ALPHA,
ASCII_HEX_DIGIT are expanded to their ranges.  Anything else of pest's syntax
(stack operations, positive lookahead, `!` non-atomic modifier, `{n,m}`, tags)
raises Unsupported.  The file also checks that the Rule enum of
parse/generated.rs lists exactly the rules of the grammar, in order (the
generated parser is built from this grammar; tests/codegen.rs keeps them in
sync, we only check the rule list).
"""
import hashlib
import re

NAME = "grammar"

ESC = {"n": 10, "r": 13, "t": 9, "0": 0, "\\": 92, "'": 39, '"': 34}

BUILTIN = {
    "ASCII_DIGIT": "(PRange 48 57)",
    "ASCII_NONZERO_DIGIT": "(PRange 49 57)",
    "ASCII_ALPHA": "(PChoice (PRange 97 122) (PRange 65 90))",
    "ASCII_HEX_DIGIT": "(PChoice (PRange 48 57) (PChoice (PRange 97 102) (PRange 65 70)))",
    "ANY": "PAny",
    "SOI": "PSoi",
    "EOI": "PEoi",
}


class P:
    def __init__(self, facts, text, rel):
        self.f, self.t, self.rel, self.i = facts, text, rel, 0

    def err(self, msg):
        line = self.t.count("\n", 0, self.i) + 1
        raise self.f.Unsupported(f"{self.rel}:{line}: {msg}")

    def ws(self):
        while self.i < len(self.t):
            if self.t[self.i] in " \t\r\n":
                self.i += 1
            elif self.t.startswith("//", self.i):
                j = self.t.find("\n", self.i)
                self.i = len(self.t) if j < 0 else j
            elif self.t.startswith("/*", self.i):
                j = self.t.find("*/", self.i)
                if j < 0:
                    self.err("unterminated block comment")
                self.i = j + 2
            else:
                break

    def peek(self, s):
        self.ws()
        return self.t.startswith(s, self.i)

    def eat(self, s):
        if self.peek(s):
            self.i += len(s)
            return True
        return False

    def expect(self, s):
        if not self.eat(s):
            self.err(f"expected {s!r} at {self.t[self.i:self.i + 20]!r}")

    def ident(self):
        self.ws()
        m = re.compile(r"[A-Za-z_][A-Za-z0-9_]*").match(self.t, self.i)
        if not m:
            return None
        self.i = m.end()
        return m.group(0)

    def escaped(self, quote):
        """after the opening quote: returns code points up to the closing quote"""
        out = []
        while True:
            if self.i >= len(self.t):
                self.err("unterminated literal")
            c = self.t[self.i]
            if c == quote:
                self.i += 1
                return out
            if c == "\\":
                d = self.t[self.i + 1]
                if d == "u":
                    m = re.compile(r"\{([0-9a-fA-F]{1,6})\}").match(self.t, self.i + 2)
                    if not m:
                        self.err("bad \\u escape")
                    out.append(int(m.group(1), 16))
                    self.i = m.end()
                elif d == "x":
                    out.append(int(self.t[self.i + 2:self.i + 4], 16))
                    self.i += 4
                elif d in ESC:
                    out.append(ESC[d])
                    self.i += 2
                else:
                    self.err(f"escape \\{d} not in subset")
            else:
                out.append(ord(c))
                self.i += 1

    # expr := seq ('|' seq)*   seq := term ('~' term)*
    def expr(self):
        a = self.seq()
        alts = [a]
        while self.peek("|"):
            self.i += 1
            alts.append(self.seq())
        r = alts[-1]
        for x in reversed(alts[:-1]):
            r = ("choice", x, r)
        return r

    def seq(self):
        items = [self.term()]
        while self.peek("~"):
            self.i += 1
            items.append(self.term())
        r = items[-1]
        for x in reversed(items[:-1]):
            r = ("seq", x, r)
        return r

    def term(self):
        self.ws()
        if self.eat("!"):
            return ("not", self.term())
        if self.peek("&"):
            self.err("positive lookahead not in subset")
        node = self.atom()
        while True:
            self.ws()
            if self.eat("*"):
                node = ("star", node)
            elif self.eat("+"):
                node = ("plus", node)
            elif self.eat("?"):
                node = ("opt", node)
            elif self.peek("{"):
                m = re.compile(r"\{\s*(\d+)\s*\}").match(self.t, self.i)
                if not m:
                    self.err("repetition other than {n} not in subset")
                n = int(m.group(1))
                if n < 1 or n > 16:
                    self.err("repetition count out of range")
                self.i = m.end()
                r = node
                for _ in range(n - 1):
                    r = ("seq", node, r)
                node = r
            else:
                return node

    def atom(self):
        self.ws()
        if self.eat("("):
            e = self.expr()
            self.expect(")")
            return e
        if self.eat('^"'):
            return ("insens", self.escaped('"'))
        if self.eat('"'):
            return ("str", self.escaped('"'))
        if self.eat("'"):
            lo = self.escaped("'")
            self.expect("..")
            self.expect("'")
            hi = self.escaped("'")
            if len(lo) != 1 or len(hi) != 1:
                self.err("range bounds must be single characters")
            return ("range", lo[0], hi[0])
        nm = self.ident()
        if nm is None:
            self.err(f"unexpected {self.t[self.i:self.i + 20]!r}")
        if nm in ("PUSH", "POP", "POP_ALL", "PEEK", "PEEK_ALL", "DROP"):
            self.err(f"stack operation {nm} not in subset")
        return ("ref", nm)

    def rules(self):
        out = []
        while True:
            self.ws()
            if self.i >= len(self.t):
                return out
            line = self.t.count("\n", 0, self.i) + 1
            nm = self.ident()
            if nm is None:
                self.err("rule name expected")
            self.expect("=")
            self.ws()
            mod = "MNormal"
            for ch, m in (("_", "MSilent"), ("@", "MAtomic"), ("$", "MCompound")):
                if self.t.startswith(ch, self.i):
                    mod = m
                    self.i += 1
                    break
            else:
                if self.t.startswith("!", self.i):
                    self.err("non-atomic modifier not in subset")
            self.expect("{")
            body = self.expr()
            self.expect("}")
            out.append((nm, mod, body, line))


def _glist(cps):
    return "[" + "; ".join(str(c) for c in cps) + "]"


def _emit(facts, e, index, rel):
    k = e[0]
    if k == "str":
        return f"(PStr {_glist(e[1])})"
    if k == "insens":
        return f"(PInsens {_glist(e[1])})"
    if k == "range":
        return f"(PRange {e[1]} {e[2]})"
    if k == "ref":
        if e[1] in BUILTIN:
            return BUILTIN[e[1]]
        if e[1] not in index:
            raise facts.Unsupported(f"{rel}: reference to unknown rule {e[1]}")
        return f"(PRef R_{e[1]})"
    if k in ("seq", "choice"):
        c = "PSeq" if k == "seq" else "PChoice"
        return f"({c} {_emit(facts, e[1], index, rel)} {_emit(facts, e[2], index, rel)})"
    c = {"star": "PStar", "plus": "PPlus", "opt": "POpt", "not": "PNot"}[k]
    return f"({c} {_emit(facts, e[1], index, rel)})"


PREAMBLE = """
Inductive rmod := MNormal | MSilent | MAtomic | MCompound.

Inductive pexp :=
| PStr (s : list N)          (* "literal" *)
| PInsens (s : list N)       (* ^"literal", ASCII case-insensitive *)
| PRange (lo hi : N)         (* 'a'..'z' *)
| PAny | PSoi | PEoi
| PRef (r : N)               (* rule number *)
| PSeq (a b : pexp)          (* a ~ b *)
| PChoice (a b : pexp)       (* a | b *)
| PStar (a : pexp) | PPlus (a : pexp) | POpt (a : pexp)
| PNot (a : pexp).           (* !a *)

"""


def gen(facts):
    rel = "parser/src/graphql.pest"
    text = facts.read(rel)
    rules = P(facts, text, rel).rules()
    names = [r[0] for r in rules]
    if len(set(names)) != len(names):
        raise facts.Unsupported(f"{rel}: duplicate rule names")
    for need in ("WHITESPACE", "COMMENT"):
        if need not in names:
            raise facts.Unsupported(f"{rel}: rule {need} missing (implicit skipping is modelled with both)")
    index = {n: i for i, n in enumerate(names)}
    # the generated parser's Rule enum must list the same rules in the same order
    grel = "parser/src/parse/generated.rs"
    gtext = facts.read(grel)
    m = re.search(r"pub enum Rule \{(.*?)\}", gtext, re.S)
    if not m:
        raise facts.Unsupported(f"{grel}: Rule enum not found")
    enum = re.sub(r"#\s*\[[^\]]*\]", "", m.group(1))
    variants = [v.strip().replace("r#", "").replace(" ", "") for v in enum.split(",") if v.strip()]
    if variants != ["EOI"] + names:
        raise facts.Unsupported(f"{grel}: Rule enum {variants[:4]}... differs from the rules of {rel}")
    out = (f"(* GENERATED by tools/facts.py (factsgen/grammar.py) from {rel} lines 1-{text.count(chr(10)) + 1}\n"
           f"   sha256(file) = {hashlib.sha256(text.encode()).hexdigest()}\n"
           f"   Do not edit: regenerated from /repo on every run. *)\n"
           "From Coq Require Import NArith List.\nImport ListNotations.\nOpen Scope N_scope.\n")
    out += PREAMBLE
    for n, i in index.items():
        out += f"Definition R_{n} : N := {i}.\n"
    out += f"Definition R_EOI : N := {len(names)}.\n\n"
    out += "Definition grammar : list (rmod * pexp) :=\n  [\n"
    rows = []
    for n, mod, body, line in rules:
        rows.append(f"   (* {index[n]} {n}, line {line} *)\n   ({mod}, {_emit(facts, body, index, rel)})")
    out += ";\n".join(rows) + "\n  ].\n\n"
    out += "Definition rule_names : list (list N) :=\n  [" + ";\n   ".join(_glist([ord(c) for c in n]) for n in names + ["EOI"]) + "].\n"
    return facts.write_out("GrammarGen.v", out)

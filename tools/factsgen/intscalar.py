"""F7 — per-type integer scalar table.

Reads every `impl ScalarType for <T>` of src/types/external/integers.rs and
non_zero_integers.rs and translates, per impl, the body of `parse` (accessor
`as_i64`/`as_u64`, the `||`-joined rejection tests, the cast of the accepted
number, the `NonZero*::new(..).unwrap()` wrapper) and of `to_value` (the cast
fed to `Number::from`) into one record of `IntScalarGen.v`.

The translation is shape-directed: anything that is not one of the shapes
below raises Unsupported (reported as a broken obligation).
"""
import hashlib
import re

NAME = "intscalar"

FILES = ["src/types/external/integers.rs", "src/types/external/non_zero_integers.rs"]

# Stable ids shared with harness/src/bin/c07.rs (the harness addresses a scalar by this id).
IDS = {
    "i8": 0, "i16": 1, "i32": 2, "i64": 3, "isize": 4,
    "u8": 5, "u16": 6, "u32": 7, "u64": 8, "usize": 9,
    "NonZeroI8": 10, "NonZeroI16": 11, "NonZeroI32": 12, "NonZeroI64": 13, "NonZeroIsize": 14,
    "NonZeroU8": 15, "NonZeroU16": 16, "NonZeroU32": 17, "NonZeroU64": 18, "NonZeroUsize": 19,
}
PRIM = {"i8": "I8", "i16": "I16", "i32": "I32", "i64": "I64", "isize": "Isize",
        "u8": "U8", "u16": "U16", "u32": "U32", "u64": "U64", "usize": "Usize"}


def prim_of(self_ty):
    """(primitive type, is NonZero wrapper) of an impl's Self type."""
    if self_ty in PRIM:
        return self_ty, False
    m = re.fullmatch(r"NonZero([IU])(8|16|32|64|size)", self_ty)
    if m:
        return m.group(1).lower() + m.group(2), True
    return None, False


PREAMBLE = """(* Primitive integer types of Rust that the scalar impls mention. *)
Inductive ity := I8 | I16 | I32 | I64 | Isize | U8 | U16 | U32 | U64 | Usize.

(* Number accessor used by `parse`. *)
Inductive accessor := AccI64 | AccU64.

(* One rejection test on the accessed number n (tests are joined by `||`):
   CLtMin t c : n < t::MIN as c      CGtMax t c : n > t::MAX as c      CEqZero : n == 0 *)
Inductive cond := CLtMin (t c : ity) | CGtMax (t c : ity) | CEqZero.

Record int_impl := {
  ii_prim : ity;              (* primitive type behind Self *)
  ii_nonzero : bool;          (* Self is the NonZero wrapper of ii_prim *)
  ii_acc : accessor;          (* n.as_i64() / n.as_u64() *)
  ii_conds : list cond;       (* `if c1 || c2 .. { return Err }` ([] = no test) *)
  ii_cast : option ity;       (* `n as T` applied to the accepted number (None = no cast) *)
  ii_unwrap : bool;           (* result is NonZero*::new(..).unwrap() *)
  ii_tv_cast : option ity     (* to_value: Number::from(<self> as T) (None = no cast) *)
}.

"""


def _ity(name, self_prim, where):
    if name == "Self":
        name = self_prim
    if name not in PRIM:
        raise ValueError(f"{where}: type {name!r} is not a primitive integer type")
    return PRIM[name]


def translate_impl(facts, rel, self_ty, body):
    U = facts.Unsupported
    prim, nonzero = prim_of(self_ty)
    if prim is None:
        raise U(f"{rel}: impl ScalarType for {self_ty}: not an integer scalar")
    where = f"{rel}: {self_ty}"
    try:
        pbody, _, _ = facts.span_after(body, r"fn parse\(value: Value\) -> InputValueResult<Self> \{", rel)
        tbody, _, _ = facts.span_after(body, r"fn to_value\(&self\) -> Value \{", rel)
    except U as e:
        raise U(f"{where}: {e}")
    flat = re.sub(r"\s+", " ", pbody).strip()
    # overall shape: match value { Value::Number(n) => { ... } _ => Err(expected_type(value)), }
    m = re.fullmatch(
        r"match value \{ Value::Number\(n\) => \{ (.*) \} _ => Err\(InputValueError::expected_type\(value\)\), \}", flat)
    if not m:
        raise U(f"{where}: parse is not `match value {{ Value::Number(n) => {{..}} _ => Err(expected_type) }}`")
    inner = m.group(1).strip()
    m = re.match(r"let n = n \.as_(i64|u64)\(\) \.ok_or_else\(\|\| InputValueError::from\(\"[^\"]*\"\)\)\?; ", inner)
    if not m:
        raise U(f"{where}: parse does not start with `let n = n.as_i64()/as_u64().ok_or_else(..)?;`")
    acc = "AccI64" if m.group(1) == "i64" else "AccU64"
    rest = inner[m.end():].strip()
    conds = []
    m = re.match(r"if (.*?) \{ return Err\(InputValueError::from\((.*?)\)\); \} ", rest)
    if m:
        for atom in m.group(1).split("||"):
            atom = atom.strip()
            a = re.fullmatch(r"n < (\w+)::MIN as (\w+)", atom)
            b = re.fullmatch(r"n > (\w+)::MAX as (\w+)", atom)
            try:
                if a:
                    conds.append(f"CLtMin {_ity(a.group(1), prim, where)} {_ity(a.group(2), prim, where)}")
                elif b:
                    conds.append(f"CGtMax {_ity(b.group(1), prim, where)} {_ity(b.group(2), prim, where)}")
                elif atom == "n == 0":
                    conds.append("CEqZero")
                else:
                    raise U(f"{where}: rejection test not in subset: {atom!r}")
            except ValueError as e:
                raise U(str(e))
        rest = rest[m.end():].strip()
    elif rest.startswith("if "):
        raise U(f"{where}: rejection branch not in subset: {rest[:80]!r}")
    # result
    m = re.fullmatch(r"Ok\(n as (\w+)\)", rest)
    unwrap = False
    cast = None
    try:
        if m:
            cast = _ity(m.group(1), prim, where)
        else:
            m = re.fullmatch(r"Ok\((\w+)::new\(n( as (\w+))?\)\.unwrap\(\)\)", rest)
            if not m:
                raise U(f"{where}: result expression not in subset: {rest!r}")
            if m.group(1) != self_ty:
                raise U(f"{where}: result built with {m.group(1)}::new, expected {self_ty}::new")
            unwrap = True
            if m.group(3):
                cast = _ity(m.group(3), prim, where)
        # a result without a cast is only well typed when n already has the primitive type
        if cast is None and not ((acc == "AccI64" and prim == "i64") or (acc == "AccU64" and prim == "u64")):
            raise U(f"{where}: uncast result but accessor type differs from {prim}")
        tflat = re.sub(r"\s+", " ", tbody).strip()
        recv = r"self\.get\(\)" if nonzero else r"\*self"
        m = re.fullmatch(rf"Value::Number\(Number::from\({recv}( as (\w+))?\)\)", tflat)
        if not m:
            raise U(f"{where}: to_value not in subset: {tflat!r}")
        tv = _ity(m.group(2), prim, where) if m.group(2) else None
    except ValueError as e:
        raise U(str(e))
    if unwrap != nonzero:
        raise U(f"{where}: NonZero wrapper and .unwrap() construction do not go together")
    opt = lambda x: f"(Some {x})" if x else "None"
    rec = (f"{{| ii_prim := {PRIM[prim]}; ii_nonzero := {'true' if nonzero else 'false'}; ii_acc := {acc};\n"
           f"      ii_conds := [{'; '.join(conds)}]; ii_cast := {opt(cast)}; ii_unwrap := {'true' if unwrap else 'false'};\n"
           f"      ii_tv_cast := {opt(tv)} |}}")
    return rec


def gen(facts):
    U = facts.Unsupported
    entries = []
    spans = []
    seen = set()
    for rel in FILES:
        text = facts.read(rel)
        heads = list(re.finditer(r"impl ScalarType for (\w+) \{", text))
        if not heads:
            raise U(f"{rel}: no `impl ScalarType for` found")
        for h in heads:
            self_ty = h.group(1)
            body, l0, l1 = facts.span_after(text[h.start():], r"impl ScalarType for \w+ \{", rel)
            base = text.count("\n", 0, h.start())
            if self_ty not in IDS:
                raise U(f"{rel}: impl ScalarType for {self_ty}: type unknown to the translator")
            if self_ty in seen:
                raise U(f"{rel}: second impl for {self_ty}")
            seen.add(self_ty)
            rec = translate_impl(facts, rel, self_ty, body)
            entries.append((IDS[self_ty], self_ty, rel, base + l0, base + l1, rec))
            spans.append(body)
    missing = sorted(set(IDS) - seen, key=lambda k: IDS[k])
    if missing:
        raise U(f"integer scalar impls not found: {', '.join(missing)}")
    entries.sort()
    allspan = "\n".join(spans)
    out = (f"(* GENERATED by tools/factsgen/intscalar.py from {FILES[0]} and {FILES[1]}\n"
           f"   sha256(impl bodies) = {hashlib.sha256(allspan.encode()).hexdigest()}\n"
           f"   Do not edit: regenerated from /repo on every run. *)\n"
           "From Coq Require Import ZArith NArith Bool List.\nImport ListNotations.\n\n")
    out += PREAMBLE
    out += "Definition int_impls_gen : list (N * int_impl) := [\n"
    rows = []
    for i, ty, rel, l0, l1, rec in entries:
        rows.append(f"  (* {ty}: {rel} lines {l0}-{l1} *)\n  ({i}%N,\n   {rec})")
    out += ";\n".join(rows) + "\n].\n"
    return facts.write_out("IntScalarGen.v", out)

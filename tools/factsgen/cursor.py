"""C32 — src/types/connection/cursor.rs and mod.rs -> coq/gen/CursorGen.v

Translates the table-shaped parts of the cursor code:
  * the type list of `cursor_type_int_impl! { ... }` and the two bodies of the
    macro (`s.parse()` / `self.to_string()`)            -> cursor_int_types_gen
  * the base64 engine used by OpaqueCursor's decode/encode -> opaque_engine_gen
    (1 = URL_SAFE_NO_PAD for both; anything else is Unsupported)
  * what happens when serde_json::to_vec fails            -> opaque_ser_error_gen
    (1 = unwrap_or_default, i.e. the empty byte string is encoded)
  * the order of the four argument checks of query_with and the comparison
    used for first/last                                   -> query_with_order_gen
The hand-written model (coq/theories/Cursor.v) is proved to follow exactly
these tables (CursorProofs.v, c32_tables), so an edit of the source either
changes a table (the proof breaks) or leaves the shape (Unsupported).
"""
import hashlib
import re

NAME = "cursor"

INT_TYPES = {"i8": (True, 8), "i16": (True, 16), "i32": (True, 32), "i64": (True, 64), "i128": (True, 128),
             "isize": (True, 64), "u8": (False, 8), "u16": (False, 16), "u32": (False, 32), "u64": (False, 64),
             "u128": (False, 128), "usize": (False, 64)}


def _norm(s):
    s = re.sub(r"//[^\n]*", "", s)
    return re.sub(r"\s+", " ", s).strip()


def gen(facts):
    rel = "src/types/connection/cursor.rs"
    text = facts.read(rel)
    # --- integer impls
    mbody, m0, m1 = facts.span_after(text, r"macro_rules! cursor_type_int_impl \{", rel)
    nb = _norm(mbody)
    want = ("($($t:ty)*) => {$( impl CursorType for $t { type Error = ParseIntError; "
            "fn decode_cursor(s: &str) -> Result<Self, Self::Error> { s.parse() } "
            "fn encode_cursor(&self) -> String { self.to_string() } } )*}")
    if nb != want:
        raise facts.Unsupported(f"{rel}: cursor_type_int_impl! left the modelled shape: {nb!r}")
    m = re.search(r"cursor_type_int_impl!\s*\{([^}]*)\}", text[text.index("cursor_type_int_impl! {", text.index(mbody)):])
    if not m:
        raise facts.Unsupported(f"{rel}: no invocation of cursor_type_int_impl!")
    tys = m.group(1).split()
    for t in tys:
        if t not in INT_TYPES:
            raise facts.Unsupported(f"{rel}: integer cursor type {t} not in subset")
    # --- the other simple impls: parse()/to_string() for f32 f64 char bool, identity for String and ID
    for t, dec, enc in (("f32", "s.parse()", "self.to_string()"), ("f64", "s.parse()", "self.to_string()"),
                        ("char", "s.parse()", "self.to_string()"), ("bool", "s.parse()", "self.to_string()"),
                        ("String", "Ok(s.to_string())", "self.clone()"), ("ID", "Ok(s.to_string().into())", "self.to_string()")):
        b, _, _ = facts.span_after(text, r"impl CursorType for " + t + r" \{", rel)
        nb = _norm(b)
        mm = re.fullmatch(r"type Error = \w+; fn decode_cursor\(s: &str\) -> Result<Self, Self::Error> \{ (.*?) \} "
                          r"fn encode_cursor\(&self\) -> String \{ (.*?) \}", nb)
        if not mm or mm.group(1) != dec or mm.group(2) != enc:
            raise facts.Unsupported(f"{rel}: impl CursorType for {t} left the modelled shape: {nb!r}")
    # --- OpaqueCursor
    ob, o0, o1 = facts.span_after(text, r"impl<T> CursorType for OpaqueCursor<T>\s*where\s*T: Serialize \+ DeserializeOwned,\s*\{", rel)
    nb = _norm(ob)
    want_o = ("type Error = Box<dyn std::error::Error + Send + Sync>; "
              "fn decode_cursor(s: &str) -> Result<Self, Self::Error> { use base64::Engine; "
              "let data = base64::engine::general_purpose::URL_SAFE_NO_PAD.decode(s)?; "
              "Ok(Self(serde_json::from_slice(&data)?)) } "
              "fn encode_cursor(&self) -> String { use base64::Engine; "
              "let value = serde_json::to_vec(&self.0).unwrap_or_default(); "
              "base64::engine::general_purpose::URL_SAFE_NO_PAD.encode(value) }")
    if nb != want_o:
        raise facts.Unsupported(f"{rel}: impl CursorType for OpaqueCursor<T> left the modelled shape: {nb!r}")
    # --- query_with
    rel2 = "src/types/connection/mod.rs"
    text2 = facts.read(rel2)
    qb, q0, q1 = facts.span_after(text2, r"pub async fn query_with<Cursor, T, F, R, E>\([^{]*?E: Into<Error>,\s*\{", rel2)
    nq = _norm(qb)
    order = []
    pos = 0
    pat_num = re.compile(
        r'let (first|last) = match \1 \{ Some\(\1\) if \1 (<|<=) (-?\d+) => \{ return Err\(Error::new\( '
        r'"The \\"\1\\" parameter must be a non-negative number", \)\); \} Some\(\1\) => Some\(\1 as usize\), None => None, \}; ')
    pat_cur = re.compile(
        r"let (before|after) = match \1 \{ Some\(\1\) => Some\(Cursor::decode_cursor\(&\1\)\.map_err\(Error::new_with_source\)\?\), "
        r"None => None, \}; ")
    code = {"first": 1, "last": 2, "before": 3, "after": 4}
    while True:
        m1_ = pat_num.match(nq, pos)
        m2_ = pat_cur.match(nq, pos)
        if m1_:
            if (m1_.group(2), m1_.group(3)) != ("<", "0"):
                raise facts.Unsupported(f"{rel2}: query_with: `{m1_.group(1)}` is compared with {m1_.group(2)} {m1_.group(3)}, modelled is < 0")
            order.append(code[m1_.group(1)])
            pos = m1_.end()
        elif m2_:
            order.append(code[m2_.group(1)])
            pos = m2_.end()
        else:
            break
    tail = nq[pos:]
    if tail != "f(after, before, first, last).await.map_err(Into::into)":
        raise facts.Unsupported(f"{rel2}: query_with left the modelled shape near: {tail[:160]!r}")
    if sorted(order) != [1, 2, 3, 4]:
        raise facts.Unsupported(f"{rel2}: query_with: expected one check for each of first, last, before, after; saw {order}")

    out = facts.header("CursorGen", rel, m0, m1, mbody)
    out += "(* cursor_type_int_impl! { ... }: (signed, bits); isize/usize are 64 bit on the checked platform *)\n"
    out += "Definition cursor_int_types_gen : list (bool * Z) :=\n  [" + "; ".join(
        f"({'true' if INT_TYPES[t][0] else 'false'}, {INT_TYPES[t][1]})" for t in tys) + "].\n\n"
    out += f"(* OpaqueCursor, {rel} lines {o0}-{o1}; sha256 {hashlib.sha256(ob.encode()).hexdigest()} *)\n"
    out += "(* 1 = base64::engine::general_purpose::URL_SAFE_NO_PAD for decode and encode *)\n"
    out += "Definition opaque_engine_gen : Z := 1.\n"
    out += "(* 1 = serde_json::to_vec(..).unwrap_or_default(): a serialisation error encodes the empty byte string *)\n"
    out += "Definition opaque_ser_error_gen : Z := 1.\n\n"
    out += f"(* query_with, {rel2} lines {q0}-{q1}; sha256 {hashlib.sha256(qb.encode()).hexdigest()} *)\n"
    out += "(* order of the argument checks: 1 first < 0, 2 last < 0, 3 decode before, 4 decode after *)\n"
    out += "Definition query_with_order_gen : list Z := [" + "; ".join(str(x) for x in order) + "].\n"
    return facts.write_out("CursorGen.v", out)

"""C09 — src/validation/visitor.rs and src/validation/mod.rs -> coq/gen/VisitorGen.v

Translates the table-shaped parts of the rule composition:
  * the callback names declared by `trait Visitor`              -> visitor_trait_methods_gen
  * the callbacks that `impl Visitor for VisitorCons<A, B>` overrides AND
    forwards to both components (`self.0.m(..); self.1.m(..);`)  -> visitor_cons_methods_gen
  * the `.with(rules::X ...)` chain of ValidationMode::Strict    -> strict_rules_gen
    and of ValidationMode::Fast (rules:: and visitors:: entries) -> fast_rules_gen
  * the callbacks that visit_input_value invokes on the visitor  -> input_value_callbacks_gen
`mode` is not a callback (VisitorCons answers with the head's mode); its shape
is checked here and it is left out of both lists.
The hand-written model (coq/theories/Validation.v) takes its "input-value
callbacks reach the rules" flag from these lists, and
`C09_visitor_cons_forwards_all_refuted` is stated over them, so forwarding the
two missing callbacks (or dropping another one) changes the table on the next run.
"""
import hashlib
import re

NAME = "visitor"


def _strip_comments(s):
    return re.sub(r"//[^\n]*", "", s)


def _methods(body, rel, what):
    """[(name, body_text)] of the `fn name(...) {...}` items at depth 0 of a
    trait / impl body."""
    out = []
    i = 0
    depth = 0
    n = len(body)
    while i < n:
        c = body[i]
        if c == "{":
            depth += 1
        elif c == "}":
            depth -= 1
        elif depth == 0 and body.startswith("fn ", i) and (i == 0 or not (body[i - 1].isalnum() or body[i - 1] == "_")):
            m = re.match(r"fn\s+([A-Za-z_]\w*)\s*(<[^>]*>)?\s*\(", body[i:])
            if not m:
                raise ValueError(f"{rel}: cannot read a method header in {what} near {body[i:i+60]!r}")
            name = m.group(1)
            j = body.index("{", i)
            semi = body.find(";", i)
            if semi != -1 and semi < j:
                raise ValueError(f"{rel}: method {name} of {what} has no body")
            d = 0
            k = j
            while k < n:
                if body[k] == "{":
                    d += 1
                elif body[k] == "}":
                    d -= 1
                    if d == 0:
                        break
                k += 1
            out.append((name, body[j + 1:k]))
            i = k + 1
            continue
        i += 1
    return out


def _chain(text, rel, mode):
    m = re.search(r"ValidationMode::" + mode + r"\s*=>\s*\{", text)
    if not m:
        raise ValueError(f"{rel}: arm ValidationMode::{mode} not found")
    # balanced block of the arm
    i = text.index("{", m.end() - 1)
    d = 0
    k = i
    while k < len(text):
        if text[k] == "{":
            d += 1
        elif text[k] == "}":
            d -= 1
            if d == 0:
                break
        k += 1
    arm = _strip_comments(text[i + 1:k])
    stmts = re.findall(r"let\s+mut\s+visitor\s*=\s*VisitorNil(.*?);\s*visit\(&mut visitor, &mut ctx, doc\);", arm, re.S)
    if not stmts:
        raise ValueError(f"{rel}: no `let mut visitor = VisitorNil ... ; visit(...)` in the {mode} arm")
    names = []
    for s in stmts:
        rest = s
        while rest.strip():
            mm = re.match(r"\s*\.with\(\s*(rules|visitors)::([A-Za-z_]\w*)", rest)
            if not mm:
                raise ValueError(f"{rel}: {mode} chain left the `.with(rules::X ...)` shape near {rest.strip()[:80]!r}")
            names.append((mm.group(1), mm.group(2)))
            # skip to the parenthesis closing this .with(
            p = rest.index("(", mm.start())
            d = 0
            q = p
            while q < len(rest):
                if rest[q] == "(":
                    d += 1
                elif rest[q] == ")":
                    d -= 1
                    if d == 0:
                        break
                q += 1
            rest = rest[q + 1:]
    return names, text.count("\n", 0, m.start()) + 1, text.count("\n", 0, k) + 1, arm


def _coq_list(xs):
    return "[" + "; ".join('"%s"' % x for x in xs) + "]"


def gen(facts):
    rel = "src/validation/visitor.rs"
    text = facts.read(rel)
    try:
        tbody, t0, t1 = facts.span_after(text, r"pub\(crate\) trait Visitor<'a> \{", rel)
        cbody, c0, c1 = facts.span_after(
            text, r"impl<'a, A, B> Visitor<'a> for VisitorCons<A, B>\s*where\s*A: Visitor<'a> \+ 'a,\s*B: Visitor<'a> \+ 'a,\s*\{", rel)
        tm = _methods(_strip_comments(tbody), rel, "trait Visitor")
        cm = _methods(_strip_comments(cbody), rel, "impl Visitor for VisitorCons")
    except ValueError as e:
        raise facts.Unsupported(str(e))
    trait_names = [n for n, _ in tm]
    if "mode" not in trait_names:
        raise facts.Unsupported(f"{rel}: trait Visitor has no `mode`")
    for n in trait_names:
        if n != "mode" and not re.fullmatch(r"(enter|exit)_[a-z_]+", n):
            raise facts.Unsupported(f"{rel}: trait Visitor method {n} is not an enter_/exit_ callback")
    if len(set(trait_names)) != len(trait_names):
        raise facts.Unsupported(f"{rel}: trait Visitor declares a method twice")
    cons = []
    for n, b in cm:
        nb = re.sub(r"\s+", " ", b).strip()
        if n == "mode":
            if nb != "self.0.mode()":
                raise facts.Unsupported(f"{rel}: VisitorCons::mode left the modelled shape: {nb!r}")
            continue
        if n not in trait_names:
            raise facts.Unsupported(f"{rel}: VisitorCons implements {n}, which trait Visitor does not declare")
        m = re.fullmatch(r"self\s*\.0\s*\.\s*" + n + r"\((.*?)\); self\s*\.1\s*\.\s*" + n + r"\((.*?)\);", nb)
        if not m or re.sub(r"\s", "", m.group(1)) != re.sub(r"\s", "", m.group(2)):
            raise facts.Unsupported(f"{rel}: VisitorCons::{n} is not `self.0.{n}(args); self.1.{n}(args);`: {nb!r}")
        cons.append(n)
    if "mode" not in [n for n, _ in cm]:
        raise facts.Unsupported(f"{rel}: VisitorCons does not implement `mode`")
    # callbacks invoked by visit_input_value
    vbody, v0, v1 = facts.span_after(text, r"fn visit_input_value<'a, V: Visitor<'a>>\(", rel)
    # span_after finds the first '{' after the match start, which is the fn body only if the
    # signature has no braces: check
    vcalls = re.findall(r"\bv\.((?:enter|exit)_\w+)\(", _strip_comments(vbody))
    if sorted(set(vcalls)) != ["enter_input_value", "exit_input_value"]:
        raise facts.Unsupported(f"{rel}: visit_input_value invokes {sorted(set(vcalls))}, modelled: enter_input_value, exit_input_value")

    rel2 = "src/validation/mod.rs"
    text2 = facts.read(rel2)
    try:
        strict, s0, s1, sarm = _chain(text2, rel2, "Strict")
        fast, f0, f1, farm = _chain(text2, rel2, "Fast")
    except ValueError as e:
        raise facts.Unsupported(str(e))

    callbacks = [n for n in trait_names if n != "mode"]
    out = facts.header("VisitorGen", rel, t0, t1, tbody)
    out += "From Coq Require Import String.\nLocal Open Scope string_scope.\n\n"
    out += f"(* trait Visitor, {rel} lines {t0}-{t1}: callbacks in declaration order (without `mode`) *)\n"
    out += "Definition visitor_trait_methods_gen : list string :=\n  " + _coq_list(callbacks) + ".\n\n"
    out += (f"(* impl Visitor for VisitorCons<A, B>, {rel} lines {c0}-{c1}; sha256 {hashlib.sha256(cbody.encode()).hexdigest()}\n"
            "   callbacks overridden as `self.0.m(args); self.1.m(args);` *)\n")
    out += "Definition visitor_cons_methods_gen : list string :=\n  " + _coq_list(cons) + ".\n\n"
    out += f"(* visit_input_value, {rel} lines {v0}-{v1}: callbacks it invokes on the visitor *)\n"
    out += "Definition input_value_callbacks_gen : list string :=\n  " + _coq_list(sorted(set(vcalls))) + ".\n\n"
    out += f"(* ValidationMode::Strict, {rel2} lines {s0}-{s1}; sha256 {hashlib.sha256(sarm.encode()).hexdigest()}\n   the rules:: entries of the first pass, in `.with` order *)\n"
    out += "Definition strict_rules_gen : list string :=\n  " + _coq_list([n for k, n in strict if k == "rules"]) + ".\n"
    out += "Definition strict_visitors_gen : list string :=\n  " + _coq_list([n for k, n in strict if k == "visitors"]) + ".\n\n"
    out += f"(* ValidationMode::Fast, {rel2} lines {f0}-{f1}; sha256 {hashlib.sha256(farm.encode()).hexdigest()} *)\n"
    out += "Definition fast_rules_gen : list string :=\n  " + _coq_list([n for k, n in fast if k == "rules"]) + ".\n"
    out += "Definition fast_visitors_gen : list string :=\n  " + _coq_list([n for k, n in fast if k == "visitors"]) + ".\n"
    return facts.write_out("VisitorGen.v", out)
